use std::panic::catch_unwind;
use tau_engine::{Rule, Optimisations};
fn rule(det: &str) -> String { format!("detection:\n{}\ntrue_positives: []\ntrue_negatives: []\n", det) }
fn load(det:&str)->Result<Result<Rule,String>,()> { let t=rule(det); catch_unwind(move|| Rule::from_str(&t).map_err(|e| format!("{:?}",e))).map_err(|_|()) }
fn opts(c:bool,s:bool,r:bool,m:bool)->Optimisations{Optimisations{coalesce:c,shake:s,rewrite:r,matrix:m}}
fn doc(y:&str)->serde_yaml::Value{serde_yaml::from_str(y).unwrap()}
fn show(name:&str, r: std::thread::Result<String>) { match r { Ok(s)=>println!("{name}: {s}"), Err(_)=>println!("{name}: PANIC") } }
fn main(){
  std::panic::set_hook(Box::new(|_|{}));
  for p in ["'\"'", "\"'\"", "'i\"'"] { let d=format!("  A:\n    foo: {}\n  condition: A", p); show(&format!("D1 load foo: {p}"), catch_unwind(move|| format!("{:?}", Rule::from_str(&rule(&d)).is_ok()))); }
  { let mut l=String::new(); for i in 0..10 { l.push_str(&format!("    - '?\\w{{120}}x{}'\n", i)); } let d=format!("  A:\n    foo:\n{}  condition: A", l); show("D9b regexset", catch_unwind(move|| format!("{:?}", Rule::from_str(&rule(&d)).map(|_|()).map_err(|e|e.to_string().chars().take(60).collect::<String>())))); }
  for c in ["A and 1","A and int(foo)","A or not(foo)"] { let d=format!("  A:\n    foo: a\n  condition: {}", c); show(&format!("D2 {c}"), catch_unwind(move|| { match Rule::from_str(&rule(&d)) { Ok(r)=> format!("loaded; matches={}", r.matches(doc("foo: a").as_mapping().unwrap())), Err(e)=>format!("rejected") } })); }
  { let t="detection:\n  A:\n    foo: a\n  condition: A\ntrue_positives: [foo]\ntrue_negatives: []\n"; show("D3 validate non-mapping", catch_unwind(move|| { let r=Rule::from_str(t).unwrap(); format!("{:?}", r.validate().map_err(|e| e.to_string())) })); }
  { let d="  A:\n    - a: x1\n      b: y1\n    - a: x2\n      b: y2\n    - c: '*q*'\n      d: '*r*'\n    - c: '*s*'\n      d: '*t*'\n  condition: A"; let mut seen=std::collections::HashSet::new(); for _ in 0..40 { let r=Rule::from_str(&rule(d)).unwrap().optimise(Optimisations::default()); seen.insert(format!("{}", r.detection.expression)); } println!("D6 distinct displays over 40 optimise calls: {}", seen.len()); }
  for p in ["'?.*?foo'", "'?a\\.*'"] { let d=format!("  A:\n    foo: {}\n  condition: A", p); show(&format!("D9 optimise {p}"), catch_unwind(move|| { let r=Rule::from_str(&rule(&d)).unwrap(); let r=r.optimise(opts(false,false,true,false)); format!("ok {}", r.detection.expression) })); }
  { let d="  A:\n    all(foo): [1, '>0']\n  condition: A"; let r=Rule::from_str(&rule(d)).unwrap(); println!("D5 all(foo):[1,'>0'] on foo:1 => {}", r.matches(doc("foo: 1").as_mapping().unwrap())); }
  { let d="  A:\n    of(foo, 1): [true, false]\n  condition: A"; let r=Rule::from_str(&rule(d)).unwrap(); println!("D5 of(foo,1):[true,false] on foo:true => {}", r.matches(doc("foo: true").as_mapping().unwrap())); }
  { let d="  A:\n    foo: x\n  condition: int(foo) == 0"; let r=Rule::from_str(&rule(d)).unwrap(); println!("K9 int(foo)==0 on foo:.nan => {}", r.matches(doc("foo: .nan").as_mapping().unwrap())); }
  { let d="  A:\n    of(foo, 2): [a]\n  condition: A"; let r=Rule::from_str(&rule(d)).unwrap(); println!("D4 of(foo,2):[a] on foo:a => {}", r.matches(doc("foo: a").as_mapping().unwrap())); }
  { let d="  A:\n    of(foo, 0): [a]\n  condition: A"; let r=Rule::from_str(&rule(d)).unwrap(); println!("D4 of(foo,0):[a] on foo:a => {}", r.matches(doc("foo: a").as_mapping().unwrap())); }
  { let d="  X:\n    foo: a\n  condition: of(X, 2)"; let r=Rule::from_str(&rule(d)).unwrap(); println!("D4b of(X,2) X:{{foo:a}} on foo:a => {}", r.matches(doc("foo: a").as_mapping().unwrap())); }
}
