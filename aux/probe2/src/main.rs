// usage: probe2 <rule.yml> <doc.yml>...   prints the verdict of the rule as loaded and under all 16 optimisation switch sets
use std::panic::catch_unwind;
use tau_engine::{Optimisations, Rule};
fn main() {
    std::panic::set_hook(Box::new(|_| {}));
    let args: Vec<String> = std::env::args().collect();
    let text = std::fs::read_to_string(&args[1]).unwrap();
    for d in &args[2..] {
        let doc: serde_yaml::Value = serde_yaml::from_str(&std::fs::read_to_string(d).unwrap()).unwrap();
        let t = text.clone();
        let dd = doc.clone();
        let base = catch_unwind(move || match Rule::from_str(&t) {
            Ok(r) => format!("{}", r.matches(dd.as_mapping().unwrap())),
            Err(e) => format!("LOAD-ERROR {}", e),
        })
        .unwrap_or("PANIC".into());
        println!("{d}: as loaded = {base}");
        for bits in 0..16u8 {
            let o = Optimisations { coalesce: bits & 1 != 0, shake: bits & 2 != 0, rewrite: bits & 4 != 0, matrix: bits & 8 != 0 };
            let t = text.clone();
            let dd = doc.clone();
            let r = catch_unwind(move || {
                let r = Rule::from_str(&t).unwrap().optimise(o);
                format!("{} {}", r.matches(dd.as_mapping().unwrap()), r.detection.expression)
            })
            .unwrap_or("PANIC".into());
            let v = r.split(' ').next().unwrap().to_string();
            if v != base {
                println!("  DIFFERS coalesce={} shake={} rewrite={} matrix={}: {}", bits & 1 != 0, bits & 2 != 0, bits & 4 != 0, bits & 8 != 0, r);
            }
        }
    }
}
