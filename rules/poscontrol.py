"""Positive controls shared by the thorough tiers: the zero-expected scanners must fire on fixtures/poscontrol."""
import os

import core
import facts
import panic
import q
from facts import walk, walk_with_path
from show import show

_fx = {}


def fixture():
    if "F" not in _fx:
        _fx["F"] = facts.load_crate(os.path.join(core.VERIF, "fixtures", "poscontrol"), "poscontrol")
    return _fx["F"]


def lossy(rep):
    import c09
    try:
        FX = fixture()
    except facts.BuildError as e:
        rep.lost("POSCONTROL", "POSCONTROL/build", "fixture crate builds", str(e)[-200:])
        return
    rep.describe("POSCONTROL", "each zero-expected rule fires on the positive-control fixture (the matcher is alive)")
    got = {}
    for name, f in FX.fns.items():
        if f.thir is None:
            continue
        for n, path in walk_with_path(f.body):
            if n.get("k") == "Cast" and n["from"] in list(c09.INTS) + list(c09.FLOATS) and n["ty"] in list(c09.INTS) + list(c09.FLOATS):
                ok, cat, _ = c09.classify_cast(n, q.context(path, n))
                got[name] = (ok, cat)
    for fn, want in (("lossy_float", False), ("lossy_unsigned", False), ("lossy_signed", False), ("guarded_ok", True)):
        rep.check(fn in got and got[fn][0] == want, "POSCONTROL", "POSCONTROL/LOSSY/" + fn, "fixtures/poscontrol/src/lib.rs",
                  "cast classifier %s the planted %s cast" % ("accepts" if want else "rejects", "guarded" if want else "unguarded"), str(got.get(fn)))


def panics(rep):
    try:
        FX = fixture()
    except facts.BuildError as e:
        rep.lost("POSCONTROL", "POSCONTROL/build", "fixture crate builds", str(e)[-200:])
        return
    rep.describe("POSCONTROL", "each zero-expected rule fires on the positive-control fixture (the matcher is alive)")
    cache = {}
    und = {}
    for fn in ("unguarded_unwrap", "unguarded_index"):
        sites = panic.sites_of(FX, fn)
        bad = 0
        for s in sites:
            panic.locate(FX, s, cache)
            if not panic.discharge(FX, s):
                bad += 1
        und[fn] = (len(sites), bad)
        rep.check(len(sites) >= 1 and bad >= 1, "POSCONTROL", "POSCONTROL/PANIC/" + fn, "fixtures/poscontrol/src/lib.rs", "the planted unguarded panic site is enumerated and left undischarged", "%d sites, %d undischarged" % (len(sites), bad))


PANIC_FORMS = ("pf_panic_plain", "pf_panic_msg", "pf_panic_fmt", "pf_unreachable_msg", "pf_unimplemented", "pf_todo", "pf_assert", "pf_assert_eq", "pf_div", "pf_rem",
               "pf_add", "pf_str_slice", "pf_slice_index", "pf_vec_index", "pf_map_index", "pf_unwrap_or_else::{closure#0}", "pf_expect_err", "pf_vec_remove", "pf_split_at",
               "pf_refcell", "pf_from_digit", "pf_neg", "pf_shl", "pf_explicit_exit", "pf_abort", "pf_copy_from_slice", "pf_iter_step_by", "pf_chunks", "pf_string_drain",
               "pf_duration_sub", "pf_array_index", "pf_range_slice")


def panic_forms(rep):
    """every spelling of a panic-capable construct planted in the fixture is enumerated by the MIR site inventory"""
    try:
        FX = fixture()
    except facts.BuildError as e:
        rep.lost("POSCONTROL", "POSCONTROL/build", "fixture crate builds", str(e)[-200:])
        return
    missed = [fn for fn in PANIC_FORMS if fn not in FX.fns or not panic.sites_of(FX, fn)]
    rep.check(not missed, "POSCONTROL", "POSCONTROL/PANIC-FORMS", "fixtures/poscontrol/src/lib.rs", "all %d planted panic spellings (panic!/unreachable! with and without message, assert!, arithmetic, index/slice forms, std functions that panic, exit/abort) are enumerated" % len(PANIC_FORMS), "missed: " + ", ".join(missed))


def droppers(rep):
    try:
        FX = fixture()
    except facts.BuildError as e:
        rep.lost("POSCONTROL", "POSCONTROL/build", "fixture crate builds", str(e)[-200:])
        return
    rep.describe("POSCONTROL", "each zero-expected rule fires on the positive-control fixture (the matcher is alive)")
    f = FX.fn("drops_members")
    hit = [show(n) for n in walk(f.body) if n.get("k") == "Call" and n.get("fn") and n["fn"].endswith("::dedup")]
    rep.check(bool(hit), "POSCONTROL", "POSCONTROL/NO-DROP", "fixtures/poscontrol/src/lib.rs", "a member-dropping Vec call is visible to the scanner", str(hit[:1]))
