"""Symbolic run of Rule::optimise for each of the 16 switch sets (and for an already optimised rule).

The body of Rule::optimise (helpers inlined) is interpreted over *terms*, with the switches and the `optimised` flag given
concrete values, so that every condition of the function is decided and no path merging is needed.  The result is, per run, the
term held by each field of the returned rule:

    ("init", "detection.expression")                      the field's value on entry
    ("app", "optimiser::shake", T)                        a pass applied to T
    ("coalesce", Texpr, Tidents)                          optimiser::coalesce(expr, &identifiers)
    ("mapv", "optimiser::shake", T, keys_kept)            the identifier map with the pass applied to every value
    ("cleared", T)                                        the map after .clear()
    ("lit", v)

This is dataflow over a finite set of configurations on the typed tree; nothing of tau-engine is executed.  Constructs outside the
interpreted subset raise Unsupported (reported as LOST by the callers: fail closed)."""
import q
from facts import walk, peel, unblock, strip_ref, call_is, lit
from show import show


class Unsupported(Exception):
    pass


class _Ret(Exception):
    def __init__(self, v):
        self.v = v


SWITCHES = ("coalesce", "shake", "rewrite", "matrix")
RULE_FIELDS = ("detection", "optimised", "true_positives", "true_negatives")
DET_FIELDS = ("expression", "identifiers", "expression_raw", "identifiers_raw")


def _obj(prefix, fields):
    return ["obj", {f: (_obj(prefix + f + ".", DET_FIELDS) if f == "detection" else ("init", prefix + f)) for f in fields}]


class Run:
    def __init__(self, F, fn, switches, optimised):
        self.F = F
        self.fn = fn
        self.sw = switches
        self.env = {}
        ps = [strip_ref(p["pat"]) for p in fn.thir["params"] if p.get("pat")]
        self.self_id, self.opt_id = ps[0]["id"], ps[1]["id"]
        rule = _obj("", RULE_FIELDS)
        rule[1]["optimised"] = ("lit", optimised)
        rule[1]["*"] = ("init", "<other fields>")
        self.env[self.self_id] = rule
        self.env[self.opt_id] = ["obj", {s: ("lit", v) for s, v in switches.items()}]
        self.writes = []  # (place description) of every assignment / mutation rooted at self

    # ---- places
    def place(self, e):
        """-> (container dict, key) for an lvalue expression"""
        e = peel(e)
        if e.get("k") == "Var" or e.get("k") == "Upvar":
            return self.env, e["id"]
        if e.get("k") == "Field":
            base = self.ev(e["arg"])
            if not (isinstance(base, list) and base[0] == "obj"):
                raise Unsupported("field of a non-struct value: " + str(show(e))[:60])
            return base[1], e.get("name")
        raise Unsupported("place " + str(show(e))[:60])

    def rooted_at_self(self, e):
        e = peel(e)
        names = []
        while e.get("k") == "Field":
            names.append(e.get("name"))
            e = peel(e["arg"])
        if e.get("k") in ("Var", "Upvar") and e["id"] == self.self_id:
            return ".".join(names[::-1])
        return None

    # ---- patterns
    def bind(self, pat, val):
        p = strip_ref(pat)
        k = p.get("k")
        if k == "Wild":
            return
        if k == "Bind":
            self.env[p["id"]] = val
            return
        if k == "Leaf":
            if isinstance(val, list) and val[0] == "obj":
                for s in p["sub"]:
                    f = s.get("f")
                    if f not in val[1]:
                        raise Unsupported("destructuring unknown field %s" % f)
                    self.bind(s["p"], val[1][f])
                return
            if isinstance(val, tuple) and val and val[0] == "tuple":
                for s in p["sub"]:
                    self.bind(s["p"], val[1][s["i"]])
                return
        raise Unsupported("pattern " + str(k))

    # ---- expressions
    def ev(self, n):
        if n is None:
            return ("unit",)
        n0 = n
        n = peel(n)
        k = n.get("k")
        if k in ("Var", "Upvar"):
            if n["id"] not in self.env:
                raise Unsupported("unbound variable " + str(n.get("name")))
            return self.env[n["id"]]
        if k == "Lit":
            v = lit(n)
            return ("lit", v[1] if v else None)
        if k == "Zst" and n.get("fn"):
            return ("fn", n["fn"])
        if k == "Field":
            base = self.ev(n["arg"])
            if isinstance(base, list) and base[0] == "obj":
                if n.get("name") in base[1]:
                    return base[1][n.get("name")]
                if "*" in base[1]:
                    return ("init", str(n.get("name")))
            raise Unsupported("field read " + str(show(n))[:60])
        if k == "Unary" and n["op"] == "Not":
            v = self.ev(n["arg"])
            if isinstance(v, tuple) and v[0] == "lit" and isinstance(v[1], bool):
                return ("lit", not v[1])
            raise Unsupported("negation of " + str(v)[:40])
        if k == "Block":
            for s in n["stmts"]:
                if s["k"] == "Let":
                    if s.get("else") is not None:
                        raise Unsupported("let-else")
                    self.bind(s["pat"], self.ev(s["init"]) if s.get("init") is not None else ("uninit",))
                else:
                    self.ev(s["e"])
            return self.ev(n["expr"]) if n.get("expr") is not None else ("unit",)
        if k == "If":
            c = self.ev(n["cond"])
            if not (isinstance(c, tuple) and c[0] == "lit" and isinstance(c[1], bool)):
                raise Unsupported("undecided condition " + str(show(n["cond"]))[:60])
            if c[1]:
                return self.ev(n["then"])
            return self.ev(n["else"]) if n.get("else") is not None else ("unit",)
        if k == "Return":
            raise _Ret(self.ev(n.get("value")))
        if k == "Assign":
            r = self.rooted_at_self(n["lhs"])
            if r is not None:
                self.writes.append(r)
            cont, key = self.place(n["lhs"])
            cont[key] = self.ev(n["rhs"])
            return ("unit",)
        if k == "Tuple":
            return ("tuple", [self.ev(x) for x in n["fields"]])
        if k == "Adt":
            if n["adt"] in ("rule::Detection", "rule::Rule"):
                fields = {f["name"]: self.ev(f["e"]) for f in n["fields"]}
                if n.get("base") is not None:
                    b = self.ev(n["base"])
                    if isinstance(b, list) and b[0] == "obj":
                        for kk, vv in b[1].items():
                            fields.setdefault(kk, vv)
                return ["obj", fields]
            return ("adt", n["adt"], n.get("variant"), tuple(str(self.ev(f["e"])) for f in n["fields"]))
        if k == "Call":
            fn = n.get("fn") or ""
            if not fn and n.get("fun") is not None:
                f = self.ev(n["fun"])
                if isinstance(f, tuple) and f[0] == "fn" and len(n["args"]) == 1:
                    return self.app(f[1], [self.ev(n["args"][0])])
                raise Unsupported("call of " + str(f)[:40])
            if fn.endswith(("Fn::call", "FnMut::call_mut", "FnOnce::call_once")) and len(n["args"]) == 2:
                f = self.ev(n["args"][0])
                t = self.ev(n["args"][1])
                if isinstance(f, tuple) and f[0] == "fn" and isinstance(t, tuple) and t[0] == "tuple" and len(t[1]) == 1:
                    return self.app(f[1], t[1])
                raise Unsupported("closure call")
            if n.get("local") and fn.startswith("optimiser::"):
                return self.app(fn, [self.ev(a) for a in n["args"]])
            if fn.endswith("::clear") and n["args"]:
                r = self.rooted_at_self(n["args"][0])
                if r is not None:
                    self.writes.append(r)
                cont, key = self.place(n["args"][0])
                cont[key] = ("cleared", cont[key])
                return ("unit",)
            if fn.endswith("Iterator::collect") and n["args"]:
                m = peel(n["args"][0])
                if call_is(m, "Iterator::map") and call_is(peel(m["args"][0]), "IntoIterator::into_iter"):
                    src = self.ev(peel(m["args"][0])["args"][0])
                    return self.mapv(peel(m["args"][1]), src)
                raise Unsupported("collect of " + str(show(m))[:60])
            if fn.endswith("mem::replace") and len(n["args"]) == 2:
                tgt = n["args"][0]
                while tgt.get("k") in ("Borrow", "Deref") and isinstance(tgt.get("arg"), dict):
                    tgt = tgt["arg"]
                cont, key = self.place(tgt)
                r = self.rooted_at_self(tgt)
                if r is not None:
                    self.writes.append(r)
                old_v = cont[key]
                cont[key] = self.ev(n["args"][1])
                return old_v
            if fn.endswith(("Clone::clone", "mem::take")):
                return self.ev(n["args"][0])
            if fn.endswith("Box::<T>::new"):
                return self.ev(n["args"][0])
            # any other call: a place handed over mutably is changed by it; the result is an opaque term
            for a in n["args"]:
                if a.get("k") == "Borrow" and a.get("mut"):
                    try:
                        cont, key = self.place(a["arg"])
                    except Unsupported:
                        continue
                    r = self.rooted_at_self(a["arg"])
                    if r is not None:
                        self.writes.append(r)
                    cont[key] = ("mutated-by", fn, str(cont.get(key))[:60])
            return ("call", fn, tuple(str(self.ev(a))[:40] if a.get("k") not in ("Closure",) else "closure" for a in n["args"]))
        if k == "Closure":
            return ("closure", n.get("def"))
        if k == "For":
            # `for v in MAP.values_mut() { .. *v = PASS(<old *v>) .. }`: the map with the pass applied to every value, keys kept
            it = peel(n["iter"])
            while call_is(it, "IntoIterator::into_iter") and len(it["args"]) == 1:
                it = peel(it["args"][0])
            pb = strip_ref(n["pat"])
            if call_is(it, "::values_mut") and len(it["args"]) == 1 and pb.get("k") == "Bind":
                tgt = it["args"][0]
                while tgt.get("k") in ("Borrow", "Deref") and isinstance(tgt.get("arg"), dict):
                    tgt = tgt["arg"]
                cont, key = self.place(tgt)
                self.env[pb["id"]] = ("elem",)
                self.ev(n["body"])
                fin = self.env.pop(pb["id"])
                if fin == ("elem",):
                    return ("unit",)
                if isinstance(fin, tuple) and len(fin) == 3 and fin[0] == "app" and fin[2] == ("elem",):
                    r = self.rooted_at_self(tgt)
                    if r is not None:
                        self.writes.append(r)
                    cont[key] = ("mapv", fin[1], cont[key], True)
                    return ("unit",)
                raise Unsupported("values_mut loop leaves " + str(fin)[:60])
            raise Unsupported("loop over " + str(show(n["iter"]))[:60])
        raise Unsupported("node " + str(k))

    def app(self, fn, args):
        if fn == "optimiser::coalesce" and len(args) == 2:
            return ("coalesce", args[0], args[1])
        if len(args) == 1:
            return ("app", fn, args[0])
        raise Unsupported("%s with %d arguments" % (fn, len(args)))

    def mapv(self, clo_n, src):
        """the identifier map with a pass applied to each value: closure |(k, v)| (k, PASS(v))"""
        if clo_n.get("k") != "Closure":
            raise Unsupported("map over a non-closure")
        clo = self.F.fns.get(clo_n["def"])
        ps = [strip_ref(p["pat"]) for p in clo.thir["params"] if p.get("pat") is not None]
        if len(ps) != 1 or ps[0].get("k") != "Leaf" or len(ps[0]["sub"]) != 2:
            raise Unsupported("map closure parameters")
        kb, vb = strip_ref(ps[0]["sub"][0]["p"]), strip_ref(ps[0]["sub"][1]["p"])
        body = unblock(clo.body)
        if body.get("k") != "Tuple" or len(body["fields"]) != 2 or kb.get("k") != "Bind" or vb.get("k") != "Bind":
            raise Unsupported("map closure body")
        keys_kept = q.var_id(body["fields"][0]) == kb["id"]
        c = peel(body["fields"][1])
        fn = None
        if c.get("k") == "Call":
            cf = c.get("fn") or ""
            if c.get("local") and len(c["args"]) == 1 and q.var_id(c["args"][0]) == vb["id"]:
                fn = cf
            elif (cf.endswith(("Fn::call", "FnMut::call_mut", "FnOnce::call_once")) and len(c["args"]) == 2) or (not cf and c.get("fun") is not None):
                up = peel(c["args"][0]) if cf else peel(c["fun"])
                argv = peel(c["args"][1]) if cf else None
                okarg = (argv.get("k") == "Tuple" and len(argv["fields"]) == 1 and q.var_id(argv["fields"][0]) == vb["id"]) if cf else (len(c["args"]) == 1 and q.var_id(c["args"][0]) == vb["id"])
                if up.get("k") in ("Upvar", "Var") and okarg:
                    # the captured variable holds a function item in the enclosing run
                    cands = [v for kk, v in self.env.items() if isinstance(kk, int) and kk % 1000000 == up["id"] % 1000000 and isinstance(v, tuple) and v[0] == "fn"]
                    if len({x[1] for x in cands}) >= 1:
                        # the innermost (latest bound) one
                        fn = cands[-1][1]
        if fn is None:
            raise Unsupported("map closure does not apply a pass to the value: " + str(show(body))[:60])
        return ("mapv", fn, src, keys_kept)


def analyse(F):
    """-> {"runs": {(switch tuple, optimised): {"fields": {...}, "writes": [...]}}, "error": str or None}"""
    fn = F.fn("rule::Rule::optimise")
    if fn is None:
        return {"runs": {}, "error": "Rule::optimise not found"}
    out = {"runs": {}, "error": None}
    try:
        for bits in range(16):
            sw = {s: bool(bits >> i & 1) for i, s in enumerate(SWITCHES)}
            for already in (False, True):
                r = Run(F, fn, sw, already)
                try:
                    v = r.ev(fn.body)
                except _Ret as ret:
                    v = ret.v
                if not (isinstance(v, list) and v[0] == "obj"):
                    raise Unsupported("optimise does not return a rule value")
                det = v[1].get("detection")
                fields = {"optimised": v[1].get("optimised"), "true_positives": v[1].get("true_positives"), "true_negatives": v[1].get("true_negatives"), "other": v[1].get("*")}
                if isinstance(det, list) and det[0] == "obj":
                    for f in DET_FIELDS:
                        fields["detection." + f] = det[1].get(f)
                else:
                    raise Unsupported("detection is not a struct value at return")
                out["runs"][(tuple(sw[s] for s in SWITCHES), already)] = {"fields": fields, "writes": list(r.writes)}
    except Unsupported as e:
        out["error"] = str(e)
    return out


def expected(sw, already):
    """the specification: passes under their own switch, in the order coalesce, shake, rewrite, matrix; identifiers cleared after coalesce
    and mapped value-wise by the other passes; raw parts and examples untouched; flag set; nothing at all for an optimised rule"""
    e = ("init", "detection.expression")
    ids = ("init", "detection.identifiers")
    if already:
        return {"detection.expression": e, "detection.identifiers": ids, "optimised": ("lit", True)}
    c, s, r, m = sw
    if c:
        e = ("coalesce", e, ids)
        ids = ("cleared", ids)
    for on, fn in ((s, "optimiser::shake"), (r, "optimiser::rewrite"), (m, "optimiser::matrix")):
        if on:
            e = ("app", fn, e)
            ids = ("mapv", fn, ids, True)
    return {"detection.expression": e, "detection.identifiers": ids, "optimised": ("lit", True)}
