"""C05 Condition grammar: the Pratt parameters are the grammar.

Rules: T-BP (binding powers as an order), ASSOC (break test and recursion power), PAREN (depth
counter, unwrapped sub-parse, trailing tokens rejected), T-KEYWORD (look-ahead literals, skips,
whitespace), MATCH-AHEAD (the look-ahead helper compares every char).
"""
import itertools

import facts
import q
from facts import walk, walk_with_path, peel, unblock, lit, call_is, variant_of, adt_is, pat_str, or_pats, strip_ref, subpat
from show import show

SPEC_KEYWORDS = {
    "and ": ("Operator", "BoolSym::And"),
    "or ": ("Operator", "BoolSym::Or"),
    "not ": ("Miscellaneous", "MiscSym::Not"),
    "not(": ("Modifier", "ModSym::Not"),
    "int(": ("Modifier", "ModSym::Int"),
    "flt(": ("Modifier", "ModSym::Flt"),
    "str(": ("Modifier", "ModSym::Str"),
    "string(": ("Modifier", "ModSym::Str"),
    "all(": ("Match", "MatchSym::All"),
    "of(": ("Match", "MatchSym::Of"),
}


def adts(F):
    return {a["path"]: a for a in F.items["adts"]}


# -- a tiny evaluator for total functions over constructor trees (finite tables) -----------------

def match_value(pat, val, env):
    """val = (adt_last, variant, [children]) ; returns True/False, binding names in env."""
    pat = strip_ref(pat)
    k = pat.get("k")
    if k == "Wild":
        return True
    if k == "Bind":
        env[pat["id"]] = val
        if pat.get("sub"):
            return match_value(pat["sub"], val, env)
        return True
    if k == "Or":
        return any(match_value(q, val, env) for q in pat["pats"])
    if k == "Variant":
        if val is None or (pat["adt"].split("::")[-1], pat["variant"]) != (val[0], val[1]):
            return False
        for s in pat["sub"]:
            child = val[2][s["i"]] if s["i"] < len(val[2]) else None
            if not match_value(s["p"], child, env):
                return False
        return True
    raise ValueError("pattern kind %s" % k)


def eval_table(n, env):
    """Evaluate a nest of `match` expressions over bound constructor values down to a literal."""
    n0 = n
    n = peel(n)
    k = n.get("k")
    if k == "Block" and not n["stmts"] and n.get("expr"):
        return eval_table(n["expr"], env)
    if k == "Lit":
        return lit(n)
    if k == "Match":
        sv = peel(n["scrut"])
        if sv.get("k") != "Var" or sv["id"] not in env:
            raise ValueError("scrutinee is not a bound variable: " + show(n["scrut"]))
        val = env[sv["id"]]
        for a in n["arms"]:
            e2 = dict(env)
            if a.get("guard"):
                raise ValueError("guard in table")
            if match_value(a["pat"], val, e2):
                return eval_table(a["body"], e2)
        raise ValueError("no arm matched %r" % (val,))
    raise ValueError("unsupported node %s in table: %s" % (k, show(n0)[:80]))


def keyword_table(F, tk):
    """rows (word, token constructor node, site, skip-formula-ok) of a table-driven keyword recogniser in tokenise, [] if there is none"""
    rows = []
    for n in walk(tk.body):
        if n.get("k") != "If" or peel(n["cond"]).get("k") != "LetCond":
            continue
        lc = peel(n["cond"])
        fnd = peel(lc["arg"])
        if not (call_is(fnd, "Iterator::find") and len(fnd["args"]) == 2 and peel(fnd["args"][1]).get("k") == "Closure"):
            continue
        src = peel(fnd["args"][0])
        while src.get("k") == "Call" and (src.get("fn") or "").endswith(("::iter", "IntoIterator::into_iter", "Deref::deref")) and len(src["args"]) == 1:
            src = peel(src["args"][0])
        if not (src.get("k") == "Array" and src.get("const") and all(peel(r).get("k") == "Tuple" and len(peel(r)["fields"]) == 2 and lit(peel(r)["fields"][0]) and lit(peel(r)["fields"][0])[0] == "s" for r in src["fields"])):
            continue
        # the predicate: match_ahead(it, <first component>)
        clo = F.fns.get(peel(fnd["args"][1])["def"])
        cps = [strip_ref(p["pat"]) for p in clo.thir["params"] if p.get("pat") is not None] if clo is not None and clo.thir is not None else []
        cb = unblock(clo.body) if cps else {}
        first_ids = set()
        if len(cps) == 1:
            pp = cps[0]
            while pp.get("k") in ("Deref",) and pp.get("sub"):
                pp = strip_ref(pp["sub"])
            if pp.get("k") == "Leaf" and pp["sub"]:
                first_ids = {b[1] for sp_ in pp["sub"] if sp_["i"] == 0 for b in facts.pat_binds(sp_["p"])}
        okpred = call_is(cb, "tokeniser::match_ahead") and len(cb["args"]) == 2 and q.base_var(cb["args"][1]) in first_ids
        # the action: push(token.clone()) ; it.nth(word.len() - 2)
        pat = strip_ref(subpat(lc["pat"], 0)) if variant_of(lc["pat"]) == ("Option", "Some") else None
        wid = tid = None
        if pat is not None and pat.get("k") == "Leaf":
            for sp_ in pat["sub"]:
                b = strip_ref(sp_["p"])
                if b.get("k") == "Bind":
                    if sp_["i"] == 0:
                        wid = b["id"]
                    else:
                        tid = b["id"]
        pushes = [x for x in walk(n["then"]) if call_is(x, "::push")]
        nths = [x for x in walk(n["then"]) if call_is(x, "Iterator::nth")]
        okpush = len(pushes) == 1 and call_is(peel(pushes[0]["args"][1]), "Clone::clone") and q.base_var(peel(pushes[0]["args"][1])["args"][0]) == tid and tid is not None
        oknth = False
        if len(nths) == 1:
            k_ = peel(nths[0]["args"][1])
            oknth = k_.get("k") == "Binary" and k_["op"] == "Sub" and call_is(peel(k_["lhs"]), "::len") and q.base_var(peel(k_["lhs"])["args"][0]) == wid and wid is not None and lit(k_["rhs"]) == ("i", 2)
        for r in src["fields"]:
            r = peel(r)
            rows.append((lit(r["fields"][0])[1], peel(r["fields"][1]), n["sp"], okpred and okpush and oknth))
    return rows


def run(rep):
    F = facts.load("A")
    rep.configs = ["A(core,json)"]
    rep.explanation = (
        "Static extraction of the Pratt parser's parameters from the typed tree of /repo: binding power of every token kind "
        "(evaluated as a finite table over the Token/BoolSym/... constructors), the loop's break comparison and the recursion "
        "powers (associativity), the parenthesis collector, the trailing-token check, and the tokeniser's keyword look-ahead table. "
        "For a Pratt parser these parameters determine precedence, associativity and grouping completely; nothing is executed."
    )
    A = adts(F)
    # ---------------------------------------------------------------- T-BP
    rep.describe("T-BP", "Token::binding_power as a total function of token kind must satisfy not > cmp(all equal) > or > and > 0 = atoms/delimiters")
    bp = F.fn("tokeniser::Token::binding_power")
    if not bp:
        rep.lost("T-BP", "T-BP/anchor", "function tokeniser::Token::binding_power")
    else:
        tok = A.get("tokeniser::Token")
        table = {}
        self_id = bp.thir["params"][0]["pat"]["id"]
        for v in tok["variants"]:
            fty = v["fields"][0]["ty"] if v["fields"] else None
            inner = A.get(fty) if fty else None
            kids = [(fty.split("::")[-1], iv["name"], []) for iv in inner["variants"]] if inner else [None]
            for kid in kids:
                val = ("Token", v["name"], [kid])
                key = "Token::%s(%s)" % (v["name"], kid[1] if kid else "_")
                try:
                    r = eval_table(bp.body, {self_id: val})
                    table[key] = r[1]
                except ValueError as e:
                    rep.lost("T-BP", "T-BP/eval/" + key, "binding_power evaluates to a literal for " + key, str(e))
        def g(k):
            return table.get(k)
        cmps = ["Token::Operator(%s)" % s for s in ("Equal", "GreaterThan", "GreaterThanOrEqual", "LessThan", "LessThanOrEqual")]
        site = bp.sp
        vals = [g(c) for c in cmps]
        rep.check(None not in vals and len(set(vals)) == 1, "T-BP", "T-BP/cmp-equal", site, "all five comparison operators have the same binding power", str(dict(zip(cmps, vals))))
        c = vals[0]
        n_, o_, a_ = g("Token::Miscellaneous(Not)"), g("Token::Operator(Or)"), g("Token::Operator(And)")
        rep.check(None not in (n_, c) and n_ > c, "T-BP", "T-BP/not>cmp", site, "bp(not) > bp(comparison)", "%s vs %s" % (n_, c))
        rep.check(None not in (o_, c) and c > o_, "T-BP", "T-BP/cmp>or", site, "bp(comparison) > bp(or)", "%s vs %s" % (c, o_))
        rep.check(None not in (o_, a_) and o_ > a_, "T-BP", "T-BP/or>and", site, "bp(or) > bp(and)", "%s vs %s" % (o_, a_))
        rep.check(a_ is not None and a_ > 0, "T-BP", "T-BP/and>0", site, "bp(and) > 0", str(a_))
        for k, v in sorted(table.items()):
            if k.startswith(("Token::Delimiter", "Token::Float", "Token::Identifier", "Token::Integer")):
                rep.check(v == 0, "T-BP", "T-BP/zero/" + k, site, "atoms and delimiters never continue an expression: bp = 0", "%s -> %s" % (k, v))
        # prefix-only tokens must never be accepted as infix with a power above `and`... they are rejected by parse_led
        rep.extra["binding_power_table"] = table
    rep.floor("T-BP", 11)

    # ---------------------------------------------------------------- ASSOC
    rep.describe("ASSOC", "parse_expr = nud; loop{peek; break if rbp >= bp(next); led}; parse_led and the `not` arm recurse with the consumed token's own power (left associative)")
    pe = F.fn("parser::parse_expr")
    if not pe:
        rep.lost("ASSOC", "ASSOC/anchor", "function parser::parse_expr")
    else:
        body = pe.body
        params = [p["pat"] for p in pe.thir["params"]]
        rbp_id = params[1]["id"] if len(params) > 1 and params[1].get("k") == "Bind" else None
        breaks = []
        for n, path in walk_with_path(body):
            if n.get("k") == "If" and any(x.get("k") == "Break" for x in walk(n["then"])):
                c = n["cond"]
                if c.get("k") == "Binary":
                    breaks.append(n)
        ok = False
        detail = "no `if <cmp> { break }` in parse_expr"
        for n in breaks:
            c = n["cond"]
            l, r = q.resolve(body, c["lhs"]), q.resolve(body, c["rhs"])
            detail = show(c)
            if c["op"] == "Ge" and l.get("k") == "Var" and l.get("id") == rbp_id and call_is(r, "Token::binding_power"):
                ok = True
            elif c["op"] == "Le" and r.get("k") == "Var" and r.get("id") == rbp_id and call_is(l, "Token::binding_power"):
                ok = True
        if not ok:
            # the same test spelled as the loop's continue condition: `while it.peek().is_some_and(|next| rbp < next.binding_power())`
            MIRROR = {"Lt": "Gt", "Gt": "Lt", "Le": "Ge", "Ge": "Le"}
            for n, path in walk_with_path(body):
                if n.get("k") != "Binary" or n["op"] not in MIRROR:
                    continue
                l, r = q.resolve(body, n["lhs"]), q.resolve(body, n["rhs"])
                if l.get("k") in ("Var", "Upvar") and l.get("id") == rbp_id and call_is(r, "Token::binding_power"):
                    op = n["op"]
                elif r.get("k") in ("Var", "Upvar") and r.get("id") == rbp_id and call_is(l, "Token::binding_power"):
                    op = MIRROR[n["op"]]
                else:
                    continue
                detail = show(n)
                nots = sum(1 for p_ in path if p_.get("k") == "Unary" and p_.get("op") == "Not" and q.contains(p_, n))
                gov = [p_ for p_ in path if p_.get("k") == "If" and q.contains(p_["cond"], n)]
                if not gov:
                    continue
                g = gov[0]  # the outermost condition the comparison is part of
                leaves_then = any(x.get("k") == "Break" for x in walk(g["then"]))
                leaves_else = g.get("else") is not None and any(x.get("k") == "Break" for x in walk(g["else"]))
                # every other way the condition can be false must also leave (`None => false`): it is a conjunction / Some-arm of the test
                if leaves_else and not leaves_then and ((op == "Lt") != (nots % 2 == 1)) and (nots % 2 == 0 or op == "Ge"):
                    ok = True
                elif leaves_then and not leaves_else and ((op == "Ge") != (nots % 2 == 1)) and (nots % 2 == 0 or op == "Lt"):
                    ok = True
        rep.check(ok, "ASSOC", "ASSOC/break-test", pe.sp, "loop breaks iff right_binding_power >= next.binding_power()", detail)
        # skeleton: first statement binds parse_nud(it)?, loop body assigns left = parse_led(left, it)?
        stm = body.get("stmts", [])
        first = stm[0] if stm else None
        nud_first = bool(first and first.get("k") == "Let" and first.get("init") and any(call_is(x, "parser::parse_nud") for x in walk(first["init"])))
        rep.check(nud_first, "ASSOC", "ASSOC/nud-first", pe.sp, "parse_expr starts with parse_nud", show(first["init"]) if first and first.get("init") else "-")
        leds = [n for n in walk(body) if n.get("k") == "Assign" and any(call_is(x, "parser::parse_led") for x in walk(n["rhs"]))]
        ok = False
        for n in leds:
            call = [x for x in walk(n["rhs"]) if call_is(x, "parser::parse_led")][0]
            a0 = peel(call["args"][0])
            lhs = peel(n["lhs"])
            if a0.get("k") == "Var" and lhs.get("k") == "Var" and a0["id"] == lhs["id"]:
                ok = True
        rep.check(ok, "ASSOC", "ASSOC/led-accumulates", pe.sp, "loop body is left = parse_led(left, it)", "; ".join(show(n) for n in leds) or "no parse_led call")
        ret = body.get("expr")
        rep.check(bool(ret) and adt_is(peel(ret), "Result", "Ok") and peel(peel(ret)["fields"][0]["e"]).get("k") == "Var", "ASSOC", "ASSOC/returns-left", pe.sp, "parse_expr returns Ok(left)", show(ret) if ret else "-")
    for fname, what in (("parser::parse_led", "operator"), ("parser::parse_nud", "`not`")):
        f = F.fn(fname)
        if not f:
            rep.lost("ASSOC", "ASSOC/anchor/" + fname, "function " + fname)
            continue
        calls = [n for n in walk(f.body) if call_is(n, "parser::parse_expr")]
        if not calls:
            rep.lost("ASSOC", "ASSOC/recursion/" + fname, "a recursive parse_expr call in " + fname)
        for c in calls:
            a1 = peel(c["args"][1])
            # must be exactly t.binding_power() of the token just consumed (a bound variable), no arithmetic
            ok = call_is(a1, "Token::binding_power") and peel(a1["args"][0]).get("k") == "Var"
            rep.check(ok, "ASSOC", "ASSOC/recursion-power/" + fname.split("::")[-1], c["sp"], "%s recursion uses the consumed token's own binding power (no +-1)" % what, show(c))
    # the node parse_led builds is (left operand, the consumed operator, right operand) in written order
    pl = F.fn("parser::parse_led")
    if pl is not None:
        ctors = [n for n in walk(pl.body) if n.get("k") == "Adt" and n["adt"] == "parser::Expression" and n["variant"] == "BooleanExpression"]
        okl = False
        det = "%d constructors" % len(ctors)
        if len(ctors) == 1:
            fs = {f["name"]: f["e"] for f in ctors[0]["fields"]}

            def boxed(e):
                e = peel(e)
                return peel(e["args"][0]) if e.get("k") == "Call" and (e.get("fn") or "").endswith("Box::<T>::new") else None

            def src(e):
                """follow `let x = y;` chains back to the defining expression"""
                e = peel(e) if e is not None else {}
                for _ in range(4):
                    if e.get("k") == "Var":
                        init = q.let_init(pl.body, e["id"])
                        if init is None:
                            return e
                        e = peel(init)
                    else:
                        break
                return e
            l, r, sy = src(boxed(fs["0"])), src(boxed(fs["2"])), src(fs["1"])
            lparam = strip_ref(pl.thir["params"][0]["pat"]).get("id")
            okleft = l.get("k") == "Var" and l["id"] == lparam
            rr = r["arg"] if r.get("k") == "Try" else r
            okright = call_is(peel(rr), "parser::parse_expr")
            # the symbol comes out of the consumed Token::Operator
            oksym = False
            sid = sy["id"] if sy.get("k") == "Var" else q.base_var(sy)
            for pat in q.all_patterns(pl.body):
                for alt in or_pats(pat):
                    for pp in q._walk_pat(alt):
                        v = variant_of(pp)
                        if v and v[1] == "Operator" and any(b[1] == sid for b in facts.pat_binds(pp)):
                            oksym = True
            okl = okleft and okright and oksym
            det = "left=%s right=%s symbol=%s" % (show(l)[:30], show(r)[:40], show(sy)[:20])
        rep.check(okl, "ASSOC", "ASSOC/led-operand-order", pl.sp, "parse_led builds (left operand, consumed operator, parse_expr(..) result) in that order, with no swap", det)
    # `not` applies to the single operand that follows it: every successful result of the `not` arm is Negate(<that operand>)
    pn = F.fn("parser::parse_nud")
    if pn is not None:
        arms = []
        for n in walk(pn.body):
            if n.get("k") == "Match":
                for a in n["arms"]:
                    if any(variant_of(p_) == ("MiscSym", "Not") for p_ in or_pats(a["pat"])):
                        arms.append(a)
        okn = False
        det = "%d arms for MiscSym::Not" % len(arms)
        if len(arms) == 1:
            body = arms[0]["body"]
            oks = [x for x in walk(body) if x.get("k") == "Adt" and x["adt"].endswith("result::Result") and x["variant"] == "Ok"]
            pcalls = [x for x in walk(body) if call_is(x, "parser::parse_expr")]
            good = 0
            for o in oks:
                pay = peel(o["fields"][0]["e"])
                if pay.get("k") == "Adt" and pay["adt"] == "parser::Expression" and pay["variant"] == "Negate":
                    inner = peel(pay["fields"][0]["e"])
                    inner = peel(inner["args"][0]) if inner.get("k") == "Call" and (inner.get("fn") or "").endswith("Box::<T>::new") else {}
                    src = q.resolve(body, inner) if inner.get("k") == "Var" else inner
                    src = src["arg"] if isinstance(src, dict) and src.get("k") == "Try" else src
                    if len(pcalls) == 1 and peel(src) is pcalls[0]:
                        good += 1
            okn = bool(oks) and good == len(oks) and len(pcalls) == 1
            det = "%d Ok results, %d of them Negate(parse_expr(..))" % (len(oks), good)
        rep.check(okn, "ASSOC", "ASSOC/not-builds-negate", pn.sp, "every successful result of the `not` arm is Negate(the operand parsed after it): no folding, no unwrapping", det)
    rep.floor("ASSOC", 8)

    # ---------------------------------------------------------------- PAREN
    rep.describe("PAREN", "the `(` arm collects tokens to the matching `)` with a depth counter and returns parse(&inner) unchanged; parser::parse rejects trailing tokens")
    nud = F.fn("parser::parse_nud")
    if nud:
        arm = None
        for n in walk(nud.body):
            if n.get("k") == "Match":
                for a in n["arms"]:
                    if variant_of(a["pat"]) == ("DelSym", "LeftParenthesis"):
                        arm = a
        if not arm:
            rep.lost("PAREN", "PAREN/anchor", "the DelSym::LeftParenthesis arm of parse_nud")
        else:
            b = arm["body"]
            site = arm["sp"]
            lets = [s for s in b.get("stmts", []) if s.get("k") == "Let"]
            depth = [s for s in lets if lit(s.get("init")) == ("i", 1)]
            rep.check(len(depth) == 1, "PAREN", "PAREN/depth-init", site, "depth counter starts at 1", "; ".join(pat_str(s["pat"]) + "=" + show(s["init"]) for s in lets))
            did = depth[0]["pat"]["id"] if depth and depth[0]["pat"].get("k") == "Bind" else None
            fors = [n for n in walk(b) if n.get("k") == "For"]
            rep.check(len(fors) == 1, "PAREN", "PAREN/one-loop", site, "exactly one collection loop", str(len(fors)))
            if fors and did is not None:
                fl = fors[0]
                incs, decs, brk, push = [], [], [], []
                for n, path in walk_with_path(fl["body"]):
                    conds = [show(p["cond"]) for p in path if p.get("k") == "If" and any(x is n for x in walk(p["then"]))]
                    if n.get("k") == "AssignOp" and peel(n["lhs"]).get("id") == did:
                        (incs if n["op"] == "AddAssign" else decs).append((n, conds))
                    if n.get("k") == "Break":
                        brk.append((n, conds))
                    if call_is(n, "::push"):
                        push.append((n, conds, path))
                okinc = len(incs) == 1 and lit(incs[0][0]["rhs"]) == ("i", 1) and any("LeftParenthesis" in c for c in incs[0][1]) and not any("RightParenthesis" in c for c in incs[0][1])
                rep.check(okinc, "PAREN", "PAREN/inc-on-left", site, "depth += 1 exactly under `t == LeftParenthesis`", str([(show(n), c) for n, c in incs]))
                okdec = len(decs) == 1 and decs[0][0]["op"] == "SubAssign" and lit(decs[0][0]["rhs"]) == ("i", 1) and any("RightParenthesis" in c for c in decs[0][1])
                rep.check(okdec, "PAREN", "PAREN/dec-on-right", site, "depth -= 1 exactly under `t == RightParenthesis`", str([(show(n), c) for n, c in decs]))
                okb = len(brk) == 1 and any(("depth Eq 0" in c) for c in brk[0][1]) and any("RightParenthesis" in c for c in brk[0][1])
                rep.check(okb, "PAREN", "PAREN/break-at-zero", site, "the loop stops when depth returns to 0 on a `)`", str([c for _, c in brk]))
                okp = len(push) == 1 and not push[0][1]
                rep.check(okp, "PAREN", "PAREN/push-unconditional", site, "every other token is collected (push is the unconditional tail of the loop body)", str([(show(n), c) for n, c, _ in push]))
            tail = b.get("expr")
            okt = bool(tail) and call_is(peel(tail), "parser::parse")
            rep.check(okt, "PAREN", "PAREN/returns-subparse", site, "the arm's value is parse(&tokens) itself (no wrapper node)", show(tail) if tail else "-")
    else:
        rep.lost("PAREN", "PAREN/anchor", "function parser::parse_nud")
    pp = F.fn("parser::parse")
    if pp:
        found = False
        for n in walk(pp.body):
            if n.get("k") == "If" and "is_some" in show(n["cond"]) and "peek" in show(n["cond"]):
                rets = [x for x in walk(n["then"]) if x.get("k") == "Return" and x.get("value") and adt_is(peel(x["value"]), "Result", "Err")]
                if rets:
                    found = True
        # and it must come before the Ok(expression)
        rep.check(found, "PAREN", "PAREN/trailing-tokens", pp.sp, "parser::parse returns Err when tokens remain after parse_expr", "")
        first = pp.body["stmts"][1] if len(pp.body.get("stmts", [])) > 1 else None
        okz = False
        for n in walk(pp.body):
            if call_is(n, "parser::parse_expr"):
                okz = lit(n["args"][1]) == ("i", 0)
        rep.check(okz, "PAREN", "PAREN/top-power-0", pp.sp, "the top-level parse starts with right binding power 0", "")
    else:
        rep.lost("PAREN", "PAREN/anchor2", "function parser::parse")
    rep.floor("PAREN", 9)

    # ---------------------------------------------------------------- T-NUD
    rep.describe("T-NUD", "every Ok result of parse_nud is the node its leading token stands for: atom -> atom, int/flt/str/not( -> Cast with that modifier, `not ` -> Negate, all( -> Match(All, Identifier), of( -> Match(Of(n), Identifier)")
    pn_ = F.fn("parser::parse_nud")
    if pn_ is None:
        rep.lost("T-NUD", "T-NUD/anchor", "parser::parse_nud")
    else:
        NUD = {("Float",): "Float", ("Identifier",): "Identifier", ("Integer",): "Integer", ("Miscellaneous", "Not"): "Negate",
               ("Modifier", "Flt"): "Cast", ("Modifier", "Int"): "Cast", ("Modifier", "Not"): "Cast", ("Modifier", "Str"): "Cast",
               ("Match", "All"): "Match", ("Match", "Of"): "Match"}
        seen_nud = {}
        for leaf, path in q.result_leaves(pn_.body):
            l = peel(leaf)
            if not adt_is(l, "Result", "Ok"):
                continue
            kinds = []
            for e in q.context(path, leaf):
                if e[0] == "arm":
                    for alt in or_pats(e[1]):
                        v = variant_of(alt)
                        if v and v[0] in ("Token", "ModSym", "MiscSym", "MatchSym"):
                            kinds.append(v[1])
            tk_ = tuple(kinds[:2])
            if kinds[:1] == ["Modifier"] and len([k_ for k_ in kinds[1:] if k_ in ("Flt", "Int", "Not", "Str")]) != 1:
                # the four cast arms merged into one (`Token::Modifier(m) => .. Cast(s, m)`): the cast symbol is the token's own symbol
                val = peel(l["fields"][0]["e"])
                mods = set()
                for e in q.context(path, leaf):
                    if e[0] == "arm":
                        for alt in or_pats(e[1]):
                            if variant_of(alt) and variant_of(alt)[0] == "Token" and variant_of(alt)[1] == "Modifier":
                                mods |= {b[1] for b in facts.pat_binds(alt)}
                def _is_token_symbol(e_):
                    for _ in range(6):
                        e_ = peel(e_)
                        while e_.get("k") == "Call" and (e_.get("fn") or "").endswith(("Clone::clone", "ToOwned::to_owned", "Deref::deref")) and len(e_["args"]) == 1:
                            e_ = peel(e_["args"][0])
                        if e_.get("k") not in ("Var", "Upvar"):
                            return False
                        if mods & q.alias_sources(pn_.body, e_["id"]):
                            return True
                        init_ = q.let_init(pn_.body, e_["id"])
                        if init_ is None:
                            return False
                        e_ = init_
                    return False
                okm = val.get("k") == "Adt" and val.get("variant") == "Cast" and len(val["fields"]) == 2 and _is_token_symbol(val["fields"][1]["e"])
                for kd in ("Flt", "Int", "Not", "Str"):
                    n_k = seen_nud.get(("Modifier", kd), 0)
                    seen_nud[("Modifier", kd)] = n_k + 1
                    rep.check(okm, "T-NUD", "T-NUD/Modifier-%s#%d" % (kd, n_k), l["sp"], "a modifier token yields Expression::Cast with that same modifier", show(val)[:100])
                continue
            if tk_ not in NUD:
                rep.bad("T-NUD", "T-NUD/unexpected/%s" % "-".join(tk_), l["sp"], "parse_nud answers Ok only for the ten token kinds that can start an expression", show(l)[:80])
                continue
            val = peel(l["fields"][0]["e"])
            if val.get("k") == "Var":
                r_ = q.resolve(pn_.body, val)
                val = peel(r_) if r_ is not None else val
            okv = val.get("k") == "Adt" and val.get("adt") == "parser::Expression" and val.get("variant") == NUD[tk_]
            det = show(val)[:100]
            if okv and NUD[tk_] == "Cast":
                okv = show(val["fields"][1]["e"]) == "ModSym::" + tk_[1]
            if okv and NUD[tk_] == "Match":
                m0 = peel(val["fields"][0]["e"])
                inner = peel(val["fields"][1]["e"])
                inner = peel(inner["args"][0]) if inner.get("k") == "Call" and (inner.get("fn") or "").endswith("Box::<T>::new") else inner
                if inner.get("k") == "Var":
                    r_ = q.resolve(pn_.body, inner)
                    inner = peel(r_) if r_ is not None else inner
                def _is_ident(x):
                    x = unblock(x)
                    if x.get("k") == "Adt":
                        return x.get("variant") == "Identifier" and x.get("adt") == "parser::Expression"
                    if x.get("k") in ("Match", "If", "Block"):
                        vals = [unblock(lf) for lf, pth in q.result_leaves(x) if not any(p_.get("k") == "Return" for p_ in pth)]
                        vals = [v_ for v_ in vals if v_.get("k") != "Return"]
                        return bool(vals) and all(v_.get("k") == "Adt" and v_.get("variant") == "Identifier" and v_.get("adt") == "parser::Expression" for v_ in vals)
                    return False
                okv = m0.get("k") == "Adt" and m0.get("variant") == tk_[1] and _is_ident(inner)
            n_k = seen_nud.get(tk_, 0)
            seen_nud[tk_] = n_k + 1
            rep.check(okv, "T-NUD", "T-NUD/%s#%d" % ("-".join(tk_), n_k), l["sp"], "the %s token yields Expression::%s" % ("/".join(tk_), NUD[tk_]), det)
        for tk_ in NUD:
            if tk_ not in seen_nud:
                rep.bad("T-NUD", "T-NUD/missing/%s" % "-".join(tk_), pn_.sp, "the %s token has an Ok result" % "/".join(tk_), "none found")
    rep.floor("T-NUD", 10)

    # ---------------------------------------------------------------- T-KEYWORD
    rep.describe("T-KEYWORD", "each match_ahead literal maps to the specified token, ends in ' ' or '(', and the following it.nth(k) leaves exactly that last character unread (k == len-2); whitespace arm pushes nothing")
    tk = F.fn("<std::string::String as tokeniser::Tokeniser>::tokenise")
    if not tk:
        rep.lost("T-KEYWORD", "T-KEYWORD/anchor", "String::tokenise")
    else:
        seen = {}
        for n in walk(tk.body):
            if n.get("k") == "If" and call_is(peel(n["cond"]), "tokeniser::match_ahead"):
                l = lit(n["cond"]["args"][1])
                if not l or l[0] != "s":
                    rep.lost("T-KEYWORD", "T-KEYWORD/literal", "match_ahead is called with a string literal", show(n["cond"]))
                    continue
                word = l[1]
                pushes = [x for x in walk(n["then"]) if call_is(x, "::push")]
                nths = [x for x in walk(n["then"]) if call_is(x, "Iterator::nth")]
                tokv = None
                if len(pushes) == 1:
                    a = peel(pushes[0]["args"][1])
                    if a.get("k") == "Adt" and a["fields"]:
                        inner = peel(a["fields"][0]["e"])
                        if inner.get("k") == "Adt":
                            tokv = (a["variant"], inner["adt"].split("::")[-1] + "::" + inner["variant"])
                seen[word] = tokv
                site = n["cond"]["sp"]
                spec = SPEC_KEYWORDS.get(word)
                rep.check(spec is not None and tokv == spec, "T-KEYWORD", "T-KEYWORD/token/" + word, site, "literal %r produces %s" % (word, spec), "got %s" % (tokv,))
                rep.check(word[-1:] in (" ", "("), "T-KEYWORD", "T-KEYWORD/delimited/" + word, site, "keyword literal ends in a space or '(' so that longer words stay identifiers", repr(word))
                k = lit(nths[0]["args"][1])[1] if len(nths) == 1 and lit(nths[0]["args"][1]) else None
                rep.check(k is not None and k == len(word) - 2, "T-KEYWORD", "T-KEYWORD/skip/" + word, site, "it.nth(k) consumes the keyword but not its final delimiter (k == len-2)", "k=%s len=%d" % (k, len(word)))
        # table-driven form: `if let Some((word, token)) = TABLE.iter().find(|(word, _)| match_ahead(it, word)) { push(token.clone()); it.nth(word.len() - 2) }`
        for row in keyword_table(F, tk):
            word, a, site, formula_ok = row
            tokv = None
            if a.get("k") == "Adt" and a["fields"]:
                inner = peel(a["fields"][0]["e"])
                if inner.get("k") == "Adt":
                    tokv = (a["variant"], inner["adt"].split("::")[-1] + "::" + inner["variant"])
            seen[word] = tokv
            spec = SPEC_KEYWORDS.get(word)
            rep.check(spec is not None and tokv == spec, "T-KEYWORD", "T-KEYWORD/token/" + word, site, "table row %r produces %s" % (word, spec), "got %s" % (tokv,))
            rep.check(word[-1:] in (" ", "("), "T-KEYWORD", "T-KEYWORD/delimited/" + word, site, "keyword literal ends in a space or '(' so that longer words stay identifiers", repr(word))
            rep.check(formula_ok and len(word) >= 2, "T-KEYWORD", "T-KEYWORD/skip/" + word, site, "it.nth(word.len() - 2) consumes the keyword but not its final delimiter", "formula %s len=%d" % (formula_ok, len(word)))
        for w in SPEC_KEYWORDS:
            if w not in seen:
                rep.bad("T-KEYWORD", "T-KEYWORD/missing/" + w, tk.sp, "keyword %r is recognised" % w, "no match_ahead for it")
        # order: "string(" before "str(" is irrelevant (no literal is a prefix of another with different token) - check prefix-freeness
        for a, b in itertools.permutations(seen, 2):
            if b.startswith(a) and seen[a] != seen[b]:
                rep.bad("T-KEYWORD", "T-KEYWORD/prefix/%s<%s" % (a, b), tk.sp, "no keyword literal is a proper prefix of another with a different token", "")
        # whitespace arm
        ws = None
        for n in walk(tk.body):
            if n.get("k") == "Match":
                for a in n["arms"]:
                    if any(strip_ref(p).get("k") == "Const" and strip_ref(p).get("v") in ("' '",) for p in or_pats(a["pat"])):
                        ws = a
        if ws is None:
            rep.lost("T-KEYWORD", "T-KEYWORD/whitespace-arm", "the whitespace arm of tokenise")
        else:
            pushes = [x for x in walk(ws["body"]) if call_is(x, "::push")]
            nexts = [x for x in walk(ws["body"]) if call_is(x, "Iterator::next")]
            rep.check(not pushes and len(nexts) == 1, "T-KEYWORD", "T-KEYWORD/whitespace", ws["sp"], "whitespace consumes one char and produces no token", show(ws["body"]))
    ma = F.fn("tokeniser::match_ahead")
    if not ma:
        rep.lost("MATCH-AHEAD", "MATCH-AHEAD/anchor", "tokeniser::match_ahead")
    else:
        rep.describe("MATCH-AHEAD", "match_ahead compares a clone of the iterator with every char of the literal: mismatch or end of input => false, else true")
        b = ma.body
        site = ma.sp
        clone = any(s.get("k") == "Let" and s.get("init") and call_is(peel(s["init"]), "Clone::clone") for s in b.get("stmts", []))
        rep.check(clone, "MATCH-AHEAD", "MATCH-AHEAD/clone", site, "look-ahead works on a clone (the real iterator is not advanced)", "")
        fors = [n for n in walk(b) if n.get("k") == "For"]
        ok = False
        det = ""
        if len(fors) == 1 and call_is(peel(fors[0]["iter"]), "::chars"):
            fl = fors[0]
            vid = fl["pat"].get("id")
            ms = [n for n in walk(fl["body"]) if n.get("k") == "Match" and call_is(peel(n["scrut"]), "Iterator::next")]
            if len(ms) == 1:
                m = ms[0]

                def outcome(case):
                    """first arm taken for next() = None / Some(c) with c == v / Some(c) with c != v -> 'false' | 'continue' | '?'"""
                    for a in m["arms"]:
                        for p in or_pats(a["pat"]):
                            v = variant_of(p)
                            if strip_ref(p).get("k") == "Wild":
                                hit, cid = True, None
                            elif v == ("Option", "None"):
                                hit, cid = case == "none", None
                            elif v == ("Option", "Some"):
                                sub = strip_ref(subpat(p, 0))
                                if sub.get("k") not in ("Bind", "Wild"):
                                    return "?"
                                hit, cid = case != "none", sub.get("id")
                            else:
                                return "?"
                            if not hit:
                                continue
                            g = a.get("guard")
                            if g is not None:
                                g = peel(g)
                                if case == "none" or g.get("k") != "Binary" or g["op"] not in ("Eq", "Ne") or {peel(g["lhs"]).get("id"), peel(g["rhs"]).get("id")} != {vid, cid}:
                                    return "?"
                                if (g["op"] == "Eq") != (case == "eq"):
                                    continue
                            body = peel(a["body"])
                            if body.get("k") == "Block" and not body["stmts"] and body.get("expr"):
                                body = peel(body["expr"])
                            if body.get("k") == "Return" and lit(body.get("value")) == ("bool", False):
                                return "false"
                            if not any(x.get("k") in ("Return", "Break", "Continue") for x in walk(a["body"])):
                                return "continue"
                            return "?"
                    return "?"
                got = {c: outcome(c) for c in ("none", "eq", "ne")}
                ok = got == {"none": "false", "eq": "continue", "ne": "false"}
                det = str(got) + " " + show(m)
            elif not ms:
                # comparison form: `if !(p.next() == Some(v)) { <answer false> }` (e.g. the flag loop of `.all(..)`)
                t0 = b.get("expr")
                while t0 is not None and peel(t0).get("k") == "Block" and peel(t0).get("expr") is not None:
                    t0 = peel(t0)["expr"]
                tailv = q.var_id(t0) if t0 is not None else None

                def truth(e, case):
                    e = peel(e)
                    if e.get("k") == "Unary" and e["op"] == "Not":
                        t_ = truth(e["arg"], case)
                        return None if t_ is None else not t_
                    ops = None
                    if e.get("k") == "Binary" and e["op"] in ("Eq", "Ne"):
                        ops = (peel(e["lhs"]), peel(e["rhs"]), e["op"] == "Eq")
                    elif call_is(e, "PartialEq::eq") or call_is(e, "PartialEq::ne"):
                        ops = (peel(e["args"][0]), peel(e["args"][1]), call_is(e, "PartialEq::eq"))
                    if ops is None:
                        return None
                    a_, b_, is_eq = ops
                    if call_is(b_, "Iterator::next"):
                        a_, b_ = b_, a_
                    if not call_is(a_, "Iterator::next"):
                        return None
                    if b_.get("k") == "Adt" and b_.get("variant") == "Some" and q.var_id(b_["fields"][0]["e"]) == vid:
                        same = case == "eq"
                    elif b_.get("k") == "Adt" and b_.get("variant") == "None":
                        same = case == "none"
                    else:
                        return None
                    return same if is_eq else not same
                ifs = [n for n in walk(fl["body"]) if n.get("k") == "If" and not n.get("exp")]
                nexts = [n for n in walk(fl["body"]) if call_is(n, "Iterator::next")]
                got = {}
                if len(ifs) == 1 and len(nexts) == 1 and not ifs[0].get("else"):
                    th = ifs[0]["then"]
                    says_false = q.returns_sr(th, "False") or any(x.get("k") == "Return" and lit(x.get("value")) == ("bool", False) for x in walk(th)) or \
                        (any(x.get("k") == "Assign" and q.var_id(x["lhs"]) == tailv and lit(x["rhs"]) == ("bool", False) for x in walk(th)) and any(x.get("k") == "Break" for x in walk(th)))
                    for c in ("none", "eq", "ne"):
                        t_ = truth(ifs[0]["cond"], c)
                        got[c] = "?" if t_ is None or not says_false else ("false" if t_ else "continue")
                ok = got == {"none": "false", "eq": "continue", "ne": "false"}
                det = str(got) + " " + show(fl)[:120]
        rep.check(ok, "MATCH-AHEAD", "MATCH-AHEAD/loop", site, "for v in literal.chars(): next()==Some(c) with v != c => false; None => false; otherwise continue", det)
        tail_ = b.get("expr")
        while tail_ is not None and peel(tail_).get("k") == "Block" and peel(tail_).get("expr") is not None:
            tail_ = peel(tail_)["expr"]
        oktrue = lit(tail_) == ("bool", True) or (tail_ is not None and q.var_id(tail_) is not None and lit(q.let_init(b, q.var_id(tail_))) == ("bool", True) and
                                                    all(lit(x["rhs"]) == ("bool", False) for x in walk(b) if x.get("k") == "Assign" and q.var_id(x["lhs"]) == q.var_id(tail_)))
        rep.check(oktrue, "MATCH-AHEAD", "MATCH-AHEAD/true", site, "falls through to true", show(b.get("expr")) if b.get("expr") else "-")
    # "redundant parentheses never change a verdict": a parenthesised and/or chain is a binary tree where the flat one is a group, so
    # the binary and the group form of each connective have to agree (evaluated on the extracted solver model, shared with C06)
    import core
    core.import_rules(rep, "c06", {"TRI-NOT", "TRI-AND", "TRI-OR"})
    # the token grammar as a whole: tokenise evaluated over the probe conditions (keywords with and without their terminating character,
    # words that merely begin with keyword letters, numbers, operators, delimiters, white space, characters outside the alphabet)
    import core as _core
    import tokmodel
    rep.describe("TOK-MODEL", "tokenise evaluated over %d probe conditions yields the documented token vector (or error)" % len(tokmodel.PROBES))
    trows, tun = tokmodel.evaluate(F)
    if trows is None:
        rep.note("tokeniser model not applicable (%s); structural rules decide" % tun)
    else:
        for text, want, got, agree in trows:
            rep.check(agree, "TOK-MODEL", "TOK-MODEL/%s" % (text if text.strip() else repr(text)), "src/tokeniser.rs", "condition %r is tokenised as documented" % text,
                      None if agree else "expected %s, the body yields %s" % (str(want)[:160], str(got)[:160]))
    if not _core.model_decides(rep, trows is not None and all(r[3] for r in trows), {"T-KEYWORD"}, "keyword recognition decided by the tokeniser model"):
        rep.floor("T-KEYWORD", 31)
    else:
        rep.floor("TOK-MODEL", 140)
    rep.floor("MATCH-AHEAD", 3)
    rep.exhaustive = True
    rep.assumptions.append("the Pratt skeleton recognised (nud; loop{peek; break-test; led}) is the textbook one: its parameters then fix precedence and associativity")
    rep.assumptions.append("the tokeniser evaluation covers 144 probe conditions: agreement with the token grammar is established on these probes only; T-KEYWORD and the char-class rules decide the shapes they recognise")
