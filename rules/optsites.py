"""Where Rule::optimise applies a pass to the identifier definitions.

A site is an assignment `self.detection.identifiers = <map over the old map>`; recognised forms of the right-hand side (after
helper inlining):
    OLD.into_iter().map(|(k, v)| (k, PASS(v))).collect()
    { let ids = OLD; let pass = PASS; ids.into_iter().map(|(k, v)| (k, pass(v))).collect() }      (an extracted higher-order helper)
Each site reports the pass applied, whether the key component is passed through unchanged, and its ancestor path."""
import q
from facts import walk, walk_with_path, peel, call_is, unblock, strip_ref
from show import show


def _is_identifiers_field(n, lets):
    n = peel(n)
    for _ in range(4):
        if n.get("k") == "Var" and n["id"] in lets:
            n = peel(lets[n["id"]])
        else:
            break
    return n.get("k") == "Field" and str(show(n)).endswith("detection.identifiers")


def sites(F):
    ro = F.fn("rule::Rule::optimise")
    out = []
    if ro is None:
        return None
    for n, path in walk_with_path(ro.body):
        if n.get("k") != "Assign" or not str(show(n["lhs"])).endswith("detection.identifiers"):
            continue
        site = {"node": n, "path": path, "sp": n.get("sp"), "pass": None, "keys_kept": False, "detail": show(n["rhs"])[:120]}
        out.append(site)
        rhs = unblock(n["rhs"])
        lets = {}
        while rhs.get("k") == "Block":
            for s in rhs["stmts"]:
                if s["k"] == "Let" and strip_ref(s["pat"]).get("k") == "Bind" and s.get("init") is not None:
                    lets[strip_ref(s["pat"])["id"]] = s["init"]
            if rhs.get("expr") is None:
                break
            rhs = unblock(rhs["expr"])
        if not call_is(rhs, "Iterator::collect"):
            continue
        m = peel(rhs["args"][0])
        if not (call_is(m, "Iterator::map") and call_is(peel(m["args"][0]), "IntoIterator::into_iter") and _is_identifiers_field(peel(m["args"][0])["args"][0], lets)):
            continue
        clo_n = peel(m["args"][1])
        if clo_n.get("k") == "Zst":
            continue
        clo = F.fns.get(clo_n.get("def")) if clo_n.get("k") == "Closure" else None
        if clo is None or clo.thir is None:
            continue
        ps = [strip_ref(p["pat"]) for p in clo.thir["params"] if p.get("pat") is not None]
        if len(ps) != 1 or ps[0].get("k") != "Leaf" or len(ps[0]["sub"]) != 2:
            continue
        kb, vb = strip_ref(ps[0]["sub"][0]["p"]), strip_ref(ps[0]["sub"][1]["p"])
        body = unblock(clo.body)
        if body.get("k") != "Tuple" or len(body["fields"]) != 2 or kb.get("k") != "Bind" or vb.get("k") != "Bind":
            continue
        site["keys_kept"] = q.var_id(body["fields"][0]) == kb["id"]
        c = peel(body["fields"][1])
        if c.get("k") != "Call":
            continue
        fn = c.get("fn") or ""
        if c.get("local") and len(c["args"]) == 1 and q.var_id(c["args"][0]) == vb["id"]:
            site["pass"] = fn
        elif fn.endswith(("Fn::call", "FnMut::call_mut", "FnOnce::call_once")) and len(c["args"]) == 2:
            up = peel(c["args"][0])
            tup = peel(c["args"][1])
            if up.get("k") in ("Upvar", "Var") and tup.get("k") == "Tuple" and len(tup["fields"]) == 1 and q.var_id(tup["fields"][0]) == vb["id"]:
                for lid, init in lets.items():
                    if lid % 1000000 == up["id"] and peel(init).get("k") == "Zst" and peel(init).get("fn"):
                        site["pass"] = peel(init)["fn"]
    return out
