"""CFGDIFF: function-by-function comparison of two configurations' typed trees (nothing is run)."""
import hashlib
import json
import re

_CLOSURE = re.compile(r"\{closure@[^}]*\}")


def _strip(n):
    if isinstance(n, dict):
        return {k: _strip(v) for k, v in n.items() if k not in ("sp", "id")}
    if isinstance(n, list):
        return [_strip(x) for x in n]
    if isinstance(n, str):
        return _CLOSURE.sub("{closure}", n)
    return n


def fingerprint(fn):
    if fn.thir is None:
        return None
    body = {"params": fn.thir["params"], "body": fn.thir["body"]}
    return hashlib.sha256(json.dumps(_strip(body), sort_keys=True).encode()).hexdigest()


def diff(FA, FB, ignore=()):
    a = {n: f for n, f in FA.fns.items() if f.thir is not None}
    b = {n: f for n, f in FB.fns.items() if f.thir is not None}
    only_a = sorted(set(a) - set(b))
    only_b = sorted(set(b) - set(a))
    changed = []
    common = 0
    for n in sorted(set(a) & set(b)):
        common += 1
        if fingerprint(a[n]) != fingerprint(b[n]):
            changed.append(n)
    return {"only_a": only_a, "only_b": only_b, "changed": changed, "common": common}


def leaf_diffs(a, b, path=""):
    """Leaf-level differences between two JSON trees, ignoring spans and ids."""
    out = []
    if isinstance(a, dict) and isinstance(b, dict):
        for k in sorted(set(a) | set(b)):
            if k in ("sp", "id"):
                continue
            if k not in a or k not in b:
                out.append((path + "/" + k, a.get(k), b.get(k)))
            else:
                out.extend(leaf_diffs(a[k], b[k], path + "/" + k))
    elif isinstance(a, list) and isinstance(b, list):
        if len(a) != len(b):
            out.append((path + "/len", len(a), len(b)))
        for i, (x, y) in enumerate(zip(a, b)):
            out.extend(leaf_diffs(x, y, path + "/%d" % i))
    else:
        x = _CLOSURE.sub("{closure}", a) if isinstance(a, str) else a
        y = _CLOSURE.sub("{closure}", b) if isinstance(b, str) else b
        if x != y:
            out.append((path, a, b))
    return out


def node_at(tree, path):
    cur = tree
    for p in [x for x in path.split("/") if x]:
        cur = cur[int(p)] if isinstance(cur, list) else cur[p]
    return cur
