"""CFGDIFF: function-by-function comparison of two configurations' typed trees (nothing is run)."""
import hashlib
import json
import re

_CLOSURE = re.compile(r"\{closure@[^}]*\}")


def _strip(n):
    if isinstance(n, dict):
        return {k: _strip(v) for k, v in n.items() if k not in ("sp", "id")}
    if isinstance(n, list):
        return [_strip(x) for x in n]
    if isinstance(n, str):
        return _CLOSURE.sub("{closure}", n)
    return n


def fingerprint(fn):
    if fn.thir is None:
        return None
    body = {"params": fn.thir["params"], "body": fn.thir["body"]}
    return hashlib.sha256(json.dumps(_strip(body), sort_keys=True).encode()).hexdigest()


def diff(FA, FB, ignore=()):
    a = {n: f for n, f in FA.fns.items() if f.thir is not None}
    b = {n: f for n, f in FB.fns.items() if f.thir is not None}
    only_a = sorted(set(a) - set(b))
    only_b = sorted(set(b) - set(a))
    changed = []
    common = 0
    for n in sorted(set(a) & set(b)):
        common += 1
        if fingerprint(a[n]) != fingerprint(b[n]):
            changed.append(n)
    return {"only_a": only_a, "only_b": only_b, "changed": changed, "common": common}
