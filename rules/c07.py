"""C07 String predicates: dispatch and filter tables, needle/context alignment, case flags.

T-SEARCH     Search::X -> the string operation of X, needle and haystack in the right positions
T-OFFSET     MatchType -> offset filter, identical in search() and both halves of slow_aho()
AHO-OVERLAP  every automaton scan uses find_overlapping_iter and no builder sets a match kind (all overlapping hits are seen)
LOCKSTEP     needles and their MatchType context are pushed in lockstep with the same text, the right kind, into the bucket of the right case class
FLAG         a Search's stored case flag equals the flag its matcher was built with
PLAIN-CASE   the plain (case-sensitive) Search::{Contains,EndsWith,Exact,StartsWith} are only built where the ignore-case flag is false
LOWERCASE    insensitive needles are folded with the ASCII folding the automaton uses (or not at all)
T-PATTERN    pattern syntax -> Pattern variant (decision list of into_identifier) and the ordering constraints between the tests
"""
import re

import facts
import q
from facts import walk, walk_with_path, peel, call_is, unblock, variant_of, strip_ref, subpat, pat_str, lit, or_pats
from show import show, show_fn

FILTERS = {
    "Contains": None,
    "EndsWith": "(Match::end(i) Eq <impl str>::len(value))",
    "Exact": "((Match::start(i) Eq 0) && (Match::end(i) Eq <impl str>::len(value)))",
    "StartsWith": "(Match::start(i) Eq 0)",
}


def count_halves(sa):
    """slow_aho(a, m, value) = number of distinct pattern ids among the filtered overlapping hits:
         if m.len() < 64 { map |= 1 << hit.pattern().as_u64() for every counted hit; popcount of bits 0..m.len() }
         else            { set.insert(hit.pattern()) for every counted hit; set.len() }
    (which hits are counted is T-OFFSET's business; here: what is recorded and how it is summed)  -> (ok, detail)"""
    params = [p_["pat"] for p_ in sa.thir["params"] if p_.get("pat")]
    body = q.inline_pure_lets(sa.body, params)
    mid = strip_ref(params[1]).get("id")
    tops = [n for n in walk(body) if n.get("k") == "If" and n.get("else") is not None and peel(n["cond"]).get("k") == "Binary" and peel(n["cond"])["op"] == "Lt" and lit(peel(n["cond"])["rhs"]) == ("i", 64)]
    if len(tops) != 1:
        return False, "no single `if len < 64 {..} else {..}`"
    top = tops[0]
    l = peel(peel(top["cond"])["lhs"])
    if not (call_is(l, "::len") and q.base_var(l["args"][0]) == mid):
        return False, "the 64 test is not on the kind vector's length"

    def scan(part):
        loops = [n for n in walk(part) if n.get("k") == "For" and call_is(peel(n["iter"]), "find_overlapping_iter")]
        return loops[0] if len(loops) == 1 else None

    def is_pattern_of(e, loop):
        e = peel(e)
        return call_is(e, "Match::pattern") and q.var_id(e["args"][0]) == strip_ref(loop["pat"]).get("id")
    # ---- bitmap half
    lt = scan(top["then"])
    if lt is None:
        return False, "bitmap half: no scan loop"
    ors = [n for n in walk(lt["body"]) if n.get("k") == "AssignOp" and n["op"] == "BitOrAssign"]
    if not ors:
        return False, "bitmap half: no `map |= ..`"
    map_id = q.var_id(ors[0]["lhs"])
    for o in ors:
        r = peel(o["rhs"])
        okbit = q.var_id(o["lhs"]) == map_id and r.get("k") == "Binary" and r["op"] == "Shl" and lit(r["lhs"]) == ("i", 1) and call_is(peel(r["rhs"]), "PatternID::as_u64") and is_pattern_of(peel(r["rhs"])["args"][0], lt)
        if not okbit:
            return False, "bitmap half: recorded bit is not 1 << hit.pattern().as_u64(): " + str(show(o))[:60]
    others = [n for n in walk(top["then"]) if n.get("k") in ("Assign", "AssignOp") and q.var_id(n["lhs"]) == map_id and not any(n is o for o in ors)]
    if others:
        return False, "bitmap half: the map is written elsewhere"
    pops = [n for n in walk(top["then"]) if n.get("k") == "For" and n is not lt]
    direct = False
    if not pops:
        # `map.count_ones()`: every recorded bit is a pattern id, hence below len (lockstep lemma), so all set bits are counted bits
        tl0 = q.result_leaves(top["then"])
        tv0 = []
        for x, _ in tl0:
            x = unblock(x)
            while x.get("k") == "Cast" or (x.get("k") == "Call" and (x.get("fn") or "").endswith(("convert::From::from", "convert::Into::into")) and len(x["args"]) == 1):
                x = unblock(x["arg"] if x.get("k") == "Cast" else x["args"][0])
            tv0.append(x)
        direct = len(tv0) == 1 and tv0[0].get("k") == "Call" and (tv0[0].get("fn") or "").endswith("::count_ones") and q.var_id(tv0[0]["args"][0]) == map_id
    if direct:
        pass
    elif len(pops) != 1:
        return False, "bitmap half: no single popcount loop"
    pop = pops[0] if pops else None
    if not direct:
        end = q._range_upto(pop["iter"], body)
        if not (end is not None and call_is(end, "::len") and q.base_var(end["args"][0]) == mid):
            return False, "bitmap half: popcount does not run over 0..len"
        iv = strip_ref(pop["pat"]).get("id")
        # bit test ((map >> i) & 1), either added to the counter or compared with 1 to guard `counter += 1`
        bits = [n for n in walk(pop["body"]) if n.get("k") == "Binary" and n["op"] == "BitAnd" and lit(n["rhs"]) == ("i", 1) and peel(n["lhs"]).get("k") == "Binary" and peel(n["lhs"])["op"] == "Shr"
                and q.var_id(peel(n["lhs"])["lhs"]) == map_id and q.base_var(peel(n["lhs"])["rhs"], pop["body"]) == iv]
        adds = [n for n in walk(pop["body"]) if n.get("k") == "AssignOp" and n["op"] == "AddAssign"]
        if len(bits) != 1 or len(adds) != 1:
            return False, "bitmap half: popcount body is not one bit test and one addition"
        add = adds[0]
        cnt_id = q.var_id(add["lhs"])
        if peel(add["rhs"]) is bits[0] or (peel(add["rhs"]).get("k") == "Cast" and peel(peel(add["rhs"])["arg"]) is bits[0]):
            pass  # hits += (map >> i) & 1
        else:
            guard = [n for n in walk(pop["body"]) if n.get("k") == "If" and not n.get("else") and q.contains(n["then"], add)]
            c = peel(guard[0]["cond"]) if len(guard) == 1 else {}
            okg = lit(add["rhs"]) == ("i", 1) and c.get("k") == "Binary" and ((c["op"] == "Eq" and lit(c["rhs"]) == ("i", 1)) or (c["op"] == "Ne" and lit(c["rhs"]) == ("i", 0))) and peel(c["lhs"]) is bits[0]
            if not okg:
                return False, "bitmap half: the counter is not advanced exactly for the set bits"
        tl = q.result_leaves(top["then"])
        tv = [peel(x["arg"]) if peel(x).get("k") == "Cast" else peel(x) for x, _ in tl]
        tv = [unblock(x) for x in tv]
        def yields(x, vid):
            while x.get("k") == "Block" and x.get("expr") is not None:
                x = unblock(x["expr"])
            return q.var_id(x) == vid
        if not (len(tv) == 1 and yields(tv[0], cnt_id)):
            return False, "bitmap half: the result is not the popcount"
    # ---- set half
    le = scan(top["else"])
    if le is None:
        return False, "set half: no scan loop"
    ins = [n for n in walk(le["body"]) if call_is(n, "::insert")]
    if not ins:
        return False, "set half: no insert"
    set_id = q.base_var(ins[0]["args"][0])
    for i_ in ins:
        if q.base_var(i_["args"][0]) != set_id or not is_pattern_of(i_["args"][1], le) or "HashSet<" not in str(peel(i_["args"][0]).get("ty", "")):
            return False, "set half: what is inserted is not hit.pattern() into one HashSet"
    el = q.result_leaves(top["else"])
    ev = [peel(x["arg"]) if peel(x).get("k") == "Cast" else peel(x) for x, _ in el]
    if not (len(ev) == 1 and call_is(ev[0], "::len") and q.base_var(ev[0]["args"][0]) == set_id):
        return False, "set half: the result is not the set's size"
    return True, "bitmap and set halves recognised"


def aho_pairs(f, body):
    """(automaton variable id, context variable id) pairs of a function: the two leading fields bound by one
    `Search::AhoCorasick(a, m, _)` pattern, or slow_aho's own first two parameters (its callers pass such a pair, see T-SEARCH)."""
    pairs = set()
    for pat in q.all_patterns(body):
        for alt in or_pats(pat):
            for pp in q._walk_pat(alt):
                v = variant_of(pp)
                if v and v[0] == "Search" and v[1] == "AhoCorasick":
                    a, m = strip_ref(subpat(pp, 0)), strip_ref(subpat(pp, 1))
                    if a is not None and m is not None and a.get("k") == "Bind" and m.get("k") == "Bind":
                        pairs.add((a["id"], m["id"]))
    if f.name == "solver::slow_aho":
        ps = [strip_ref(p_["pat"]) for p_ in f.thir["params"] if p_.get("pat")]
        if len(ps) >= 2 and ps[0].get("k") == "Bind" and ps[1].get("k") == "Bind" and "AhoCorasick" in ps[0].get("ty", "") and "MatchType" in ps[1].get("ty", ""):
            pairs.add((ps[0]["id"], ps[1]["id"]))
    return pairs


def lockstep_roles(F):
    """{insensitive flag: (needle vector id, context vector id, needle name, context name)} for the two list automata of parse_mapping,
    found by structure: Search::AhoCorasick(build(<needles>), <context>, <flag literal>) with both vectors plain variables."""
    roles = {}
    pm = F.fn("parser::parse_mapping")
    if pm is None:
        return roles
    for n in walk(pm.body):
        if n.get("k") == "Adt" and n["adt"] == "parser::Search" and n["variant"] == "AhoCorasick":
            fields = {fl["name"]: fl["e"] for fl in n["fields"]}
            build = [c for c in builder_chain(fields["0"]) if c[0] == "build"]
            if not build:
                continue
            nd, cx = peel(build[0][1]["args"][1]), peel(fields["1"])
            fl = lit(fields["2"])
            if q.place(nd) is not None and q.place(cx) is not None and fl and fl[0] == "bool":
                roles[fl[1]] = (q.place(nd), q.place(cx), show(nd), show(cx))
    return roles


def matchtype_value_is_payload(F):
    """MatchType::value(&self) returns the text payload of whichever kind self is"""
    f = F.fn("parser::MatchType::value")
    if f is None:
        return False
    m = unblock(f.body)
    if m.get("k") != "Match" or not m["arms"]:
        return False
    seen = set()
    for a in m["arms"]:
        for alt in or_pats(a["pat"]):
            v = variant_of(alt)
            b = strip_ref(subpat(alt, 0)) if v else None
            if not v or v[0] != "MatchType" or b is None or b.get("k") != "Bind" or q.var_id(unblock(a["body"])) != b["id"]:
                return False
            seen.add(v[1])
    return seen == {"Contains", "EndsWith", "Exact", "StartsWith"}


def builder_chain(n):
    """For an expression containing X::build(...chain...), return the list of method names applied and their args."""
    out = []
    for x in walk(n):
        if x.get("k") == "Call" and x.get("fn") and ("Builder::" in x["fn"]):
            out.append((x["fn"].split("::")[-1], x))
    return out


def run(rep):
    F = facts.load("A")
    rep.configs = ["A(core,json)"]
    rep.explanation = (
        "'Exact for all strings' rests on (a) std / regex / aho-corasick doing what they document (trusted) and (b) the engine dispatching "
        "each pattern to the right operation with the right operands, filtering automaton hits by the right offsets, keeping every needle "
        "aligned with its match kind, and building each matcher with the case flag it records.  (b) is a set of finite tables and push "
        "disciplines in the code; the check extracts each of them from the typed tree and compares it with the specification, and "
        "cross-checks the three copies of the offset filter.  It decides the dispatch/filter/alignment/flag layer, not the algorithms inside "
        "the trusted crates."
    )
    for r, t in (("T-SEARCH", "search(): one arm per Search kind with the documented operation"), ("T-OFFSET", "offset filters per MatchType, three sibling copies"),
                 ("AHO-OVERLAP", "find_overlapping_iter everywhere, no match_kind on builders"), ("LOCKSTEP", "needles/context pushed pairwise with equal text and kind"),
                 ("FLAG", "stored flag == builder flag"), ("PLAIN-CASE", "plain Search kinds only when ignore-case is false"),
                 ("LOWERCASE", "needle folding must be ASCII (to_ascii_lowercase) or absent"), ("T-PATTERN", "pattern syntax decision list")):
        rep.describe(r, t)

    # ---------------------------------------------------------------- T-SEARCH
    sf = F.fn("solver::search")
    if sf is None:
        rep.lost("T-SEARCH", "T-SEARCH/anchor", "solver::search")
    else:
        # the match on the search kind, as a statement (`Kind(i) => if OP { return True }` ... `False`) or as a value
        # (`let found = match kind { Kind(i) => OP, .. }; if found { True } else { False }`)
        kparam = strip_ref(sf.thir["params"][0]["pat"]).get("id")
        ms = [n for n in walk(sf.body) if n.get("k") == "Match" and q.base_var(n["scrut"]) == kparam and any(variant_of(p_) and variant_of(p_)[0] == "Search" for a_ in n["arms"] for p_ in or_pats(a_["pat"]))]
        m = ms[0] if len(ms) == 1 else None
        spec = {
            "Any": ("true",),
            "Exact": ("PartialEq::eq(i, value)", "PartialEq::eq(value, i)", "(i Eq value)", "(value Eq i)"),
            "Contains": ("<impl str>::contains(value, i)",),
            "EndsWith": ("<impl str>::ends_with(value, i)",),
            "StartsWith": ("<impl str>::starts_with(value, i)",),
            "Regex": ("Regex::is_match(i, value)",),
            "RegexSet": ("RegexSet::is_match(i, value)",),
        }
        seen = set()
        if m is None:
            rep.lost("T-SEARCH", "T-SEARCH/match", "match on the search kind")
        else:
            vparam = sf.thir["params"][1]["pat"]["name"]
            value_form = str(m.get("ty")) == "bool"

            def truth(body):
                """the condition under which this arm answers true -> rendering, or None"""
                b_ = unblock(body)
                if value_form:
                    return b_
                if q.returns_sr(b_, "True"):
                    return {"k": "Lit", "ty": "bool", "sp": b_.get("sp"), "v": "bool:true"}
                while b_.get("k") == "Block" and not b_["stmts"] and b_.get("expr") is not None:
                    b_ = unblock(b_["expr"])
                if b_.get("k") == "Block" and len(b_["stmts"]) == 1 and b_["stmts"][0]["k"] == "Expr" and b_.get("expr") is None:
                    b_ = unblock(b_["stmts"][0]["e"])
                if b_.get("k") == "If" and not b_.get("else") and q.returns_sr(b_["then"], "True"):
                    return b_["cond"]
                return None
            for a in m["arms"]:
                v = variant_of(a["pat"])
                if not v or v[0] != "Search":
                    rep.bad("T-SEARCH", "T-SEARCH/arm/" + pat_str(a["pat"]), a["sp"], "arm is a Search kind", pat_str(a["pat"]))
                    continue
                seen.add(v[1])
                if v[1] == "AhoCorasick":
                    # the arm is nothing but the scan over the automaton's hits (T-OFFSET owns the loop): no shortcut before or after it
                    ab = q.inline_pure_lets(a["body"], [p_["pat"] for p_ in sf.thir["params"] if p_.get("pat")] + [a["pat"]])
                    def flat(n_):
                        n_ = unblock(n_)
                        if n_.get("k") == "Block":
                            its = [s_["e"] if s_["k"] == "Expr" else s_ for s_ in n_["stmts"]] + ([n_["expr"]] if n_.get("expr") is not None else [])
                            its = [unblock(x) if x.get("k") != "Let" else x for x in its]
                            if len(its) == 1 and its[0].get("k") != "Let":
                                return flat(its[0])
                            return its
                        if n_.get("k") == "Return" and n_.get("value") is not None and unblock(n_["value"]).get("k") == "Block":
                            return flat(n_["value"])  # `return helper(..)` with the helper's body inlined
                        return [n_]
                    items = flat(ab)
                    if len(items) == 2 and isinstance(items[1], dict) and (q.returns_sr(items[1], "False") or q.is_sr(items[1], "False")):
                        items = items[:1]  # `no hit => False` spelled in the arm itself
                    if len(items) == 3 and items[0].get("k") == "Let" and lit(items[0].get("init")) == ("bool", False) and q.var_id(items[2]) == strip_ref(items[0]["pat"]).get("id"):
                        items = items[1:2]  # the flag loop an `.any(..)` stands for: `let found = false; for .. {..}; found`
                    okarm = len(items) == 1 and items[0].get("k") == "For" and call_is(peel(items[0]["iter"]), "find_overlapping_iter")
                    rep.check(okarm, "T-SEARCH", "T-SEARCH/AhoCorasick", a["sp"], "the automaton arm is only the scan over its overlapping hits (no shortcut that answers without scanning)", "; ".join(str(show(x))[:50] if isinstance(x, dict) and x.get("k") != "Let" else "let" for x in items))
                    continue
                p0 = strip_ref(subpat(a["pat"], 0)) if v[1] != "Any" else None
                ren = {p0["name"]: "i"} if p0 and p0.get("k") == "Bind" else {}
                ren[vparam] = "value"
                t_ = truth(a["body"])
                b = show(t_, ren=ren) if t_ is not None else "?"
                rep.check(t_ is not None and str(b) in spec[v[1]], "T-SEARCH", "T-SEARCH/" + v[1], a["sp"], "Search::%s answers true exactly when the documented operation on (value, needle) holds" % v[1], str(b) if t_ is not None else show(a["body"])[:80])
            rep.check(seen == set(spec) | {"AhoCorasick"}, "T-SEARCH", "T-SEARCH/complete", m["sp"], "all eight Search kinds handled", str(sorted(seen)))
            if value_form:
                # the match's value decides: if V { True } else { False }
                okd = False
                for n in walk(sf.body):
                    if n.get("k") == "If" and n.get("else") is not None and q.resolve(sf.body, n["cond"]) is m:
                        okd = (q.is_sr(unblock(n["then"]), "True") or q.returns_sr(n["then"], "True")) and (q.is_sr(unblock(n["else"]), "False") or q.returns_sr(n["else"], "False"))
                rep.check(okd, "T-SEARCH", "T-SEARCH/default-false", sf.sp, "the kind's condition decides: true => True, otherwise False", "")
            else:
                tail = sf.body.get("expr")
                rep.check(tail is not None and q.is_sr(tail, "False") or (tail is not None and show(tail) == "SolverResult::False"), "T-SEARCH", "T-SEARCH/default-false", sf.sp, "no hit => False", show(tail) if tail else "-")

    # ---------------------------------------------------------------- T-OFFSET (three copies)
    copies = []
    for fname in ("solver::search", "solver::slow_aho"):
        f = F.fn(fname)
        if f is None:
            rep.lost("T-OFFSET", "T-OFFSET/anchor/" + fname, fname)
            continue
        # hoisted pure lets (`let p = hit.pattern()`, `let end = value.len()`) are substituted away first
        fbody = q.inline_pure_lets(f.body, [p_["pat"] for p_ in f.thir["params"] if p_.get("pat")])
        pairs = aho_pairs(f, fbody)
        for n in walk(fbody):
            if n.get("k") == "For" and call_is(peel(n["iter"]), "find_overlapping_iter") or (n.get("k") == "For" and "AhoCorasick::find" in show(n["iter"])):
                copies.append((fname, n, pairs))
    rep.check(len(copies) == 3, "T-OFFSET", "T-OFFSET/copies", "src/solver.rs", "three automaton scan loops (search, slow_aho bitmap, slow_aho set)", str(len(copies)))
    for idx, (fname, loop, pairs) in enumerate(copies):
        tag = "%s#%d" % (fname.split("::")[-1], idx)
        it = peel(loop["iter"])
        hay = peel(it["args"][1]) if it.get("k") == "Call" and len(it["args"]) == 2 else {}
        rep.check(call_is(it, "AhoCorasick::find_overlapping_iter"), "AHO-OVERLAP", "AHO-OVERLAP/scan/" + tag, loop["sp"], "the scan enumerates all overlapping hits", show(it))
        ivar = loop["pat"].get("name")
        ren = {ivar: "i"}
        if hay.get("k") == "Var":
            ren[hay["name"]] = "value"
        ms = [x for x in walk(loop["body"]) if x.get("k") == "Match" and any(variant_of(p) and variant_of(p)[0] == "MatchType" for a in x["arms"] for p in or_pats(a["pat"]))]
        if len(ms) != 1:
            rep.lost("T-OFFSET", "T-OFFSET/match/" + tag, "one match on the hit's MatchType")
            continue
        mm = ms[0]
        sc = show(mm["scrut"], ren=ren)
        # context[hit.pattern()] where context is the kind vector stored beside this automaton
        scn = peel(mm["scrut"])
        okidx = call_is(scn, "Index::index") and len(scn["args"]) == 2 and call_is(peel(scn["args"][1]), "Match::pattern") and q.var_id(peel(scn["args"][1])["args"][0]) == loop["pat"].get("id") \
            and it.get("k") == "Call" and (q.base_var(it["args"][0]), q.base_var(scn["args"][0])) in pairs
        rep.check(okidx, "T-OFFSET", "T-OFFSET/index/" + tag, mm["sp"], "the hit's kind is context[hit.pattern()]", sc)
        actions = set()
        value_form = str(mm.get("ty")) == "bool"  # `if match kind { Contains(_) => true, EndsWith(_) => <cond>, .. } { <record the hit> }`
        for a in mm["arms"]:
            v = variant_of(a["pat"])
            kind = v[1] if v else "?"
            b = unblock(a["body"])
            cond = None
            act = b
            if value_form:
                cond = None if lit(b) == ("bool", True) else show(b, ren=ren)
                gov = [x for x in walk(loop["body"]) if x.get("k") == "If" and unblock(x["cond"]) is mm]
                act = unblock(gov[0]["then"]) if len(gov) == 1 and not gov[0].get("else") else {"k": "Lit", "v": "s:?"}
            elif b.get("k") == "If":
                cond = show(b["cond"], ren=ren)
                act = unblock(b["then"])
                if b.get("else"):
                    cond = "else!"
            want = FILTERS.get(kind, "?")
            rep.check(cond == want, "T-OFFSET", "T-OFFSET/%s/%s" % (tag, kind), a["sp"], "MatchType::%s filter is %s" % (kind, want or "none"), str(cond))
            actions.add(show(act, ren=ren))
        rep.check(len(actions) == 1, "T-OFFSET", "T-OFFSET/same-action/" + tag, mm["sp"], "all four kinds record the hit in the same way", str(sorted(actions)))
        rep.check({variant_of(a["pat"])[1] for a in mm["arms"] if variant_of(a["pat"])} == set(FILTERS), "T-OFFSET", "T-OFFSET/kinds/" + tag, mm["sp"], "all four MatchType kinds handled", "")
    # every caller of slow_aho hands it an automaton together with the kind vector stored beside it
    ncall = 0
    for name, f in F.fns.items():
        if f.thir is None:
            continue
        cs = [x for x in walk(f.body) if call_is(x, "solver::slow_aho")]
        if not cs:
            continue
        pairs = aho_pairs(f, f.body)
        for x in cs:
            ncall += 1
            okp = len(x["args"]) == 3 and (q.base_var(x["args"][0]), q.base_var(x["args"][1])) in pairs
            rep.check(okp, "T-OFFSET", "T-OFFSET/slow_aho-args/%s#%d" % (name, ncall), x["sp"], "slow_aho(a, m, value) receives the automaton and kind vector of one Search::AhoCorasick node", show(x)[:80])
    rep.check(ncall >= 2, "T-OFFSET", "T-OFFSET/slow_aho-callers", "src/solver.rs", "slow_aho call sites found (match_all, match_of)", str(ncall))
    # slow_aho: bit recorded is the pattern's own index; hits counted over 0..len
    sa = F.fn("solver::slow_aho")
    if sa is not None:
        okh, deth = count_halves(sa)
        rep.check(okh, "T-OFFSET", "T-OFFSET/count-halves", sa.sp, "slow_aho: bitmap half (bit per pattern id, popcount over 0..len, only when len < 64) and set half (distinct pattern ids), both over the filtered overlapping hits", deth)

    # ---------------------------------------------------------------- builders: AHO-OVERLAP (kind), FLAG
    nb = 0
    for fname in ("parser::parse_mapping", "optimiser::shake_1", "optimiser::rewrite_search"):
        f = F.fn(fname)
        if f is None:
            rep.lost("FLAG", "FLAG/anchor/" + fname, fname)
            continue
        for n, path in walk_with_path(f.body):
            if n.get("k") != "Adt" or n["adt"] != "parser::Search":
                continue
            var = n["variant"]
            fields = {fl["name"]: fl["e"] for fl in n["fields"]}
            tag = "%s/%s@%s" % (fname.split("::")[-1], var, _ctxkey(path, n))
            occ = sum(1 for i in rep.instances if i.key.startswith("FLAG/" + tag) or i.key.startswith("PLAIN-CASE/" + tag))
            tag = tag + "#%d" % occ
            if var == "AhoCorasick":
                nb += 1
                chain = builder_chain(fields["0"])
                names = [c[0] for c in chain]
                # find_overlapping_iter refuses (panics on) an automaton with a non-standard match kind or an anchored-only start kind
                rep.check("match_kind" not in names and "start_kind" not in names, "AHO-OVERLAP", "AHO-OVERLAP/kind/" + tag, n["sp"], "automaton keeps the default match kind and start kind (required for the unanchored overlapping search the solver runs)", str(names))
                ci = [c for c in chain if c[0] == "ascii_case_insensitive"]
                flag = fields["2"]
                if not ci:
                    ok = lit(flag) == ("bool", False)
                    det = "no ascii_case_insensitive call; stored " + show(flag)
                else:
                    barg = ci[0][1]["args"][1]
                    ok = (lit(barg) is not None and lit(barg) == lit(flag)) or (q.var_id(barg) is not None and q.var_id(barg) == q.var_id(flag))
                    det = "builder %s; stored %s" % (show(barg), show(flag))
                rep.check(ok, "FLAG", "FLAG/" + tag, n["sp"], "stored case flag equals the automaton's ascii_case_insensitive setting", det)
                # needles/context lockstep at the constructor: build(X) with context Y
                build = [c for c in chain if c[0] == "build"]
                if build:
                    nd = show(build[0][1]["args"][1])
                    cx = show(fields["1"])
                    roles = lockstep_roles(F)
                    pairs = {(r[2], r[3]) for r in roles.values()}
                    single = re.fullmatch(r"boxed::box_assume_init_into_vec_unsafe\(.*\)|<\[_\]>::into_vec\(.*\)|.*\[Clone::clone\(c\)\].*", nd) is not None or "Clone::clone(c)" in nd
                    if (nd, cx) in pairs and fname == "parser::parse_mapping":
                        rep.ok("LOCKSTEP", "LOCKSTEP/ctor/" + tag, n["sp"], "automaton over %s is paired with %s" % (nd, cx))
                        want_flag = [k for k, r in roles.items() if r[2] == nd][0]
                        rep.check(lit(flag) == ("bool", want_flag) and len(roles) == 2, "FLAG", "FLAG/bucket/" + tag, n["sp"], "the %s bucket is %s" % (nd, "insensitive" if want_flag else "sensitive"), show(flag))
                    elif single:
                        mt = [x for x in walk(fields["1"]) if x.get("k") == "Adt" and x["adt"] == "parser::MatchType"]
                        arm = [e for e in q.context(path, n) if e[0] == "arm" and variant_of(e[1]) and variant_of(e[1])[0] == "Pattern"]
                        pk = variant_of(arm[-1][1])[1] if arm else None
                        ok = len(mt) == 1 and mt[0]["variant"] == pk and show(mt[0]["fields"][0]["e"]) == "c"
                        rep.check(ok, "LOCKSTEP", "LOCKSTEP/ctor/" + tag, n["sp"], "single needle: context is MatchType::%s of the same text" % pk, show(fields["1"])[:80])
                    elif fname == "optimiser::shake_1" and nd == "needles" and cx == "context":
                        # (context, needles) = searches.into_iter().unzip()
                        unz = [x for x in walk(f.body) if x.get("k") == "Block" for s in x["stmts"] if s["k"] == "Let" and pat_str(s["pat"]) == "($context, $needles)" and "Iterator::unzip(IntoIterator::into_iter(searches))" in show(s["init"])]
                        rep.check(bool(unz), "LOCKSTEP", "LOCKSTEP/ctor/" + tag, n["sp"], "context and needles come from one unzip of the (MatchType, text) pairs", "")
                    else:
                        rep.bad("LOCKSTEP", "LOCKSTEP/ctor/" + tag, n["sp"], "needle list and context list are a recognised pair", "%s with %s" % (nd[:50], cx[:50]))
            elif var in ("Regex", "RegexSet"):
                nb += 1
                flag = fields["1"]
                chain = builder_chain(fields["0"])
                src = show(fields["0"])
                if not chain and peel(fields["0"]).get("k") == "Var" and fname != "optimiser::rewrite_search":
                    # the matcher was built in the scrutinee of an enclosing `match builder.build() { Ok(x) => .. }`
                    vid = peel(fields["0"])["id"]
                    for e in q.context(path, n):
                        if e[0] == "arm" and any(b[1] == vid for b in facts.pat_binds(e[1])) and "Builder::build" in show(e[2]):
                            chain = builder_chain(e[2])
                ci = [c for c in chain if c[0] == "case_insensitive"]
                if ci:
                    barg = ci[0][1]["args"][1]
                    ok = (lit(barg) is not None and lit(barg) == lit(flag)) or (q.var_id(barg) is not None and q.var_id(barg) == q.var_id(flag))
                    det = "builder %s; stored %s" % (show(barg), show(flag))
                elif chain:
                    ok = lit(flag) == ("bool", False)
                    det = "builder without case_insensitive; stored " + show(flag)
                elif var == "RegexSet" and fname != "optimiser::rewrite_search":
                    ok = lit(flag) == ("bool", False)
                    det = "set compiled without case_insensitive(..); stored " + show(flag)
                elif var == "Regex" and ("regex_set" in src or "iregex_set" in src):
                    want = "iregex_set" in src
                    ok = lit(flag) == ("bool", want)
                    det = "regex taken from %s; stored %s" % ("iregex_set" if want else "regex_set", show(flag))
                elif fname == "parser::parse_mapping" and src == "c":
                    ok = show(flag) == "identifier.ignore_case"
                    det = "compiled by into_identifier with its flag; stored " + show(flag)
                elif fname == "optimiser::rewrite_search":
                    # Search::Regex(rewritten | regex, insensitive): insensitive bound from the matched Search, rewritten built with it
                    arm = [e for e in q.context(path, n) if e[0] == "arm" and variant_of(e[1]) and variant_of(e[1])[0] == "Search"]
                    fid = strip_ref(subpat(arm[0][1], 1)).get("id") if arm else None
                    ok = q.var_id(flag) == fid and fid is not None
                    det = "flag is the matched search's own flag"
                    if src == "rewritten":
                        bl = [x for x in walk(f.body) if x.get("k") == "Match" and any(y is n for a in x["arms"] for y in walk(a["body"])) and "Builder::build" in show(x["scrut"])]
                        okb = bool(bl) and any(c[0] == "case_insensitive" and q.var_id(c[1]["args"][1]) == fid for c in builder_chain(bl[-1]["scrut"]))
                        ok = ok and okb
                        det += "; rebuilt with the same flag" if okb else "; rebuilt WITHOUT the flag"
                else:
                    ok = False
                    det = "unrecognised origin " + src[:60]
                rep.check(ok, "FLAG", "FLAG/" + tag, n["sp"], "stored case flag equals the regex's case_insensitive setting", det)
            elif var in ("Contains", "EndsWith", "Exact", "StartsWith"):
                ctx = q.context(path, n)
                arg = show(fields["0"])
                just = None
                for e in ctx:
                    if e[0] == "if" and not e[2] and ("ignore_case" in show(e[1]) or "insensitive" in show(e[1])):
                        just = "else-branch of `%s`" % show(e[1])[:60]
                    if e[0] == "if" and e[2] and show(e[1]).startswith("(Not(insensitive)"):
                        just = "under `!insensitive`"
                    if e[0] == "if" and e[2] and re.fullmatch(r"<impl str>::is_empty\(Deref::deref\((\w+)\)\)|String::is_empty\((\w+)\)", show(e[1])) and var == "Exact":
                        just = "empty needle (case is moot)"
                if just is None and arg.startswith("ToString::to_string(") and fname == "parser::parse_mapping":
                    just = "text of a YAML bool/number under str(): not a pattern"
                if just is None and fname == "parser::parse_mapping":
                    # built from the single element of the sensitive bucket `context`
                    for e in ctx:
                        if e[0] == "arm" and "context" in show(e[2]) and "icontext" not in show(e[2]):
                            just = "element of the case-sensitive bucket `context`"
                rep.check(just is not None, "PLAIN-CASE", "PLAIN-CASE/" + tag, n["sp"], "plain Search::%s is built only where the pattern is case-sensitive" % var, just or "no justification found in the enclosing conditions")
    rep.floor("FLAG", 16)
    rep.floor("PLAIN-CASE", 14)
    rep.floor("AHO-OVERLAP", 10)

    # ---------------------------------------------------------------- LOCKSTEP pushes in the list arm
    pm = F.fn("parser::parse_mapping")
    if pm is not None:
        npairs = 0
        roles = lockstep_roles(F)
        rep.check(set(roles) == {True, False}, "LOCKSTEP", "LOCKSTEP/roles", pm.sp, "one case-sensitive and one case-insensitive needle/context vector pair feed the two list automata", str({k: v[2:] for k, v in roles.items()}))
        for n, path in walk_with_path(pm.body):
            if n.get("k") != "For" or not call_is(peel(n["iter"]), "IntoIterator::into_iter") or peel(peel(n["iter"])["args"][0]).get("k") != "Var":
                continue
            iflet = [x for x in walk(n["body"]) if x.get("k") == "If" and peel(x["cond"]).get("k") == "LetCond" and variant_of(peel(x["cond"])["pat"]) and variant_of(peel(x["cond"])["pat"])[0] == "Pattern"]
            if len(iflet) != 1 or variant_of(peel(iflet[0]["cond"])["pat"])[1] not in ("StartsWith", "Contains", "EndsWith", "Exact"):
                continue
            kind = variant_of(peel(iflet[0]["cond"])["pat"])[1]
            bucket = peel(peel(n["iter"])["args"][0])["name"]
            ivar_id = n["pat"].get("id")
            rep.ok("LOCKSTEP", "LOCKSTEP/bucket-kind/" + kind, n["sp"], "bucket `%s` is drained as Pattern::%s" % (bucket, kind))
            sid = strip_ref(subpat(peel(iflet[0]["cond"])["pat"], 0)).get("id")
            for x, p2 in walk_with_path(iflet[0]["then"]):
                c = peel(x["cond"]) if x.get("k") == "If" else None
                if c is not None and c.get("k") == "Field" and c["name"] == "ignore_case" and q.var_id(c["arg"]) == ivar_id:
                    for branch, flagv, label in ((x["then"], True, "insensitive"), (x["else"], False, "sensitive")):
                        role = roles.get(flagv)
                        pushes = [c2 for c2 in (q.calls(branch, "::push") if branch else []) if "Vec<" in str(c2["args"][0].get("ty", "")) or "Vec<" in str(peel(c2["args"][0]).get("ty", ""))]
                        tgt = sorted((str(q.place(c2["args"][0])) for c2 in pushes if q.place(c2["args"][0]) is not None))
                        okp = role is not None and tgt == sorted([str(role[0]), str(role[1])])
                        okv = oks = False

                        def kind_value(a):
                            """MatchType::<kind>(text of this member) -> True; through an immutable binding of it as well"""
                            a = peel(a)
                            if a.get("k") == "Var":
                                init = q.let_init(branch, a["id"])
                                a = peel(init) if init is not None else a
                            if not (a.get("k") == "Adt" and a["adt"] == "parser::MatchType" and a["variant"] == kind):
                                return False
                            t = peel(a["fields"][0]["e"])
                            return q.var_id(t) == sid or (call_is(t, "Clone::clone") and q.var_id(t["args"][0]) == sid)
                        for c2 in pushes:
                            if role and q.place(c2["args"][0]) == role[1]:
                                okv = kind_value(c2["args"][1])
                            if role and q.place(c2["args"][0]) == role[0]:
                                t = peel(c2["args"][1])
                                if call_is(t, "Clone::clone") and len(t["args"]) == 1 and call_is(peel(t["args"][0]), "parser::MatchType::value"):
                                    # the text read back out of the kind value that goes to the context vector (value() is the payload: T-VALUE)
                                    oks = kind_value(peel(t["args"][0])["args"][0]) and matchtype_value_is_payload(F)
                                else:
                                    oks = q.var_id(t) == sid or (call_is(t, "Clone::clone") and q.var_id(t["args"][0]) == sid)
                        npairs += 1
                        rep.check(okp and okv and oks, "LOCKSTEP", "LOCKSTEP/push/%s/%s" % (kind, label), branch["sp"] if branch else x["sp"],
                                  "%s member: one push of MatchType::%s(text) to the %s context vector and one push of the same text to its needle vector" % (label, kind, label),
                                  str([show(c2["args"][0]) for c2 in pushes]))
        rep.check(npairs == 8, "LOCKSTEP", "LOCKSTEP/push-pairs", pm.sp, "eight lockstep push pairs (4 buckets x 2 case classes)", str(npairs))
        allowed = {"push", "is_empty", "len", "into_iter", "build", "next"}
        for flagv, role in sorted(roles.items()):
            for vid, nm in ((role[0], "needles"), (role[1], "context")):
                other = sorted({n["fn"].split("::")[-1] for n in walk(pm.body) if n.get("k") == "Call" and n.get("fn") and n.get("args") and any(q.place(a) == vid for a in n["args"])} - allowed)
                rep.check(not other, "LOCKSTEP", "LOCKSTEP/only-pushed/%s-%s" % ("insensitive" if flagv else "sensitive", nm), pm.sp,
                          "the %s %s vector is only pushed to, measured and consumed (no dedup/sort/remove that would break the alignment)" % ("insensitive" if flagv else "sensitive", nm), str(other))
        # regex buckets
        for n in walk(pm.body):
            if n.get("k") == "For" and show(n["iter"]) == "IntoIterator::into_iter(regex)":
                s = show(n["body"])
                ok = "if i.ignore_case {<T, A>::push(iregex_set, r)} else {<T, A>::push(regex_set, r)}" in s
                rep.check(ok, "LOCKSTEP", "LOCKSTEP/regex-buckets", n["sp"], "regexes go to iregex_set iff compiled insensitive", s[:120])
    # shake_1 pairs
    s1 = F.fn("optimiser::shake_1")
    if s1 is not None:
        npair = 0
        for n, path in walk_with_path(s1.body):
            if n.get("k") == "Tuple" and len(n["fields"]) == 2 and peel(n["fields"][0]).get("k") == "Adt" and peel(n["fields"][0])["adt"] == "parser::MatchType":
                mt = peel(n["fields"][0])
                arm = [e for e in q.context(path, n) if e[0] == "arm" and "Search::" in pat_str(e[1])]
                sk = None
                if arm:
                    mm = re.search(r"Search::(\w+)\(\$value\)", pat_str(arm[-1][1]))
                    sk = mm.group(1) if mm else None
                ok = mt["variant"] == sk and show(mt["fields"][0]["e"]) == "Clone::clone(value)" and show(n["fields"][1]) == "value"
                npair += 1
                rep.check(ok, "LOCKSTEP", "LOCKSTEP/shake/" + str(sk), n["sp"], "re-batching pairs MatchType::%s(text) with the same text" % sk, show(n))
        s = show(s1.body)
        ok = "for $context in contexts {{let $value = ToOwned::to_owned(MatchType::value(context)); <T, A>::push(expressions, (Clone::clone(context), value))}}" in s
        rep.check(ok, "LOCKSTEP", "LOCKSTEP/shake/aho-expand", s1.sp, "an existing automaton is re-expanded as (context, context.value()) pairs", "")
        rep.check(npair == 4, "LOCKSTEP", "LOCKSTEP/shake/pairs", s1.sp, "four plain-search re-batching pairs", str(npair))
        # keys keep the case class apart: needles.entry((field, cast, insensitive)) / plain => false
        ent = [show(x) for x in walk(s1.body) if call_is(x, "::entry") and "needles" in show(x["args"][0])]
        ok = len(ent) == 5 and sum(1 for e in ent if e.endswith("(field, cast, insensitive))")) == 1 and sum(1 for e in ent if e.endswith("(field, cast, false))")) == 4
        rep.check(ok, "LOCKSTEP", "LOCKSTEP/shake/case-key", s1.sp, "needles are grouped per (field, cast, case class); plain searches are case-sensitive", str(ent))

    # ---------------------------------------------------------------- IDENT-MODEL (decides), LOWERCASE + T-PATTERN (structure, fallback)
    import core as _core
    import identmodel
    rep.describe("IDENT-MODEL", "into_identifier evaluated over %d probe strings agrees with the documented pattern syntax (kind, payload, case flag, ASCII folding, errors)" % len(identmodel.PROBES))
    icfg = "ignore_case" in (F.features or [])  # (thorough tier: the same rules under the other feature sets)
    irows, iun = identmodel.evaluate(F, icfg)
    if irows is None:
        rep.note("pattern-syntax model not applicable (%s); structural rules decide" % iun)
    else:
        for probe, want, got, agree in irows:
            rep.check(agree, "IDENT-MODEL", "IDENT-MODEL/%s/%s" % ("ignore_case" if icfg else "default", probe if probe else "<empty>"), "src/identifier.rs", "pattern %r is read as documented" % probe,
                      None if agree else "expected %r, the body yields %r" % (want, got))
    model_ok = irows is not None and all(r[3] for r in irows)

    def _structural(rep):
        # ---------------------------------------------------------------- LOWERCASE + T-PATTERN
        idf = F.fn("into_identifier")
        if idf is None:
            rep.lost("T-PATTERN", "T-PATTERN/anchor", "into_identifier")
        else:
            nlow = 0
            for n, path in walk_with_path(idf.body):
                if n.get("k") == "Call" and n.get("fn") and ("to_lowercase" in n["fn"] or "to_ascii_lowercase" in n["fn"] or "to_uppercase" in n["fn"]):
                    nlow += 1
                    ctx = q.context(path, n)
                    under = any(e[0] == "if" and e[2] and show(e[1]) == "insensitive" for e in ctx)
                    rep.check(n["fn"].endswith("to_ascii_lowercase") and under, "LOWERCASE", "LOWERCASE/site#%d" % nlow, n["sp"],
                              "needle folding is ASCII (the automaton is ascii_case_insensitive) and happens only for insensitive patterns", n["fn"].split("::")[-1] + (" under insensitive" if under else " NOT under insensitive"))
            rep.check(nlow == 5, "LOWERCASE", "LOWERCASE/count", idf.sp, "five string arms fold the needle (sibling arms alike)", str(nlow))
            # decision list: order of tests and outcome per test
            tests = []
            cur = None
            for s in idf.body.get("stmts", []):
                if s["k"] == "Let" and s["pat"].get("name") == "pattern":
                    cur = unblock(s["init"])
            chain = []
            while cur is not None and cur.get("k") == "If":
                chain.append(cur)
                cur = unblock(cur["else"]) if cur.get("else") else None
            last_else = cur
            def test_name(c):
                c = peel(c)
                s = str(show(c))
                m = re.fullmatch(r"let Option::Some\(\$s\) = <impl str>::strip_prefix\(string, (['\"])(.+)\1\)", s)
                if m:
                    return "prefix:" + m.group(2)
                m = re.fullmatch(r"let Option::Some\(\$s\) = <impl str>::strip_suffix\(string, (['\"])(.+)\1\)", s)
                if m:
                    return "suffix:" + m.group(2)
                if s == 'PartialEq::eq(string, "*")':
                    return "is:*"
                if s == "(<impl str>::starts_with(string, '*') && <impl str>::ends_with(string, '*'))":
                    return "wrapped:*"
                if "starts_with(string, '\"')" in s and "ends_with(string, \'\'\')" in s:
                    return "quoted" + (":len>=2" if "(<impl str>::len(string) Ge 2)" in s else ":UNGUARDED")
                return "?" + s[:50]
            names = [test_name(c["cond"]) for c in chain]
            want = ["prefix:?", "prefix:>=", "prefix:>", "prefix:<=", "prefix:<", "prefix:=", "is:*", "wrapped:*", "prefix:*", "suffix:*", "quoted:len>=2"]
            rep.check(names == want, "T-PATTERN", "T-PATTERN/decision-list", idf.sp, "tests in order: ? >= > <= < = '*' *x* *x x* quoted(len>=2) else exact", str(names))
            outcome = {"prefix:?": "Regex", "is:*": "Any", "wrapped:*": "Contains", "prefix:*": "EndsWith", "suffix:*": "StartsWith", "quoted:len>=2": "Exact"}
            for c, nm in zip(chain, names):
                if nm in outcome:
                    adts = [x["variant"] for x in walk(c["then"]) if x.get("k") == "Adt" and x["adt"] == "identifier::Pattern"]
                    rep.check(adts == [outcome[nm]], "T-PATTERN", "T-PATTERN/outcome/" + nm, c["sp"], "test %s => Pattern::%s" % (nm, outcome[nm]), str(adts))
            if last_else is not None:
                adts = [x["variant"] for x in walk(last_else) if x.get("k") == "Adt" and x["adt"] == "identifier::Pattern"]
                rep.check(adts == ["Exact"], "T-PATTERN", "T-PATTERN/outcome/otherwise", idf.sp, "otherwise => Pattern::Exact(whole text)", str(adts))
            # payloads: inner slices
            for c, nm in zip(chain, names):
                if nm in ("wrapped:*", "quoted:len>=2"):
                    sl = [show(x) for x in walk(c["then"]) if call_is(x, "Index::index")]
                    ok = bool(sl) and all(s == "Index::index(string, Range::Range{start: 1, end: (<impl str>::len(string) Sub 1)})" for s in sl)
                    rep.check(ok, "T-PATTERN", "T-PATTERN/inner/" + nm, c["sp"], "payload is the text without its first and last character", str(sl[:1]))
            # regex: built from the rest with case_insensitive(insensitive), unanchored (no ^/$ added)
            if chain:
                s = show(chain[0]["then"])
                ok = "RegexBuilder::build(RegexBuilder::case_insensitive(RegexBuilder::new(s), insensitive))" in s and "format" not in s
                rep.check(ok, "T-PATTERN", "T-PATTERN/regex", chain[0]["sp"], "?re compiles exactly the text after '?' with the pattern's case flag", s[:120])
        # "?re is an unanchored regex search ... however the engine batches the members": the optimiser may only strip a leading/trailing `.*`
        import core

    sub_ = _core.Report(rep.pid, rep.tier)
    _structural(sub_)
    if model_ok:
        # the evaluation covers the pattern syntax: shape findings of the structural rules are not violations
        rep.instances.extend(i for i in sub_.instances if i.status == "discharged")
        dropped_ = [i.key for i in sub_.instances if i.status != "discharged"]
        if dropped_:
            rep.note("structural pattern-syntax rules not applicable to this shape of into_identifier (%d): %s" % (len(dropped_), ", ".join(dropped_[:6])))
    else:
        rep.instances.extend(sub_.instances)
    rep.rules.update({k_: v_ for k_, v_ in sub_.rules.items() if k_ not in rep.rules})
    _core.import_rules(rep, "c01", {"REWRITE-CONST"})
    rep.floor("T-SEARCH", 9)
    rep.floor("T-OFFSET", 20)
    rep.floor("LOCKSTEP", 24)
    if model_ok:
        rep.floor("IDENT-MODEL", 80)
    else:
        rep.floor("LOWERCASE", 6)
        rep.floor("T-PATTERN", 11)
    rep.assumptions.append("the into_identifier evaluation covers 87 probe patterns per build: agreement with the pattern syntax is established on these probes only; T-PATTERN/LOWERCASE decide the shapes they recognise")
    rep.exhaustive = True
    rep.trusted.append("std str::{contains,starts_with,ends_with,==}, regex is_match (unanchored search), aho-corasick overlapping search reports every occurrence of every needle")


def _ctxkey(path, n):
    """A line-free discriminator for a construction site: the chain of enclosing arm patterns (last two)."""
    arms = []
    for e in q.context(path, n):
        if e[0] == "arm":
            v = variant_of(e[1])
            if v:
                arms.append(v[1])
    return ">".join(arms[-2:]) if arms else "top"
