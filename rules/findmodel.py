"""FIND-MODEL: the typed tree of the default `Object::find` evaluated over a finite grid of (document, key) pairs.

The body (with helpers inlined by the normalisation) is interpreted by the TRI model evaluator, extended here with the string,
option and iterator operations a path walker is made of.  `Object::get` and the array accessors are answered from a small
model document; keys are plain Python strings.  The result for every pair is compared with the documented path language
(`spec_find`).  Anything outside the interpreted subset raises Unrecognised and the caller falls back to the structural rules
(fail closed).  No tau-engine code is compiled or run: this is evaluation of the extracted tree over a finite domain.
"""
import re

from facts import peel, strip_ref, lit
from tri import Model, Ret, Unrecognised

# ----------------------------------------------------------------------------------------------- the model document


def O(**kw):
    return ("object", dict(kw))


def A(*xs):
    return ("array", list(xs))


def VObj(o):
    return ("ctor", "Value", "Object", [o])


def VArr(a):
    return ("ctor", "Value", "Array", [a])


def VInt(n):
    return ("ctor", "Value", "Int", [n])


def _doc():
    inner = ("object", {"d": VInt(2), "e[0]": VInt(21), "": VInt(22)})
    deep = ("object", {"b": VInt(1), "c": VArr(A(VInt(10), VObj(inner), VArr(A(VInt(11), VInt(12))))), "e[0]": VInt(5), "l": VArr(A(VInt(30))), "": VInt(6), "0": VInt(7)})
    root = {
        "a": VObj(deep),
        "l": VArr(A(VInt(1), VArr(A(VInt(2), VInt(3))), VObj(inner))),
        "l[1]": VArr(A(VInt(40), VInt(41))),
        "l[0]": VInt(42),
        "s": VInt(7),
        "a[0]": VInt(9),
        "x]": VInt(3),
        "[0]": VInt(13),
        "": VObj(("object", {"": VInt(4), "z": VInt(14)})),
        "a.b": VInt(8),
        "0": VInt(15),
        "b": VInt(16),
        "d": VInt(17),
        "e": VArr(A(VInt(50))),
        "c": VArr(A(VInt(60), VInt(61))),
    }
    return ("object", root)


KEYS = [
    "a", "s", "l", "q", "", "a.b", "a.c", "a.q", "a.b.c", "s.t", "q.a", "l.0", "a.c.0", "a.0", "a.", ".a", ".", "..", "a..b", ".z", "a.b.", "b", "d", "0",
    "l[0]", "l[1]", "l[2]", "l[3]", "l[9]", "a.c[0]", "a.c[1]", "a.c[1].d", "a.c[2]", "a.c[3]", "a.c[1].q", "a.c[0].d", "l[2].d", "l[2].e[0]", "a.l[0]", "a.l[1]",
    "s[0]", "a[0]", "a.b[0]", "q[0]", "a.q[0]", "l[1][0]", "l[1][1]", "l[0][0]", "a.c[2][0]", "a.c[2][1]", "l[1].x", "l[0].x",
    "l[x]", "l[]", "l[-1]", "l[+1]", "l[01]", "l[ 1]", "l[1 ]", "l[1", "l]1[", "l[1]]", "l[[1]", "[0]", "[1]", "]", "[", "[]", "x]", "l[0]x", "xl[0]", "l[18446744073709551616]",
    "q.s", "a.q.s", "a.b.s", "s.t.s", "q.a.b", "a.q.b", "q.q.s", "a.b.b", "q.l",
    "l[9].s", "q[0].s", "s[0].s", "l[x].s", "l[0].s", "l[1][0].s", "a.c[9].b", "a.c[0].b", "q[0].l[0]",
    "a.e[0]", "e[0]", "c[1]", "c[2]", "a.c[1].e[0]", "a[0].b", "l[1].0", "a.b.c[0]", "s.t[0]", "a.c[0][0]", "l[2][0]", "a.[0]", "a.c[1].", "l[0].", "l[1].[0]",
]


# ----------------------------------------------------------------------------------------------- the specification

def _parse_usize(t):
    if re.fullmatch(r"\+?[0-9]+", t) and int(t) < 2 ** 64:
        return int(t)
    return None


def spec_find(root, key):
    """the documented path language: dotted segments, `name[i]` indexes the array `name`; every failing step is None"""
    cur = None  # None = at the root
    for seg in key.split("."):
        if cur is None:
            obj = root
        elif cur[0] == "ctor" and cur[2] == "Object":
            obj = cur[3][0]
        else:
            return None
        if seg.endswith("]") and "[" in seg:
            parts = seg.split("[")
            name = parts[0]
            idx = _parse_usize(parts[1][:-1]) if parts[1].endswith("]") else None
            if idx is None or len(parts) > 2:
                return None
            got = obj[1].get(name)
            if got is None or not (got[0] == "ctor" and got[2] == "Array"):
                return None
            items = got[3][0][1]
            if idx >= len(items):
                return None
            cur = items[idx]
        else:
            got = obj[1].get(seg)
            if got is None:
                return None
            cur = got
    return cur


# ----------------------------------------------------------------------------------------------- the evaluator

class It:
    """a stateful iterator over model items"""

    def __init__(self, items):
        self.items = list(items)

    def __repr__(self):
        return "It(%r)" % (self.items,)


def _s(v):
    if isinstance(v, str):
        return v
    if isinstance(v, tuple) and len(v) == 2 and v[0] == "lit" and isinstance(v[1], str):
        return v[1]
    raise Unrecognised("not a string: %r" % (v,))


def _opt(v):
    return None if v is None else ("some", v)


class FindModel(Model):
    def __init__(self, F):
        super().__init__(lambda i: None, steps=200000)
        self.F = F
        self.calls = {}
        self._frames = []

    def closure(self, n, args, env):
        n = peel(n)
        if n.get("k") == "Zst" and n.get("fn"):
            return self.apply_path(n["fn"], args)
        if n.get("k") != "Closure":
            raise Unrecognised("callable " + str(n.get("k")))
        clo = self.F.fns.get(n["def"])
        if clo is None or clo.thir is None:
            raise Unrecognised("closure body")
        ps = [p for p in clo.thir["params"] if p.get("pat") is not None]
        if len(ps) != len(args):
            raise Unrecognised("closure arity")
        e2 = dict(env)
        for p, a in zip(ps, args):
            if not self.bind(p["pat"], a, e2):
                raise Unrecognised("closure parameter pattern")
        try:
            return self.ev(clo.body, e2)
        except Ret as r:
            return r.v

    def apply_path(self, fn, args):
        if fn.endswith(("Option::Some", "v1::Some")):
            return ("some", args[0])
        raise Unrecognised("function value " + fn)

    def ev(self, n, env):
        n0 = peel(n)
        k = n0.get("k")
        if k == "__val":
            return n0["v"]
        if k == "Try":
            v = self.ev(n0["arg"], env)
            if v is None:
                raise Ret(None)
            if isinstance(v, tuple) and v and v[0] == "some":
                return v[1]
            if isinstance(v, tuple) and v and v[0] == "ok":
                return v[1]
            if isinstance(v, tuple) and v and v[0] == "err":
                raise Ret(v)
            raise Unrecognised("`?` on %r" % (v,))
        if k == "Lit":
            l = lit(n0)
            if l and l[0] in ("s", "c"):
                return l[1]
        if k == "For":
            it = self.ev(n0["iter"], env)
            if isinstance(it, tuple) and it and it[0] == "seq":
                it = It(it[1])
            if isinstance(it, It):
                from tri import Brk, Cont
                while it.items:
                    x = it.items.pop(0)
                    try:
                        if not self.bind(n0["pat"], x, env):
                            raise Unrecognised("loop pattern")
                        self.ev(n0["body"], env)
                    except Brk:
                        break
                    except Cont:
                        continue
                return ()
        if k == "Index":
            return self.index(self.ev(n0["arg"], env), self.ev(n0["index"], env))
        if k == "Call":
            # one frame of evaluated arguments per call node: an argument with side effects (an iterator being advanced) is evaluated once,
            # however many handlers look at it
            self._frames.append({})
            try:
                r = self.call(n0, env)
                if r is NotImplemented:
                    cached = self._frames[-1]
                    if cached:
                        # the generic evaluator would evaluate the arguments again: hand it the values instead
                        r = self.generic_call(n0, env, cached)
            finally:
                self._frames.pop()
            if r is not NotImplemented:
                return r
        return super().ev(n, env)

    def arg(self, n, i, env):
        fr = self._frames[-1]
        if i not in fr:
            fr[i] = self.ev(n["args"][i], env)
        return fr[i]

    def generic_call(self, n, env, cached):
        """the base evaluator's call handling, on a copy of the node whose already evaluated arguments are constants"""
        args = [({"k": "__val", "v": cached[i]} if i in cached else a) for i, a in enumerate(n["args"])]
        return Model.ev(self, dict(n, args=args), env)

    def index(self, base, idx):
        if isinstance(idx, tuple) and len(idx) == 3 and idx[0] == "rec" and idx[1].startswith("Range"):
            d_ = dict(idx[2])  # a range written as a struct literal: the same as the constructor form
            idx = ("ctor", idx[1], idx[1], [d_[k_] for k_ in ("start", "end") if k_ in d_])
        if isinstance(base, str) or (isinstance(base, tuple) and base and base[0] == "lit"):
            b = _s(base).encode()
            if isinstance(idx, tuple) and idx and idx[0] == "range" and isinstance(idx[1], int) and isinstance(idx[2], int) and 0 <= idx[1] <= idx[2] <= len(b):
                return b[idx[1]:idx[2]].decode()
            if isinstance(idx, tuple) and idx and idx[0] == "ctor" and idx[1] in ("Range", "RangeTo", "RangeFrom", "RangeFull", "RangeInclusive", "RangeToInclusive"):
                vals = idx[3]
                if idx[1] == "RangeTo" and isinstance(vals[0], int) and 0 <= vals[0] <= len(b):
                    return b[:vals[0]].decode()
                if idx[1] == "RangeFrom" and isinstance(vals[0], int) and 0 <= vals[0] <= len(b):
                    return b[vals[0]:].decode()
                if idx[1] == "RangeFull":
                    return b.decode()
                if idx[1] == "Range" and len(vals) == 2 and all(isinstance(v_, int) for v_ in vals) and 0 <= vals[0] <= vals[1] <= len(b):
                    return b[vals[0]:vals[1]].decode()
            raise Unrecognised("string index (a panic in the model) %r[%r]" % (base, idx))
        raise Unrecognised("index %r[%r]" % (base, idx))

    def call(self, n, env):
        fn = n.get("fn") or ""
        args = n["args"]
        last = fn.split("::")[-1]
        A_ = lambda i: self.arg(n, i, env)
        if fn.endswith("Index::index") and len(args) == 2:
            b0 = A_(0)
            if isinstance(b0, str) or (isinstance(b0, tuple) and b0 and b0[0] in ("lit", "seq")):
                return self.index(b0, A_(1))
        # ---- documents
        if fn.endswith("Object::get") and len(args) == 2:
            o, key = A_(0), _s(A_(1))
            if isinstance(o, tuple) and o and o[0] == "ctor" and o[2] == "Object":
                o = o[3][0]
            if isinstance(o, tuple) and o and o[0] == "object":
                return _opt(o[1].get(key))
            raise Unrecognised("get on %r" % (o,))
        if fn.endswith("Array::iter") and len(args) == 1:
            a = A_(0)
            if isinstance(a, tuple) and a and a[0] == "array":
                return It(a[1])
            raise Unrecognised("iter on %r" % (a,))
        if fn.endswith("Array::len") and len(args) == 1:
            a = A_(0)
            if isinstance(a, tuple) and a and a[0] == "array":
                return len(a[1])
        if fn.endswith(("Value::as_object", "Value::as_array")) and len(args) == 1:
            v = A_(0)
            want = "Object" if fn.endswith("as_object") else "Array"
            if isinstance(v, tuple) and v and v[0] == "ctor" and v[1] == "Value":
                return ("some", v[3][0]) if v[2] == want else None
        # ---- iterators
        if fn.endswith("Iterator::next") and len(args) == 1:
            it = A_(0)
            if isinstance(it, It):
                return _opt(it.items.pop(0)) if it.items else None
        if fn.endswith(("Iterator::nth", "Iterator::skip", "Iterator::take")) and len(args) == 2:
            it, c = A_(0), A_(1)
            if isinstance(it, It) and isinstance(c, int) and not isinstance(c, bool) and c >= 0:
                if last == "nth":
                    drop, it.items = it.items[:c + 1], it.items[c + 1:]
                    return _opt(drop[c]) if len(drop) == c + 1 else None
                if last == "skip":
                    return It(it.items[c:])
                return It(it.items[:c])
        if fn.endswith(("Iterator::count", "ExactSizeIterator::len")) and len(args) == 1:
            it = A_(0)
            if isinstance(it, It):
                return len(it.items)
        if fn.endswith(("Iterator::last",)) and len(args) == 1:
            it = A_(0)
            if isinstance(it, It):
                return _opt(it.items[-1]) if it.items else None
        if fn.endswith("Iterator::peekable") or fn.endswith("IntoIterator::into_iter") or fn.endswith("Iterator::by_ref") or fn.endswith("Iterator::fuse"):
            v = A_(0)
            if isinstance(v, It):
                return v
            if isinstance(v, tuple) and v and v[0] in ("list", "vec"):
                return It(v[1])
        if fn.endswith("::peek") and len(args) == 1:
            it = A_(0)
            if isinstance(it, It):
                return _opt(it.items[0]) if it.items else None
        if fn.endswith("Iterator::collect") and len(args) == 1:
            it = A_(0)
            if isinstance(it, It):
                return ("vec", list(it.items))
        # ---- strings
        if "str" in fn or "String" in fn:
            try:
                recv = _s(A_(0)) if args else None
            except Unrecognised:
                recv = None
            if recv is not None:
                if last in ("split", "rsplit") and len(args) == 2:
                    parts = recv.split(_s(A_(1)))
                    return It(parts if last == "split" else parts[::-1])
                if last in ("splitn", "rsplitn") and len(args) == 3:
                    c, sep = A_(1), _s(A_(2))
                    if isinstance(c, int) and c >= 1:
                        return It(recv.split(sep, c - 1) if last == "splitn" else recv.rsplit(sep, c - 1)[::-1])
                if last in ("split_once", "rsplit_once") and len(args) == 2:
                    sep = _s(A_(1))
                    i = recv.find(sep) if last == "split_once" else recv.rfind(sep)
                    return None if i < 0 else ("some", (recv[:i], recv[i + len(sep):]))
                if last in ("ends_with", "starts_with", "contains") and len(args) == 2:
                    p = _s(A_(1))
                    return {"ends_with": recv.endswith(p), "starts_with": recv.startswith(p), "contains": p in recv}[last]
                if last in ("strip_suffix", "strip_prefix") and len(args) == 2:
                    p = _s(A_(1))
                    if last == "strip_suffix":
                        return ("some", recv[:len(recv) - len(p)]) if recv.endswith(p) else None
                    return ("some", recv[len(p):]) if recv.startswith(p) else None
                if last in ("trim_end_matches", "trim_start_matches", "trim_matches") and len(args) == 2:
                    p = _s(A_(1))
                    out = recv
                    if p:
                        while last != "trim_start_matches" and out.endswith(p):
                            out = out[:len(out) - len(p)]
                        while last != "trim_end_matches" and out.startswith(p):
                            out = out[len(p):]
                    return out
                if last in ("find", "rfind") and len(args) == 2:
                    p = _s(A_(1))
                    i = recv.find(p) if last == "find" else recv.rfind(p)
                    return None if i < 0 else ("some", len(recv[:i].encode()))
                if last == "len" and len(args) == 1:
                    return len(recv.encode())
                if last == "is_empty" and len(args) == 1:
                    return recv == ""
                if last == "parse" and len(args) == 1:
                    g = (n.get("gen") or [""])
                    if any("usize" in x or "u64" in x for x in g):
                        v = _parse_usize(recv)
                        return ("ok", v) if v is not None else ("err", "parse")
                    raise Unrecognised("parse into " + str(g))
                if last in ("as_str", "as_ref", "to_string", "to_owned", "deref", "borrow", "clone") and len(args) == 1:
                    return recv
                if last == "matches" and len(args) == 2:
                    p = _s(A_(1))
                    return It([p] * recv.count(p)) if p else NotImplemented
                if last in ("chars",) and len(args) == 1:
                    return It(list(recv))
        if last in ("eq", "ne") and len(args) == 2 and ("PartialEq" in fn or "cmp" in fn):
            a, b = A_(0), A_(1)
            try:
                a, b = _s(a), _s(b)
            except Unrecognised:
                pass
            return (a == b) if last == "eq" else (a != b)
        # ---- Option / Result plumbing
        if fn.endswith(("Result::<T, E>::ok", "<T, E>::ok")) and len(args) == 1:
            v = A_(0)
            if isinstance(v, tuple) and v and v[0] in ("ok", "err"):
                return ("some", v[1]) if v[0] == "ok" else None
        if last in ("and_then", "map", "filter", "or_else", "unwrap_or_else", "map_or", "is_some_and", "ok_or", "ok_or_else", "unwrap_or", "unwrap_or_default", "flatten", "zip", "then", "then_some") and args:
            v = A_(0)
            isopt = v is None or (isinstance(v, tuple) and v and v[0] == "some")
            if "Option" in fn or (isopt and ("<T>::" in fn or "option" in fn)):
                if not isopt:
                    raise Unrecognised("%s on %r" % (last, v))
                if last == "and_then" and len(args) == 2:
                    return None if v is None else self.closure(args[1], [v[1]], env)
                if last == "map" and len(args) == 2:
                    return None if v is None else ("some", self.closure(args[1], [v[1]], env))
                if last == "filter" and len(args) == 2:
                    return v if v is not None and self.truth(self.closure(args[1], [v[1]], env)) else None
                if last == "or_else" and len(args) == 2:
                    return v if v is not None else self.closure(args[1], [], env)
                if last == "unwrap_or_else" and len(args) == 2:
                    return v[1] if v is not None else self.closure(args[1], [], env)
                if last == "unwrap_or" and len(args) == 2:
                    return v[1] if v is not None else A_(1)
                if last == "map_or" and len(args) == 3:
                    return A_(1) if v is None else self.closure(args[2], [v[1]], env)
                if last == "is_some_and" and len(args) == 2:
                    return v is not None and self.truth(self.closure(args[1], [v[1]], env))
                if last == "flatten" and len(args) == 1:
                    return None if v is None else v[1]
                if last == "zip" and len(args) == 2:
                    w = A_(1)
                    return ("some", (v[1], w[1])) if v is not None and w is not None else None
                if last in ("ok_or", "ok_or_else"):
                    return ("ok", v[1]) if v is not None else ("err", "none")
            if isinstance(v, bool) and last in ("then", "then_some") and len(args) == 2:
                if not v:
                    return None
                return ("some", self.closure(args[1], [], env) if last == "then" else A_(1))
        if last in ("is_ok", "is_err") and len(args) == 1:
            v = A_(0)
            if isinstance(v, tuple) and v and v[0] in ("ok", "err"):
                return (v[0] == "ok") == (last == "is_ok")
        if fn.endswith(("convert::From::from", "convert::Into::into")) and len(args) == 1:
            return A_(0)
        return NotImplemented


def evaluate(F, f):
    """-> (rows, unrecognised): rows = [(key, expected, got, agree)], or unrecognised = text of the first construct outside the subset"""
    params = [strip_ref(p["pat"]) for p in f.thir["params"] if p.get("pat")]
    if len(params) != 2 or any(p.get("k") != "Bind" for p in params):
        return None, "parameters"
    self_id, key_id = params[0]["id"], params[1]["id"]
    rows = []
    for key in KEYS:
        root = _doc()
        want = spec_find(root, key)
        m = FindModel(F)
        env = {self_id: root, key_id: key}
        try:
            try:
                got = m.ev(f.body, env)
            except Ret as r:
                got = r.v
        except Unrecognised as e:
            return None, "%s (key %r)" % (str(e)[:160], key)
        except (KeyError, IndexError, TypeError, AttributeError, ValueError) as e:
            return None, "evaluator error %r (key %r)" % (e, key)
        if got is not None and not (isinstance(got, tuple) and got and got[0] == "some"):
            return None, "result %r is not an Option (key %r)" % (got, key)
        gv = None if got is None else got[1]
        rows.append((key, want, gv, gv == want))
    return rows, None
