"""C04 Loading arbitrary text returns a rule or an error, never a panic.

PANIC     every panic/overflow-capable site reachable from the loading entry points is discharged by a named rule
PROGRESS  every cycle of the tokeniser's main loop consumes at least one char or returns; the Pratt loop consumes a token per cycle
"""
import unicodedata

import facts
import panic
import q
from facts import walk, walk_with_path, peel, call_is, unblock, variant_of, strip_ref, subpat, pat_str, lit, or_pats
from show import show, show_fn


# ---- evaluation of char predicates (closure bodies) on concrete chars, with std's ASCII tables

def char_pred(F, closure_name):
    f = F.fn(closure_name)
    if f is None:
        return None
    params = [p["pat"] for p in f.thir["params"] if p["pat"] is not None]
    cid = None
    for p in params:
        if p.get("k") == "Bind" and p["ty"] == "char":
            cid = p["id"]
    body = f.body

    def ev(n, ch):
        n = unblock(n)
        k = n.get("k")
        if k == "Logical":
            a = ev(n["lhs"], ch)
            if n["op"] == "Or":
                return a or ev(n["rhs"], ch)
            return a and ev(n["rhs"], ch)
        if k == "Binary" and n["op"] in ("Eq", "Ne"):
            l, r = peel(n["lhs"]), peel(n["rhs"])
            if q.var_id(l) == cid and lit(r) and lit(r)[0] == "c":
                return (ch == lit(r)[1]) == (n["op"] == "Eq")
            raise ValueError("comparison " + show(n))
        if k == "Unary" and n["op"] == "Not":
            return not ev(n["arg"], ch)
        if k == "Lit" and lit(n) and lit(n)[0] == "bool":
            return lit(n)[1]
        if k == "Match" and q.var_id(n["scrut"]) == cid:
            # `matches!(c, 'a'..='z' | '_')` and friends: the first arm whose pattern holds the char decides
            for a in n["arms"]:
                pt = strip_ref(a["pat"])
                hit = pt.get("k") in ("Wild", "Bind") or ch in arm_chars(a["pat"])
                if hit and (a.get("guard") is None or ev(a["guard"], ch)):
                    return ev(a["body"], ch)
            raise ValueError("no arm for %r" % ch)
        if k == "Call" and n.get("fn") and q.var_id(n["args"][0]) == cid:
            fn = n["fn"].split("::")[-1]
            o = ord(ch)
            table = {
                "is_numeric": lambda: unicodedata.category(ch) in ("Nd", "Nl", "No"),
                "is_alphanumeric": lambda: ch.isalpha() or unicodedata.category(ch) in ("Nd", "Nl", "No"),
                "is_alphabetic": lambda: ch.isalpha(),
                "is_ascii_digit": lambda: 48 <= o <= 57,
                "is_ascii_alphabetic": lambda: 65 <= o <= 90 or 97 <= o <= 122,
                "is_ascii_alphanumeric": lambda: 48 <= o <= 57 or 65 <= o <= 90 or 97 <= o <= 122,
                "is_ascii_whitespace": lambda: o in (0x20, 0x09, 0x0A, 0x0C, 0x0D),
                "is_whitespace": lambda: ch.isspace() and o not in (0x1c, 0x1d, 0x1e, 0x1f),
                "is_ascii_punctuation": lambda: 33 <= o <= 47 or 58 <= o <= 64 or 91 <= o <= 96 or 123 <= o <= 126,
            }
            if fn in table:
                return table[fn]()
        raise ValueError("predicate outside the known char tables: " + show(n)[:60])

    return lambda ch: ev(body, ch)


def arm_chars(pat):
    """Finite char set of a tokeniser arm pattern (char constants and ranges)."""
    out = set()
    for p in or_pats(pat):
        p = strip_ref(p)
        if p.get("k") == "Const":
            v = p["v"]
            out.add(_unq(v))
        elif p.get("k") == "Range":
            lo, hi = p["v"].split("..=")
            for o in range(ord(_unq(lo)), ord(_unq(hi)) + 1):
                out.add(chr(o))
        elif p.get("k") == "Wild":
            return None
        else:
            raise ValueError("pattern " + pat_str(p))
    return out


def _unq(v):
    v = v.strip()
    if v.startswith("'") and v.endswith("'"):
        v = v[1:-1]
    esc = {"\\t": "\t", "\\n": "\n", "\\r": "\r", "\\'": "'", "\\\\": "\\", "\\0": "\0"}
    if v in esc:
        return esc[v]
    if v.startswith("\\u{"):
        return chr(int(v[3:-1], 16))
    if v.startswith("\\x"):
        return chr(int(v[2:], 16))
    return v


def run_panic(rep, F, sets, floor, extra_rules=(), lemma_ok=None):
    G = panic.CallGraph(F)
    E = panic.entry_sets(F)
    roots = []
    for s in sets:
        roots += E[s]
    R = G.reach(roots)
    cache = {}
    seen_keys = {}
    done = set()
    n = 0
    per_rule = {}
    for fn in sorted(R):
        for s in panic.sites_of(F, fn):
            if (s.fn, s.sp, s.kind, s.callee) in done:
                continue
            done.add((s.fn, s.sp, s.kind, s.callee))
            n += 1
            located = panic.locate(F, s, cache)
            key = panic.site_key(s, seen_keys)
            if not located:
                rep.bad("PANIC", key, s.sp, "site is mapped to a typed-tree node", "MIR site %s %s has no THIR node with the same span" % (s.kind, s.callee))
                continue
            res = None
            if F.fns[s.fn].is_helper(tail=True) or "::{closure#" in s.fn:
                # a small helper is inlined at its call sites: the site must be safe in every caller's context
                copies = []
                for g in sorted(R):
                    if g == s.fn or F.fns[g].thir is None:
                        continue
                    if F.fns[g].is_helper(tail=True) or "::{closure#" in g:
                        continue  # itself only a fragment that is inlined elsewhere: its callers' copies are the ones that count
                    if g not in cache:
                        cache[g] = panic.index_by_span(F.fns[g])
                    for node, path in cache[g].get(s.sp, []):
                        if node.get("k") == s.node.get("k") or (node.get("folded") and s.node.get("k") == "Binary"):
                            c = panic.Site(g, s.kind, s.callee, s.sp, s.detail, s.exp)
                            c.node, c.path = node, path
                            copies.append(c)
                if copies:
                    rs = [panic.discharge(F, c, extra_rules) for c in copies]
                    if all(rs):
                        res = (rs[0][0], rs[0][1] + " [checked in %d inlined cop%s of helper %s]" % (len(copies), "y" if len(copies) == 1 else "ies", s.fn))
                    else:
                        res = None
                else:
                    res = panic.discharge(F, s, extra_rules)
            else:
                res = panic.discharge(F, s, extra_rules)
            if res:
                rule, why = res
                per_rule[rule] = per_rule.get(rule, 0) + 1
                rep.ok("PANIC", key, s.sp, "%s %s cannot fire" % (s.kind, s.callee.split("::")[-1]), "%s: %s" % (rule, why))
            else:
                rep.bad("PANIC", key, s.sp, "%s %s is guarded by a recognised discipline" % (s.kind, s.callee.split("::")[-1]),
                        "undischarged panic-capable site in %s: %s" % (s.fn, show(s.node)[:100]))
    rep.extra["reachable_functions"] = len(R)
    rep.extra["panic_sites"] = n
    rep.extra["discharge_rules_used"] = per_rule
    if n < floor:
        rep.lost("PANIC", "PANIC/floor", "at least %d panic-capable sites enumerated (counted by hand on the pinned tree)" % floor, "found %d" % n)
    return R


CONSUMING = ("Iterator::next", "::next_if", "::next_if_eq", "Iterator::nth", "MapAccess::next_key", "MapAccess::next_entry", "MapAccess::next_value", "SeqAccess::next_element",
             "Vec::<T, A>::pop", "VecDeque::<T, A>::pop_front", "VecDeque::<T, A>::pop_back", "DoubleEndedIterator::next_back", "Chars::<'a>::next")


def _consumes(F, x, src):
    """x takes at least one item out of the iterator / collection variable `src` (directly, or as the first thing a local function does)"""
    if x.get("k") != "Call" or not x.get("fn"):
        return False
    if any(x["fn"].endswith(c) for c in CONSUMING) and x["args"] and q.base_var(x["args"][0]) == src:
        return True
    if x.get("local") and x["fn"] in F.fns and F.fns[x["fn"]].thir is not None:
        callee = F.fns[x["fn"]]
        ps = [strip_ref(p["pat"]).get("id") if p.get("pat") else None for p in callee.thir["params"]]
        for a, pid in zip(x["args"], ps):
            if q.base_var(a) == src and pid is not None:
                b = unblock(callee.body)
                if b.get("k") == "Match" and any(call_is(peel(b["scrut"]), c) for c in CONSUMING) and q.base_var(peel(b["scrut"])["args"][0]) == pid:
                    return True
    return False


def loop_progress(F, lp):
    """-> (ok, why) for a `loop` node (while / while-let are `loop { if COND {..} else {break} }` in the facts)"""
    b = unblock(lp["body"])
    while b.get("k") == "Block" and not b["stmts"] and b.get("expr") is not None:
        b = unblock(b["expr"])
    if not (b.get("k") == "If" and b.get("else") is not None and any(x.get("k") == "Break" for x in walk(b["else"]))):
        return False, "not a conditional loop the rule knows: " + show(lp)[:60]
    cond = peel(b["cond"])
    tested = peel(cond["arg"]) if cond.get("k") == "LetCond" else cond
    while tested.get("k") == "Try":
        tested = peel(tested["arg"])
    calls = [x for x in walk(tested) if x.get("k") == "Call" and x.get("fn")]
    for x in calls:
        if any(x["fn"].endswith(c) for c in CONSUMING) and x["args"] and q.base_var(x["args"][0]) is not None:
            return True, "the condition itself takes the next item (%s)" % x["fn"].split("::")[-1]
    for x in calls:
        if x["fn"].endswith(("::peek", "::peek_mut", "::last", "::first", "::is_empty", "::len")) and x["args"] and q.base_var(x["args"][0]) is not None:
            src = q.base_var(x["args"][0])
            if q.every_cycle_calls(lp, lambda y: _consumes(F, y, src)):
                return True, "the condition looks at the source and every cycle takes an item from it"
            return False, "a cycle can come back to `%s` without taking an item from the source" % show(tested)[:50]
    if tested.get("k") == "Binary" and tested["op"] in ("Lt", "Le", "Gt", "Ge", "Ne"):
        for side in ("lhs", "rhs"):
            v = q.var_id(tested[side])
            if v is not None and q.every_cycle_calls(lp, lambda y: y.get("k") == "AssignOp" and y["op"] in ("AddAssign", "SubAssign") and q.var_id(y["lhs"]) == v and lit(y["rhs"]) and lit(y["rhs"])[0] == "i" and lit(y["rhs"])[1] > 0):
                return True, "the compared counter moves by a constant step in every cycle"
    return False, "no progress argument for the condition `%s`" % show(tested)[:60]


def d_table_len(F, s):
    """`word.len() - k` where `word` is the first component of a row found in a constant table of string literals that are all at least k long"""
    n = s.node
    if not (n.get("k") == "Binary" and n["op"] == "Sub" and lit(n["rhs"]) and lit(n["rhs"])[0] == "i" and call_is(peel(n["lhs"]), "::len")):
        return None
    wid = q.base_var(peel(n["lhs"])["args"][0])
    k = lit(n["rhs"])[1]
    for e in q.context(s.path, n):
        if e[0] != "if" or not e[2] or peel(e[1]).get("k") != "LetCond":
            continue
        lc = peel(e[1])
        fnd = peel(lc["arg"])
        if not (call_is(fnd, "Iterator::find") and variant_of(lc["pat"]) == ("Option", "Some")):
            continue
        pat = strip_ref(subpat(lc["pat"], 0))
        if not (pat is not None and pat.get("k") == "Leaf" and any(sp_["i"] == 0 and strip_ref(sp_["p"]).get("id") == wid for sp_ in pat["sub"])):
            continue
        src = peel(fnd["args"][0])
        while src.get("k") == "Call" and (src.get("fn") or "").endswith(("::iter", "IntoIterator::into_iter", "Deref::deref")) and len(src["args"]) == 1:
            src = peel(src["args"][0])
        if src.get("k") == "Array" and src.get("const") and src["fields"]:
            words = [lit(peel(r)["fields"][0]) for r in src["fields"] if peel(r).get("k") == "Tuple" and peel(r)["fields"]]
            if len(words) == len(src["fields"]) and all(w and w[0] == "s" and len(w[1].encode()) >= k for w in words):
                return ("D-TABLE-LEN", "every word of the constant table %s is at least %d bytes long" % (src.get("const"), k))
    return None


def d_tokens_index(F, s):
    """tokens[i - 2] inside `for token in &tokens` where i counts the iterations."""
    n = s.node
    if s.kind != "index" or not (n.get("k") == "Call" and len(n["args"]) == 2):
        return None
    vec = q.var_id(n["args"][0])
    idx = peel(n["args"][1])
    if not (idx.get("k") == "Binary" and idx["op"] == "Sub" and lit(idx["rhs"]) and lit(idx["rhs"])[1] >= 1):
        return None
    ivar = q.var_id(idx["lhs"])
    fors = [p for p in s.path if p.get("k") == "For" and q.loop_over(p)[0] == vec]
    if not fors or ivar is None or vec is None:
        return None
    loop = fors[-1]
    body = F.fns[s.fn].body
    ctr = q.counter_of(body, loop, ivar=ivar, exact=False)
    if ctr is None:
        return None
    sub = panic.d_subguard(F, type("S", (), {"node": idx, "path": s.path + (n,)})())
    if not sub:
        return None
    return ("D-INDEX-PREFIX", "index = (iterations so far, %s counter) - %d with `%s`: below the length of the vector being iterated" % (ctr["kind"], lit(idx["rhs"])[1], sub[1]))


def _d_tokens_index_old(F, s, n, idx, ivar, loop, body):
    # i is initialised to 0 before the loop and only modified by `i += 1` inside this loop
    init = [st for x in walk(body) if x.get("k") == "Block" for st in x["stmts"] if st["k"] == "Let" and st["pat"].get("k") == "Bind" and st["pat"]["id"] == ivar]
    if len(init) != 1 or lit(init[0]["init"]) != ("i", 0):
        return None
    mods = [x for x in walk(body) if x.get("k") in ("Assign", "AssignOp") and q.var_id(x["lhs"]) == ivar]
    if not mods or not all(x.get("k") == "AssignOp" and x["op"] == "AddAssign" and lit(x["rhs"]) == ("i", 1) and q.contains(loop["body"], x) for x in mods):
        return None
    # at most one increment per iteration: each is the last statement of the loop body or is directly followed by `continue`
    for blk in walk(loop["body"]):
        if blk.get("k") != "Block":
            continue
        st = blk["stmts"]
        for i, x in enumerate(st):
            if x["k"] == "Expr" and x["e"] in mods or (x["k"] == "Expr" and any(x["e"] is m for m in mods)):
                last_of_loop = blk is unblock_block(loop["body"]) and i == len(st) - 1 and not blk.get("expr")
                nxt = st[i + 1]["e"] if i + 1 < len(st) and st[i + 1]["k"] == "Expr" else blk.get("expr") if i + 1 == len(st) else None
                followed = nxt is not None and peel(nxt).get("k") == "Continue"
                if not (last_of_loop or followed):
                    return None
    sub = panic.d_subguard(F, type("S", (), {"node": idx, "path": s.path + (n,)})())
    if not sub:
        return None
    return ("D-INDEX-PREFIX", "index = (iterations so far) - %d with `%s`: below the length of the vector being iterated" % (lit(idx["rhs"])[1], sub[1]))


def unblock_block(n):
    n = peel(n)
    while n.get("k") == "Block" and not n["stmts"] and n.get("expr") and peel(n["expr"]).get("k") == "Block":
        n = peel(n["expr"])
    return n


def run(rep):
    F = facts.load("A")
    rep.configs = ["A(core,json)"]
    rep.explanation = (
        "'Never panics' is a statement about all inputs that static analysis can decide site by site: the check enumerates, on the MIR of "
        "every function reachable from the loading entry points (Rule::from_str/from_value/load, the serde visitors, tokenise, "
        "into_identifier, parse_identifier, parse) through the type-resolved call graph, every call to unwrap/expect/panic!/index and every "
        "overflow/bounds assertion, maps each to its typed-tree node and requires a named discharge rule to hold on its context (dominating "
        "guard on the same value, lockstep vectors, fresh split iterator, unit-step counter, reviewed external fact).  Termination of the "
        "tokeniser is checked as a progress rule: every arm of its main loop consumes a char or returns, with the arm's own finite char set "
        "evaluated against the consuming predicate.  Stack depth and allocation failure are out of scope (the property bounds nesting)."
    )
    rep.describe("PANIC", "every reachable panic-capable site (MIR inventory) is discharged by a named rule on its typed-tree context")
    rep.describe("PROGRESS", "each cycle of tokenise's loop consumes >= 1 char or returns; parse_expr's loop consumes a token per cycle")
    import core
    core.import_rules(rep, "c07", {"LOCKSTEP"})
    import c07
    panic.LOCKSTEP_PAIR_IDS = {(r[1], r[0]) for r in c07.lockstep_roles(F).values()}
    panic.LOCKSTEP_OK = all(i.status == "discharged" for i in rep.instances if i.rule == "LOCKSTEP") and any(i.rule == "LOCKSTEP" for i in rep.instances)
    R = run_panic(rep, F, ["LOAD"], floor=20, extra_rules=(d_tokens_index, d_table_len))
    # ---------------------------------------------------------------- PROGRESS
    tk_loops = []
    tk = F.fn("<std::string::String as tokeniser::Tokeniser>::tokenise")
    if tk is None:
        rep.lost("PROGRESS", "PROGRESS/anchor", "String::tokenise")
    else:
        main = None
        for n in walk(tk.body):
            if n.get("k") == "Match" and len(n["arms"]) >= 8 and n["scrut"].get("ty") == "char":
                main = n
        loops = [n for n in walk(tk.body) if n.get("k") == "Loop"]
        tk_loops = loops if len(loops) == 1 and main is not None else []
        okloop = False
        it_id = None
        if len(loops) == 1:
            b = unblock(loops[0]["body"])
            if b.get("k") == "If" and peel(b["cond"]).get("k") == "LetCond" and call_is(peel(peel(b["cond"])["arg"]), "::peek"):
                it_id = q.var_id(peel(peel(b["cond"])["arg"])["args"][0])
                okloop = b.get("else") is not None and any(x.get("k") == "Break" for x in walk(b["else"]))
        rep.check(okloop and main is not None, "PROGRESS", "PROGRESS/loop-shape", tk.sp, "main loop is `while let Some(&c) = it.peek() { match c {..} }`", "")
        if main is not None and it_id is not None:
            for a in main["arms"]:
                chars = None
                try:
                    chars = arm_chars(a["pat"])
                except ValueError as e:
                    rep.lost("PROGRESS", "PROGRESS/arm/" + pat_str(a["pat"])[:30], "arm pattern is a finite char set", str(e))
                    continue
                key = "PROGRESS/arm/" + pat_str(a["pat"])[:40]

                def consumes(n):
                    """True iff every path through n consumes from `it` or leaves the function."""
                    n = unblock(n)
                    k = n.get("k")
                    if k == "Return":
                        return True
                    if k == "Call":
                        fn = n.get("fn") or ""
                        if (fn.endswith("Iterator::next") or fn.endswith("Iterator::nth")) and q.var_id(n["args"][0]) == it_id:
                            return True
                        if fn.endswith("tokeniser::consume_while") and q.var_id(n["args"][0]) == it_id:
                            clo = peel(n["args"][1])
                            pred = char_pred(F, clo["def"]) if clo.get("k") == "Closure" else None
                            if pred is None or chars is None:
                                raise ValueError("consume_while predicate not analysable")
                            rejected = sorted(c for c in chars if not pred(c))
                            consumes.rejected = rejected
                            return not rejected
                        if n.get("local") and fn in F.fns and F.fns[fn].thir is not None and fn not in ("tokeniser::match_ahead",):
                            # a phase function that is handed the iterator: every way out of it (falling off the end or `return`) has consumed
                            callee = F.fns[fn]
                            pids = [strip_ref(p_["pat"]).get("id") for p_, a_ in zip(callee.thir["params"], n["args"]) if p_.get("pat") is not None and q.base_var(a_) == it_id]
                            if pids:
                                pid = pids[0]

                                def predc(y):
                                    if y.get("k") != "Call" or not y.get("fn") or not y.get("args"):
                                        return False
                                    yf = y["fn"]
                                    if yf.endswith(("Iterator::next", "Iterator::nth")) and q.base_var(y["args"][0]) == pid:
                                        return True
                                    if yf.endswith("tokeniser::consume_while") and q.base_var(y["args"][0]) == pid and len(y["args"]) == 2:
                                        clo_ = peel(y["args"][1])
                                        pr_ = char_pred(F, clo_["def"]) if clo_.get("k") == "Closure" else None
                                        if pr_ is None or chars is None:
                                            return False
                                        rej_ = sorted(c for c in chars if not pr_(c))
                                        if rej_:
                                            consumes.rejected = rej_
                                        return not rej_
                                    return False
                                exits = q.flow(callee.body, predc)
                                if exits and all(c_ for ex_, c_ in exits if ex_ in ("fall", "return")):
                                    return True
                        return any(consumes(x) for x in n["args"])
                    if k == "Block":
                        for s in n["stmts"]:
                            e = s["e"] if s["k"] == "Expr" else s.get("init")
                            if e is not None and consumes(e):
                                return True
                        return bool(n.get("expr")) and consumes(n["expr"])
                    if k == "If":
                        c = n["cond"]
                        if peel(c).get("k") != "LetCond" and consumes(c):
                            return True
                        return consumes(n["then"]) and n.get("else") is not None and consumes(n["else"])
                    if k == "Match":
                        return consumes(n["scrut"]) or all(consumes(x["body"]) for x in n["arms"])
                    if k in ("Try", "Unary", "Cast"):
                        return consumes(n["arg"])
                    if k in ("Binary", "Logical"):
                        return consumes(n["lhs"])  # (the left operand is always evaluated)
                    if k == "Let":
                        return n.get("init") is not None and consumes(n["init"])
                    return False
                consumes.rejected = []
                try:
                    ok = consumes(a["body"])
                    det = None
                    if not ok and consumes.rejected == ["-"]:
                        # the documented exception: '-' is not consumed by the number arm; the empty parse then fails and the function returns Err
                        trys = [x for x in walk(a["body"]) if x.get("k") == "Try" and any(call_is(y, "::parse") for y in walk(x["arg"]))]
                        ifs = [x for x in walk(a["body"]) if x.get("k") == "If"]
                        both = bool(ifs) and all(any(t for t in trys if q.contains(br, t)) for br in (ifs[0]["then"], ifs[0]["else"]))
                        if not both:
                            # the same with the `?` outside: every parse of the collected text is under a `?`
                            parses = [y for y in walk(a["body"]) if call_is(y, "::parse")]
                            both = bool(parses) and all(any(q.contains(t["arg"], y) for t in trys) for y in parses)
                        if both:
                            ok = True
                            det = "'-' is rejected by the predicate: the collected text is empty, both branches parse it with `?`, so the function returns Err (single listed exception)"
                    if not ok:
                        det = "arm can complete a cycle without consuming: chars rejected by the consuming predicate: %r" % consumes.rejected
                    rep.check(ok, "PROGRESS", key, a["sp"], "every path through the arm consumes from the iterator or returns", det)
                except ValueError as e:
                    rep.lost("PROGRESS", key, "arm is inside the progress grammar", str(e))
        cw = F.fn("tokeniser::consume_while")
        if cw is not None:
            s = show_fn(cw)
            loops = [x for x in walk(cw.body) if x.get("k") in ("Loop", "For")]
            ok = len(loops) == 1 and loop_progress(F, loops[0])[0]
            rep.check(ok, "PROGRESS", "PROGRESS/consume_while", cw.sp, "consume_while: every cycle that does not leave the loop consumes a char from the iterator", s[:80])
    pe = F.fn("parser::parse_expr")
    pl = F.fn("parser::parse_led")
    pn = F.fn("parser::parse_nud")
    for f, nm in ((pl, "parse_led"), (pn, "parse_nud")):
        if f is None:
            rep.lost("PROGRESS", "PROGRESS/" + nm, nm)
            continue
        b = unblock(f.body)
        ok = b.get("k") == "Match" and call_is(peel(b["scrut"]), "Iterator::next")
        rep.check(ok, "PROGRESS", "PROGRESS/" + nm, f.sp, nm + " starts by consuming a token (so each cycle of the Pratt loop makes progress)", show(b.get("scrut"))[:60] if b.get("k") == "Match" else b.get("k"))
    if pe is not None:
        s = show_fn(pe)
        itid = strip_ref(pe.thir["params"][0]["pat"]).get("id")
        loops = [x for x in walk(pe.body) if x.get("k") in ("Loop", "For")]
        ok = len(loops) == 1 and q.every_cycle_calls(loops[0], lambda x: call_is(x, "parser::parse_led") and q.base_var(x["args"][1]) == itid)
        rep.check(ok, "PROGRESS", "PROGRESS/parse_expr", pe.sp, "Pratt loop: every cycle that does not leave the loop goes through parse_led (which consumes a token)", s[:80])
    # every other `loop` / `while` / `while let` in the crate: each cycle consumes from the source its condition tests
    nl = 0
    for name, f in sorted(F.fns.items()):
        if f.thir is None or "::{closure#" in name:
            continue
        for lp in [x for x in walk(f.body) if x.get("k") == "Loop"]:
            nl += 1
            occ = sum(1 for i in rep.instances if i.key.startswith("PROGRESS/loop/%s#" % name))
            if any(lp is m for m in tk_loops):
                rep.ok("PROGRESS", "PROGRESS/loop/%s#%d" % (name, occ), lp["sp"], "the tokeniser's main loop: progress is shown arm by arm (PROGRESS/arm/*)")
                continue
            okp, why = loop_progress(F, lp)
            rep.check(okp, "PROGRESS", "PROGRESS/loop/%s#%d" % (name, occ), lp["sp"], "every cycle of the loop that does not leave it consumes from the source its condition tests", why)
    rep.floor("PROGRESS", 19)
    if rep.tier == "thorough":
        import poscontrol
        poscontrol.panics(rep)
        poscontrol.panic_forms(rep)
    rep.exhaustive = True
    rep.assumptions.append("native stack exhaustion and allocation failure are out of scope (nesting depth is bounded by the property)")
    rep.assumptions.append("termination of the parser's recursion (parse_nud re-parses a strictly shorter token vector) is argued, not checked")
    rep.trusted.append("serde_yaml terminates and does not panic on adversarial YAML; regex/aho-corasick builders return Err rather than panic, except for the listed D-EXTERNAL facts")
