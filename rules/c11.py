"""C11 Representation independence: every adapter maps a Rust/YAML/JSON value to the Value kind with the same content.

T-ADAPT   each AsValue impl against the spec (signed -> Int via `as i64`, unsigned -> UInt via `as u64`, float -> Float, bool, str/String
          borrowed, () -> Null, Option -> inner | Null, Vec/HashSet -> Array(self), Object -> Object(self))
T-NUMBER  yaml and json Number arms: accessor matches its is_* guard and its Value variant; the two adapters are siblings
T-CONTAINER  Array impls iterate the container's own elements through as_value (Vec in slice order); Object::get looks the key up unchanged
DELEGATE  every Document impl for user data answers through the single Object::find (shared with C10)
"""
import re

import facts
import q
from facts import walk, peel, call_is, unblock, variant_of, strip_ref, subpat, pat_str
from show import show

SIGNED = {"i8": 8, "i16": 16, "i32": 32, "i64": 64, "isize": 64}
UNSIGNED = {"u8": 8, "u16": 16, "u32": 32, "u64": 64, "usize": 64}
FLOATS = {"f32": 32, "f64": 64}


def impl_name(ty):
    return "<%s as value::AsValue>::as_value" % ty


def run(rep):
    F = facts.load("A")
    rep.configs = ["A(core,json)"]
    rep.explanation = (
        "All representations reach the solver through two narrow interfaces: AsValue::as_value (Rust/YAML/JSON value -> Value kind) and "
        "Object::get/Array::iter (containers), with a single shared Object::find (C10).  The check extracts every adapter body from the "
        "typed tree (macro instances included, since the compiler has expanded them) and compares it with the specification table: value "
        "kind, signedness, widening cast, borrowed strings, element order for Vec, key passed unchanged, number accessor consistent with its "
        "guard; yaml and json adapters are cross-checked as siblings.  Equal logical content then yields equal Value trees, so the same "
        "solver code returns the same verdict."
    )
    rep.describe("T-ADAPT", "AsValue impl bodies vs the spec table")
    rep.describe("T-NUMBER", "serde Number -> Value: is_u64/as_u64 -> UInt, is_i64/as_i64 -> Int, is_f64/as_f64 -> Float; yaml == json")
    rep.describe("T-CONTAINER", "Array::iter maps the container's elements through as_value; Object::get looks up the unchanged key")
    rep.describe("DELEGATE", "Document impls delegate to Object::find")
    impls = {i["self"]: i for i in F.items["impls"] if i.get("trait") == "value::AsValue"}

    def body_of(ty):
        f = F.fn(impl_name(ty))
        return f

    for ty in list(SIGNED) + list(UNSIGNED) + list(FLOATS):
        f = body_of(ty)
        key = "T-ADAPT/" + ty
        if f is None:
            rep.bad("T-ADAPT", key, "src/value.rs", "AsValue is implemented for " + ty, "missing impl")
            continue
        b = unblock(f.body)
        want = "Int" if ty in SIGNED else "UInt" if ty in UNSIGNED else "Float"
        target = {"Int": "i64", "UInt": "u64", "Float": "f64"}[want]
        ok = b.get("k") == "Adt" and b["adt"] == "value::Value" and b["variant"] == want and len(b["fields"]) == 1
        det = show(f.body)
        if ok:
            p = peel(b["fields"][0]["e"])
            if p.get("k") == "Cast":
                ok = p["from"] == ty and p["ty"] == target and peel(p["arg"]).get("k") == "Var" and peel(p["arg"])["name"] == "self"
            else:
                ok = p.get("k") == "Var" and p["name"] == "self" and ty == target
        rep.check(ok, "T-ADAPT", key, f.sp, "%s -> Value::%s(*self as %s) (same value, same signedness, lossless)" % (ty, want, target), det)
    simple = {
        "()": "Value::Null",
        "bool": "Value::Bool(self)",
        "str": "Value::String(Cow::Borrowed(self))",
        "std::string::String": "Value::String(Cow::Borrowed(Deref::deref(self)))",
        "std::vec::Vec<V>": "Value::Array(self)",
        "std::collections::HashSet<V>": "Value::Array(self)",
        "O": "Value::Object(self)",
    }
    for ty, want in simple.items():
        f = body_of(ty)
        key = "T-ADAPT/" + ty
        if f is None:
            rep.bad("T-ADAPT", key, "src/value.rs", "AsValue is implemented for " + ty, "missing impl")
            continue
        s = show(f.body)
        rep.check(s == want, "T-ADAPT", key, f.sp, "%s -> %s" % (ty, want), s)
    # Option<V>: Some(v) -> v.as_value(), None -> Null; as  self.as_ref().map(|v| v.as_value()).unwrap_or(Value::Null)  or as a match / if let
    of = body_of("std::option::Option<V>")
    oc = F.fn(impl_name("std::option::Option<V>") + "::{closure#0}")
    ok_outer = ok_inner = False
    det = "-"
    if of is not None:
        det = show(of.body)
        b = unblock(of.body)
        oc_ = q.option_cases(b, F)
        recv_ = peel(oc_[0]) if oc_ else None
        while recv_ is not None and call_is(recv_, "::as_ref") and len(recv_["args"]) == 1:
            recv_ = peel(recv_["args"][0])
        if oc_ and q.var_id(recv_) == strip_ref(of.thir["params"][0]["pat"]).get("id"):
            sb = unblock(oc_[2])
            ok_inner = call_is(sb, "AsValue::as_value") and q.base_var(sb["args"][0]) == oc_[1]
            ok_outer = show(unblock(oc_[3])) == "Value::Null"
        else:
            sc, brs = q.branches(b)
            if sc is not None and q.base_var(sc) == strip_ref(of.thir["params"][0]["pat"]).get("id") and len(brs) == 2:
                some = [(p, x) for p, x in brs if p is not None and facts.variant_of(p) == ("Option", "Some")]
                none = [(p, x) for p, x in brs if p is None or facts.variant_of(p) == ("Option", "None")]
                if len(some) == 1 and len(none) == 1 and none[0][1] is not None:
                    inner = strip_ref(subpat(some[0][0], 0))
                    sb = unblock(some[0][1])
                    ok_inner = call_is(sb, "AsValue::as_value") and inner is not None and q.base_var(sb["args"][0]) == inner.get("id")
                    ok_outer = show(unblock(none[0][1])) == "Value::Null"
    rep.check(ok_outer, "T-ADAPT", "T-ADAPT/std::option::Option<V>", of.sp if of else "-", "None -> Value::Null", det)
    rep.check(ok_inner, "T-ADAPT", "T-ADAPT/Option-inner", of.sp if of else "-", "Some(v) -> v.as_value()", det)
    # no other AsValue impl than the reviewed ones
    reviewed = set(SIGNED) | set(UNSIGNED) | set(FLOATS) | set(simple) | {"serde_yaml::Value", "serde_json::Value", "std::option::Option<V>"}
    for ty in impls:
        rep.check(ty in reviewed, "T-ADAPT", "T-ADAPT/reviewed/" + ty, impls[ty]["sp"], "AsValue impl is in the reviewed table", ty)

    # ---- Number adapters
    sib = {}
    for mod, ty, objv, arrv in (("yaml", "serde_yaml::Value", "Mapping", "Sequence"), ("json", "serde_json::Value", "Object", "Array")):
        f = F.fn("%s::<impl value::AsValue for %s>::as_value" % (mod, ty))
        if f is None:
            rep.lost("T-NUMBER", "T-NUMBER/anchor/" + mod, "AsValue for " + ty)
            continue
        m = unblock(f.body)
        if m.get("k") != "Match":
            rep.lost("T-NUMBER", "T-NUMBER/shape/" + mod, "match self")
            continue
        rows = {}
        for a in m["arms"]:
            v = variant_of(a["pat"])
            rows[v[1] if v else "_"] = a
        want_rows = {"Null": "Value::Null", "Bool": "Value::Bool(b)", "String": "Value::String(Cow::Borrowed(Deref::deref(s)))", objv: "Value::Object(o)", arrv: None}
        for vn, want in want_rows.items():
            a = rows.get(vn)
            key = "T-ADAPT/%s/%s" % (mod, vn)
            if a is None:
                rep.bad("T-ADAPT", key, f.sp, "arm for %s" % vn, "missing")
                continue
            s = show(a["body"])
            if want is None:
                ok = re.fullmatch(r"Value::Array\((s|a)\)", s) is not None
                rep.check(ok, "T-ADAPT", key, a["sp"], "sequence -> Value::Array(the same sequence)", s)
            else:
                rep.check(s == want, "T-ADAPT", key, a["sp"], "%s -> %s" % (vn, want), s)
        if mod == "yaml":
            a = rows.get("Tagged")
            rep.check(bool(a) and show(a["body"]) == "AsValue::as_value(t.value)", "T-ADAPT", "T-ADAPT/yaml/Tagged", a["sp"] if a else f.sp, "a tagged value is its inner value", show(a["body"]) if a else "missing")
        extra = set(rows) - set(want_rows) - {"Number", "Tagged"}
        rep.check(not extra, "T-ADAPT", "T-ADAPT/%s/no-extra-arms" % mod, f.sp, "no unreviewed arm", str(sorted(extra)))
        na = rows.get("Number")
        if na is None:
            rep.bad("T-NUMBER", "T-NUMBER/%s/arm" % mod, f.sp, "Number arm", "missing")
            continue
        nid = strip_ref(subpat(na["pat"], 0)).get("id")
        chain = []
        cur = unblock(na["body"])
        while cur.get("k") == "If":
            chain.append(cur)
            cur = unblock(cur["else"]) if cur.get("else") else {}
        kinds = []
        for c in chain:
            cond = peel(c["cond"])
            then = unblock(c["then"])
            # two spellings of one link:  if n.is_X() { Value::K(n.as_X().unwrap()) }   /   if let Some(v) = n.as_X() { Value::K(v) }
            gk = tk = tkind = None
            payload = peel(then["fields"][0]["e"]) if then.get("k") == "Adt" and then["adt"].endswith("value::Value") and then.get("fields") else None
            tkind = then.get("variant") if payload is not None else None
            if cond.get("k") == "Call" and re.search(r"Number::is_(u64|i64|f64)$", cond.get("fn") or "") and q.var_id(cond["args"][0]) == nid:
                gk = cond["fn"][-3:]
                acc = peel(payload["args"][0]) if payload is not None and (call_is(payload, "::unwrap") or call_is(payload, "::expect")) else None
                if acc is not None and re.search(r"Number::as_(u64|i64|f64)$", acc.get("fn") or "") and q.var_id(acc["args"][0]) == nid:
                    tk = acc["fn"][-3:]
            elif cond.get("k") == "LetCond" and facts.variant_of(cond["pat"]) == ("Option", "Some"):
                acc = peel(cond["arg"])
                b = strip_ref(subpat(cond["pat"], 0))
                if re.search(r"Number::as_(u64|i64|f64)$", acc.get("fn") or "") and q.var_id(acc["args"][0]) == nid and b is not None and b.get("k") == "Bind" and payload is not None and q.var_id(payload) == b["id"]:
                    gk = tk = acc["fn"][-3:]
            key = "T-NUMBER/%s/%s" % (mod, gk if gk else show(cond)[:20])
            ok = gk is not None and gk == tk and {"u64": "UInt", "i64": "Int", "f64": "Float"}[gk] == tkind
            rep.check(ok, "T-NUMBER", key, c["sp"], "is_X guard, as_X accessor and Value kind agree (u64->UInt, i64->Int, f64->Float)", "%s => %s" % (show(cond), show(then)))
            if gk:
                kinds.append(gk)
        rep.check(set(kinds) == {"u64", "i64", "f64"}, "T-NUMBER", "T-NUMBER/%s/complete" % mod, na["sp"], "all three number representations are handled", str(kinds))
        sib[mod + "/kinds"] = kinds
        # u64 is tested before i64 is not required; but a non-negative integer must become UInt in both adapters alike (sibling)
        sib[mod] = show(na["body"])
    if "yaml" in sib and "json" in sib:
        same = sib["yaml"] == sib["json"] or sib.get("yaml/kinds") == sib.get("json/kinds")
        rep.check(same, "T-NUMBER", "T-NUMBER/sibling", "src/yaml.rs|src/json.rs", "yaml and json Number arms try the representations in the same order (each link checked above)", None if same else "differ")

    # ---- containers
    for nm, want in (("<std::vec::Vec<V> as value::Array>::iter", "<T>::new(Iterator::map(<impl [T]>::iter(<T, A>::as_slice(self)), |closure {closure#0}|))"),
                     ("<std::collections::HashSet<V> as value::Array>::iter", "<T>::new(Iterator::map(<T, S, A>::iter(self), |closure {closure#0}|))"),
                     ("<std::collections::HashMap<std::string::String, V, S> as value::Object>::get", "<T>::map(<K, V, S, A>::get(self, key), |closure {closure#0}|)"),
                     ("json::<impl value::Object for serde_json::Map<std::string::String, serde_json::Value>>::get", "<T>::map(<std::string::String, serde_json::Value>::get(self, key), |closure {closure#0}|)"),
                     ("yaml::<impl value::Object for serde_yaml::Mapping>::get", "<T>::map(Mapping::get(self, Value::String(ToString::to_string(key))), |closure {closure#0}|)")):
        f = F.fn(nm)
        if f is None:
            rep.lost("T-CONTAINER", "T-CONTAINER/" + nm, "impl " + nm)
            continue
        s = show(f.body)
        okc = s == want
        if not okc and nm.startswith("yaml::"):
            # self.get(Value::String(<owned copy of key>)).map(..), the key built in place or in a let
            t = unblock(f.body)
            while t.get("k") == "Block" and t.get("expr") is not None:
                t = unblock(t["expr"])
            g = peel(t["args"][0]) if call_is(t, "::map") and len(t["args"]) == 2 and peel(t["args"][1]).get("k") == "Closure" else {}
            if call_is(g, "Mapping::get") and len(g["args"]) == 2 and q.var_id(g["args"][0]) == strip_ref(f.thir["params"][0]["pat"]).get("id"):
                k_ = q.resolve(f.body, g["args"][1])
                inner = peel(k_["fields"][0]["e"]) if k_.get("k") == "Adt" and k_.get("variant") == "String" and k_.get("fields") else {}
                okc = inner.get("k") == "Call" and (inner.get("fn") or "").endswith(("ToString::to_string", "ToOwned::to_owned", "String::from", "From::from", "Into::into")) and \
                    q.var_id(inner["args"][0]) == strip_ref(f.thir["params"][1]["pat"]).get("id")
        rep.check(okc, "T-CONTAINER", "T-CONTAINER/" + nm, f.sp, "container access passes elements/keys through unchanged", s)
        c = F.fn(nm + "::{closure#0}")
        rep.check(bool(c) and show(c.body) == "AsValue::as_value(v)", "T-CONTAINER", "T-CONTAINER/" + nm + "/element", c.sp if c else f.sp, "each element/value is converted with its own as_value", show(c.body) if c else "-")
    # ---- delegate (shared with C10)
    for nm, via in (("<O as document::Document>::find", None), ("<&dyn value::Object as document::Document>::find", None),
                    ("json::<impl document::Document for serde_json::Value>::find", "Object")):
        f = F.fn(nm)
        if f is None:
            rep.lost("DELEGATE", "DELEGATE/" + nm, "impl " + nm)
            continue
        okd, det = q.delegates(f, "Object::find", via)
        rep.check(okd, "DELEGATE", "DELEGATE/" + nm, f.sp, "Document::find delegates to the single Object::find with the key unchanged (a non-object json value has no fields)", det + " " + show(f.body)[:120])
    for i in F.items["impls"]:
        if i.get("trait") == "value::Object":
            rep.check("find" not in i["items"], "DELEGATE", "DELEGATE/no-override/" + i["self"], i["sp"], "Object impl does not override find", str(i["items"]))
    # the same number arrives as Int from a signed Rust integer and as UInt from YAML/JSON/unsigned integers: the solver's numeric tables
    # must treat the two kinds alike (operand extraction per cast kind x value kind, mixed comparisons; shared with C09)
    import core
    core.import_rules(rep, "c09", {"T-CAST", "T-CMP", "T-STR"})
    core.import_rules(rep, "c09", {"LOSSY"})
    # YAML, JSON and HashMap documents resolve dotted paths through the one default Object::find; a hand-written Document resolves them itself,
    # following the documented path language: the default has to implement exactly that language
    core.import_rules(rep, "c10", {"T-FIND", "STEP-TOTAL", "INDEX"})
    rep.floor("T-ADAPT", 34)
    rep.floor("T-NUMBER", 9)
    rep.floor("T-CONTAINER", 10)
    rep.floor("DELEGATE", 6)
    rep.exhaustive = True
    rep.trusted.append("serde_yaml / serde_json parsers produce the Number representation they document (non-negative integers are u64)")
    rep.assumptions.append("container adapters are compared as canonical renderings of 1-line bodies (alpha-equivalent, helper-inlined); delegates are checked on their result leaves")
