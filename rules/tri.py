"""TRI: evaluation of *extracted* connective regions over the three-point domain {T,F,M}.

A region is a sub-tree of the typed tree (THIR) of the solver.  It is translated on the fly into a
small model language and evaluated with every recursive `solve_expression` call replaced by an
oracle symbol whose value ranges over {T,F,M}.  Anything outside the model language raises
Unrecognised (fail closed).  This is constant propagation with case splitting over a finite
lattice on the extracted model; no tau-engine code is compiled or run.
"""
from facts import peel, strip_ref, lit, call_is
from show import show, is_debug_stmt


class Unrecognised(Exception):
    pass


class Ret(Exception):
    def __init__(self, v):
        self.v = v


class Brk(Exception):
    pass


class Cont(Exception):
    pass


def SR(x):
    return ("sr", x)


T, F, M = SR("T"), SR("F"), SR("M")


class Child:
    """Symbolic operand #i of the connective (an unbatched predicate unless `shape` says otherwise)."""

    def __init__(self, i, shape=None):
        self.i = i
        self.shape = shape  # optional constructor value used for `if let` tests

    def __repr__(self):
        return "child%d" % self.i


class Opaque:
    def __repr__(self):
        return "opaque"


OPAQUE = Opaque()


class Model:
    def __init__(self, oracle, preset=None, calls=None, steps=20000):
        self.oracle = oracle  # function(child_index) -> SR value
        self.preset = preset or {}  # name -> value: overrides `let` initialisers binding that name
        self.calls = calls or {}  # callee suffix -> function(args) -> value
        self.steps = steps
        self.trace = []

    # ---- patterns
    def bind(self, pat, val, env):
        pat = strip_ref(pat)
        k = pat.get("k")
        if k == "Wild":
            return True
        if k == "Bind":
            env[pat["id"]] = val
            if pat.get("sub"):
                return self.bind(pat["sub"], val, env)
            return True
        if k == "Or":
            for q in pat["pats"]:
                e2 = dict(env)
                if self.bind(q, val, e2):
                    env.update(e2)
                    return True
            return False
        if k == "Const":
            l = pat["v"]
            if isinstance(val, bool):
                return l == ("true" if val else "false")
            if isinstance(val, int):
                return l.rstrip("_ui6432size") == str(val) or l == str(val)
            raise Unrecognised("constant pattern %s against %r" % (l, val))
        if k == "Leaf":
            if isinstance(val, tuple) and len(val) == 3 and val[0] == "rec":
                for s in pat["sub"]:
                    if not self.bind(s["p"], dict(val[2])[s["f"]], env):
                        return False
                return True
            if isinstance(val, tuple) and not (len(val) == 2 and val[0] == "sr"):
                for s in pat["sub"]:
                    if not self.bind(s["p"], val[s["i"]], env):
                        return False
                return True
            raise Unrecognised("tuple pattern against %r" % (val,))
        if k == "Variant":
            adt = pat["adt"].split("::")[-1]
            if adt == "SolverResult":
                if isinstance(val, tuple) and val[0] == "sr":
                    return {"True": "T", "False": "F", "Missing": "M"}[pat["variant"]] == val[1]
                raise Unrecognised("SolverResult pattern against %r" % (val,))
            if adt == "Option":
                if isinstance(val, tuple) and val and val[0] == "some":
                    if pat["variant"] != "Some":
                        return False
                    return self.bind(pat["sub"][0]["p"], val[1], env) if pat["sub"] else True
                if val is None:
                    return pat["variant"] == "None"
                raise Unrecognised("Option pattern against %r" % (val,))
            if isinstance(val, Child):
                # a symbolic operand: it matches a structural pattern only if its declared shape does
                if val.shape is None:
                    return False
                return self.bind_shape(pat, val.shape, env)
            if isinstance(val, tuple) and val and val[0] == "ctor":
                return self.bind_shape(pat, val, env)
            raise Unrecognised("pattern %s::%s against %r" % (adt, pat["variant"], val))
        raise Unrecognised("pattern kind %s" % k)

    def bind_shape(self, pat, shape, env):
        # shape = ("ctor", adt_last, variant, [fields])
        pat = strip_ref(pat)
        if pat.get("k") in ("Wild",):
            return True
        if pat.get("k") == "Bind":
            env[pat["id"]] = shape
            return True
        if pat.get("k") == "Or":
            return any(self.bind_shape(q, shape, env) for q in pat["pats"])
        if pat.get("k") != "Variant":
            raise Unrecognised("shape pattern %s" % pat.get("k"))
        if not (isinstance(shape, tuple) and shape and shape[0] == "ctor"):
            if isinstance(shape, Child):
                return self.bind(pat, shape, env)
            return False
        if (pat["adt"].split("::")[-1], pat["variant"]) != (shape[1], shape[2]):
            return False
        for s in pat["sub"]:
            f = shape[3][s["i"]] if s["i"] < len(shape[3]) else OPAQUE
            sp = strip_ref(s["p"])
            if sp.get("k") == "Bind":
                env[sp["id"]] = f
            elif sp.get("k") == "Wild":
                pass
            else:
                if not self.bind_shape(sp, f, env):
                    return False
        return True

    # ---- expressions
    def ev(self, n, env):
        self.steps -= 1
        if self.steps < 0:
            raise Unrecognised("step budget exhausted (unbounded loop in region?)")
        n = peel(n)
        k = n.get("k")
        if k == "Block":
            for s in n["stmts"]:
                if s["k"] == "Expr":
                    if is_debug_stmt(s["e"]):
                        self.check_debug(s["e"])
                        continue
                    self.ev(s["e"], env)
                else:
                    names = [b for b in _binds(s["pat"])]
                    if names and all(nm in self.preset for nm, _ in names):
                        for nm, vid in names:
                            env[vid] = self.preset[nm]
                        continue
                    v = self.ev(s["init"], env) if s.get("init") else OPAQUE
                    if not self.bind(s["pat"], v, env):
                        if s.get("else"):
                            self.ev(s["else"], env)
                        raise Unrecognised("irrefutable let failed")
            if n.get("expr"):
                return self.ev(n["expr"], env)
            return ()
        if k in ("Var", "Upvar"):
            if n["id"] in env:
                return env[n["id"]]
            if n["name"] in self.preset:
                return self.preset[n["name"]]
            return OPAQUE
        if k == "Lit":
            l = lit(n)
            if l[0] in ("i", "bool"):
                return l[1]
            return ("lit", l[1])
        if k == "Adt":
            adt = n["adt"].split("::")[-1]
            if adt == "SolverResult":
                return SR({"True": "T", "False": "F", "Missing": "M"}[n["variant"]])
            if adt == "Option" and n["variant"] == "None":
                return None
            if adt == "Option" and n["variant"] == "Some":
                return ("some", self.ev(n["fields"][0]["e"], env))
            if adt == "Range" and len(n["fields"]) == 2:
                fs = {f["name"]: self.ev(f["e"], env) for f in n["fields"]}
                return ("range", fs["start"], fs["end"])
            if n["fields"] and all(not f["name"].isdigit() for f in n["fields"]) and n["variant"] == adt:
                return ("rec", adt, tuple(sorted((f["name"], self.ev(f["e"], env)) for f in n["fields"])))  # a plain struct: a record
            return ("ctor", adt, n["variant"], [self.ev(f["e"], env) for f in sorted(n["fields"], key=lambda f: f["name"])])
        if k == "Tuple":
            return tuple(self.ev(f, env) for f in n["fields"])
        if k == "Field":
            v = self.ev(n["arg"], env)
            if isinstance(v, tuple) and n["name"].isdigit():
                return v[int(n["name"])]
            if isinstance(v, tuple) and len(v) == 3 and v[0] == "rec" and n["name"] in dict(v[2]):
                return dict(v[2])[n["name"]]
            raise Unrecognised("field %s of %r" % (n["name"], v))
        if k == "Match":
            v = self.ev(n["scrut"], env)
            for a in n["arms"]:
                e2 = dict(env)
                if self.bind(a["pat"], v, e2):
                    if a.get("guard") and not self.truth(self.ev(a["guard"], e2)):
                        continue
                    r = self.ev_scoped(a["body"], e2, env)
                    return r
            raise Unrecognised("no arm matches %r in %s" % (v, show(n)[:100]))
        if k == "If":
            c = n["cond"]
            e2 = dict(env)
            if self.cond(c, e2):
                return self.ev_scoped(n["then"], e2, env)
            if n.get("else"):
                return self.ev(n["else"], env)
            return ()
        if k == "LetCond":
            return self.cond(n, env)
        if k == "Logical":
            l = self.truth(self.ev(n["lhs"], env))
            if n["op"] == "And":
                return l and self.truth(self.ev(n["rhs"], env))
            return l or self.truth(self.ev(n["rhs"], env))
        if k == "Unary":
            v = self.ev(n["arg"], env)
            if n["op"] == "Not":
                return not self.truth(v)
            raise Unrecognised("unary " + n["op"])
        if k == "Binary":
            a, b = self.ev(n["lhs"], env), self.ev(n["rhs"], env)
            op = n["op"]
            if isinstance(a, Opaque) or isinstance(b, Opaque):
                raise Unrecognised("comparison with an untracked value: " + show(n))
            if op == "Eq":
                return a == b
            if op == "Ne":
                return a != b
            if isinstance(a, bool) or isinstance(b, bool) or not isinstance(a, int) or not isinstance(b, int):
                raise Unrecognised("arithmetic on %r, %r" % (a, b))
            return {"Ge": a >= b, "Gt": a > b, "Le": a <= b, "Lt": a < b, "Add": a + b, "Sub": a - b}[op]
        if k == "Assign":
            lhs = peel(n["lhs"])
            if call_is(lhs, "IndexMut::index_mut"):
                slot, val = self.ev(lhs, env), self.ev(n["rhs"], env)
                if isinstance(slot, tuple) and slot[0] == "slot":
                    slot[1][slot[2]] = val
                    return ()
                raise Unrecognised("assignment to %r" % (slot,))
            if lhs.get("k") != "Var":
                raise Unrecognised("assignment to " + show(n["lhs"]))
            env[lhs["id"]] = self.ev(n["rhs"], env)
            return ()
        if k == "AssignOp":
            lhs = peel(n["lhs"])
            if lhs.get("k") != "Var" or n["op"] not in ("AddAssign",):
                raise Unrecognised("compound assignment " + show(n))
            cur = env.get(lhs["id"])
            d = self.ev(n["rhs"], env)
            if not isinstance(cur, int) or isinstance(cur, bool) or not isinstance(d, int):
                raise Unrecognised("counter update on %r" % (cur,))
            env[lhs["id"]] = cur + d
            return ()
        if k == "Return":
            raise Ret(self.ev(n["value"], env) if n.get("value") else ())
        if k == "Closure":
            return ("closure", n.get("def"))  # a value that is only ever called (calls of local closures are inlined by the normalisation)
        if k == "Try":
            v = self.ev(n["arg"], env)
            if v is None:
                raise Ret(None)
            if isinstance(v, tuple) and v and v[0] in ("some", "ok"):
                return v[1]
            if isinstance(v, tuple) and v and v[0] == "err":
                raise Ret(v)
            if isinstance(v, tuple) and len(v) == 4 and v[0] == "ctor" and v[1] == "Result":
                if v[2] == "Ok":
                    return v[3][0] if v[3] else ()
                raise Ret(v)
            raise Unrecognised("`?` on %r" % (v,))
        if k == "Break":
            raise Brk()
        if k == "Continue":
            raise Cont()
        if k == "For":
            it = self.ev(n["iter"], env)
            if isinstance(it, tuple) and it and it[0] == "enumerate":
                items = [(i, x) for i, x in enumerate(it[1])]
            elif isinstance(it, tuple) and it and it[0] == "range" and isinstance(it[1], int) and isinstance(it[2], int):
                items = list(range(it[1], it[2]))
            elif isinstance(it, tuple) and it and it[0] == "vec":
                items = list(it[1])
            elif isinstance(it, tuple) and it and it[0] == "list":
                items = it[1]
            else:
                raise Unrecognised("loop over %r" % (it,))
            for x in items:
                try:
                    if not self.bind(n["pat"], x, env):
                        raise Unrecognised("loop pattern")
                    self.ev(n["body"], env)
                except Brk:
                    break
                except Cont:
                    continue
            return ()
        if k == "Call":
            fn = n.get("fn") or ""
            for suf, h in self.calls.items():
                if fn.endswith(suf):
                    return h(self, n, env)
            if fn.endswith("solver::solve_expression"):
                a0 = self.ev(n["args"][0], env)
                if isinstance(a0, Child):
                    v = self.oracle(a0.i)
                    self.trace.append((a0.i, v))
                    return v
                raise Unrecognised("solve_expression on a non-operand: " + show(n["args"][0]))
            if fn.endswith("Iterator::enumerate"):
                v = self.ev(n["args"][0], env)
                if isinstance(v, tuple) and v[0] in ("list", "vec"):
                    return ("enumerate", v[1])
            if fn.endswith(("PartialEq::eq", "PartialEq::ne")) and len(n["args"]) == 2:
                # a derived `==` on the plain values of the model (SolverResult, flags, numbers)
                a, b = self.ev(n["args"][0], env), self.ev(n["args"][1], env)
                if isinstance(a, (Opaque, Child)) or isinstance(b, (Opaque, Child)):
                    raise Unrecognised("comparison with an untracked value: " + show(n))
                return (a == b) if fn.endswith("eq") else (a != b)
            # plain iterator adaptors over model lists
            def _lst(v_):
                return list(v_[1]) if isinstance(v_, tuple) and v_ and v_[0] in ("list", "vec") else None
            if fn.endswith("iter::repeat") and len(n["args"]) == 1:
                return ("repeat", self.ev(n["args"][0], env))
            if fn.endswith(("Iterator::take", "Iterator::skip")) and len(n["args"]) == 2:
                v, c = self.ev(n["args"][0], env), self.ev(n["args"][1], env)
                if isinstance(c, int) and isinstance(v, tuple) and v and v[0] == "repeat" and fn.endswith("take"):
                    return ("list", [v[1]] * c)
                if isinstance(c, int) and _lst(v) is not None:
                    return ("list", _lst(v)[:c] if fn.endswith("take") else _lst(v)[c:])
            if fn.endswith(("Iterator::chain", "Iterator::zip")) and len(n["args"]) == 2:
                a, b = _lst(self.ev(n["args"][0], env)), _lst(self.ev(n["args"][1], env))
                if a is not None and b is not None:
                    return ("list", a + b) if fn.endswith("chain") else ("list", [(x, y) for x, y in zip(a, b)])
            if fn.endswith(("::windows", "::chunks")) and len(n["args"]) == 2:
                a, c = _lst(self.ev(n["args"][0], env)), self.ev(n["args"][1], env)
                if a is not None and isinstance(c, int) and c > 0:
                    if fn.endswith("windows"):
                        return ("list", [("list", a[i:i + c]) for i in range(0, max(0, len(a) - c + 1))])
                    return ("list", [("list", a[i:i + c]) for i in range(0, len(a), c)])
            if fn.endswith("Iterator::rev") and len(n["args"]) == 1:
                a = _lst(self.ev(n["args"][0], env))
                if a is not None:
                    return ("list", a[::-1])
            if fn.endswith("Iterator::map") and len(n["args"]) == 2 and peel(n["args"][1]).get("k") == "Zst" and str(peel(n["args"][1]).get("fn")).endswith(("Option::Some", "v1::Some", "option::Option::Some")):
                a = _lst(self.ev(n["args"][0], env))
                if a is not None:
                    return ("list", [("some", x) for x in a])
            if fn.endswith("::with_capacity") or (fn.endswith("::new") and n.get("ty", "").startswith("std::vec::Vec<")):
                return ("vec", [])
            if fn.endswith("::push") and len(n["args"]) == 2:
                v = self.ev(n["args"][0], env)
                if isinstance(v, tuple) and v[0] == "vec":
                    v[1].append(self.ev(n["args"][1], env))
                    return ()
            if fn.endswith("::len") and len(n["args"]) == 1:
                v = self.ev(n["args"][0], env)
                if isinstance(v, tuple) and v[0] in ("list", "vec"):
                    return len(v[1])
            if fn.endswith("Index::index") and len(n["args"]) == 2:
                v, i = self.ev(n["args"][0], env), self.ev(n["args"][1], env)
                if isinstance(v, tuple) and v[0] in ("list", "vec") and isinstance(i, int) and 0 <= i < len(v[1]):
                    return v[1][i]
                raise Unrecognised("index %r[%r]" % (v, i))
            if fn.endswith("IndexMut::index_mut") and len(n["args"]) == 2:
                v, i = self.ev(n["args"][0], env), self.ev(n["args"][1], env)
                if isinstance(v, tuple) and v[0] == "vec" and isinstance(i, int) and 0 <= i < len(v[1]):
                    return ("slot", v[1], i)
                raise Unrecognised("index_mut %r[%r]" % (v, i))
            if fn.endswith("mem::replace") and len(n["args"]) == 2:
                slot, val = self.ev(n["args"][0], env), self.ev(n["args"][1], env)
                if isinstance(slot, tuple) and slot[0] == "slot":
                    old = slot[1][slot[2]]
                    slot[1][slot[2]] = val
                    return old
                raise Unrecognised("mem::replace on %r" % (slot,))
            if (fn.endswith("::expect") or fn.endswith("::unwrap")) and n["args"]:
                v = self.ev(n["args"][0], env)
                if isinstance(v, tuple) and v and v[0] == "some":
                    return v[1]
                raise Unrecognised("expect/unwrap of %r (a panic in the model)" % (v,))
            if fn.endswith("::is_none") or fn.endswith("::is_some"):
                v = self.ev(n["args"][0], env)
                if v is None or (isinstance(v, tuple) and v and v[0] == "some"):
                    return (v is None) == fn.endswith("::is_none")
                raise Unrecognised("is_none on %r" % (v,))
            if fn.endswith("::iter") or fn.endswith("IntoIterator::into_iter") or fn.endswith("Deref::deref") or fn.endswith("AsRef::as_ref"):
                return self.ev(n["args"][0], env)
            raise Unrecognised("call outside the model language: " + show(n)[:120])
        raise Unrecognised("node %s outside the model language: %s" % (k, show(n)[:100]))

    def ev_scoped(self, body, inner, outer):
        """Evaluate with the inner env, then propagate assignments to variables that exist outside."""
        try:
            return self.ev(body, inner)
        finally:
            for kk in list(outer.keys()):
                if kk in inner:
                    outer[kk] = inner[kk]

    def cond(self, c, env):
        c0 = c
        c = peel(c)
        if c.get("k") == "LetCond":
            v = self.ev(c["arg"], env)
            return self.bind(c["pat"], v, env)
        return self.truth(self.ev(c0, env))

    def truth(self, v):
        if isinstance(v, bool):
            return v
        raise Unrecognised("non-boolean condition %r" % (v,))

    def check_debug(self, n):
        from facts import walk
        for x in walk(n):
            if x.get("k") in ("Assign", "AssignOp", "Return", "Break", "Continue"):
                # assignments inside the macro to its own temporaries are fine; to outer vars are not
                if x.get("k") in ("Return", "Break", "Continue"):
                    raise Unrecognised("control flow inside a debug! expansion")


def _binds(p):
    from facts import pat_binds
    return pat_binds(p)


def run_region(body, env, oracle, preset=None, calls=None):
    """Evaluate a region; returns its value (function return or block value)."""
    m = Model(oracle, preset, calls)
    try:
        v = m.ev(body, env)
    except Ret as r:
        v = r.v
    return v, m.trace


# ---------------------------------------------------------------------------- spec models

def spec_or(rs):
    if "T" in rs:
        return "T"
    if "F" in rs:
        return "F"
    return "M"


def spec_and(rs):
    for r in rs:
        if r != "T":
            return r
    return "T"


def spec_not(r):
    return {"T": "F", "F": "T", "M": "F"}[r]


def spec_all_hard(rs):
    """Returns 'T' or 'notT' (the F/M split is soft)."""
    return "T" if all(r == "T" for r in rs) else "notT"


def spec_of_hard(rs, n):
    if n >= 1:
        return "T" if sum(1 for r in rs if r == "T") >= n else "notT"
    # of(0): none may be true
    return "notT" if "T" in rs else "any"


def vectors(k):
    import itertools
    return list(itertools.product("TFM", repeat=k))
