"""C06 Three-valued connectives: extracted solver regions against the spec truth tables.

The solver functions solve_expression / match_all / match_of are evaluated as *models* over
expression shapes whose leaves are oracle symbols ranging over {T,F,M} (see tri.py).  Every
connective form named by the property is enumerated completely for arity 1..4 (5 in the thorough
tier) and thresholds 0..k+1.
"""
import itertools

import facts
import tri
from facts import walk, peel, unblock, call_is, variant_of, strip_ref, pat_str
from show import show
from tri import Child, Model, Ret, Unrecognised, SR

NAMES = {"T": "true", "F": "false", "M": "missing"}


class Solver:
    """Interprocedural model of the solver: local calls are evaluated on the callee's typed tree."""

    def __init__(self, F):
        self.F = F
        self.fns = {}
        for nm in ("solver::solve_expression", "solver::match_all", "solver::match_of"):
            f = F.fn(nm)
            if f is None:
                raise Unrecognised("anchor function %s not found" % nm)
            self.fns[nm] = f

    def params(self, f):
        out = []
        for p in f.thir["params"]:
            pt = p["pat"]
            if pt is None or pt.get("k") != "Bind":
                raise Unrecognised("parameter pattern of " + f.name)
            out.append(pt["id"])
        return out

    def call(self, fname, args, oracle, idents):
        f = self.fns[fname]
        ids = self.params(f)
        env = dict(zip(ids, args))
        solver = self

        def h_get(model, n, env2):
            recv = model.ev(n["args"][0], env2)
            key = model.ev(n["args"][1], env2)
            if not (isinstance(recv, tuple) and recv and recv[0] == "map"):
                raise Unrecognised("get on %r" % (recv,))
            k = key[1] if isinstance(key, tuple) and key[0] == "lit" else key
            v = recv[1].get(k)
            return ("some", v) if v is not None else None

        def mk_local(name):
            def h(model, n, env2):
                a = [model.ev(x, env2) for x in n["args"]]
                if name == "solver::solve_expression" and isinstance(a[0], Child):
                    v = oracle(a[0].i)
                    model.trace.append((a[0].i, v))
                    return v
                if name == "solver::solve_expression" and not (isinstance(a[0], tuple) and a[0] and a[0][0] == "ctor"):
                    raise Unrecognised("solve_expression on %r" % (a[0],))
                return solver.call(name, a, oracle, idents)
            return h

        def h_find(model, n, env2):
            recv = model.ev(n["args"][0], env2)
            key = model.ev(n["args"][1], env2)
            if isinstance(recv, tuple) and recv and recv[0] == "doc" and isinstance(key, tuple) and key[0] == "col":
                return ("some", ("val", key[1])) if recv[1][key[1]] else None
            raise Unrecognised("find(%r, %r)" % (recv, key))

        calls = {
            "Document::find": h_find,
            ">::get": h_get,
            "solver::solve_expression": mk_local("solver::solve_expression"),
            "solver::match_all": mk_local("solver::match_all"),
            "solver::match_of": mk_local("solver::match_of"),
        }
        m = Model(oracle, calls=calls)
        try:
            v = m.ev(f.body, env)
        except Ret as r:
            v = r.v
        return v


def E(variant, *fields):
    return ("ctor", "Expression", variant, list(fields))


def SYM(s):
    return ("ctor", "BoolSym", s, [])


def kids(k):
    return ("list", [Child(i) for i in range(k)])


def forms_or_and(sym, k):
    """(name, shape, idents) for each way of writing an or/and over k operands."""
    out = [("group", E("BooleanGroup", SYM(sym), kids(k)), {})]
    out.append(("identifier->group", E("Identifier", ("lit", "X")), {"X": E("BooleanGroup", SYM(sym), kids(k))}))
    if k == 2:
        out.append(("binary", E("BooleanExpression", Child(0), SYM(sym), Child(1)), {}))
    if k == 3:
        # nested binary, both associations
        out.append(("binary-left", E("BooleanExpression", E("BooleanExpression", Child(0), SYM(sym), Child(1)), SYM(sym), Child(2)), {}))
        out.append(("binary-right", E("BooleanExpression", Child(0), SYM(sym), E("BooleanExpression", Child(1), SYM(sym), Child(2))), {}))
    return out


def forms_quant(kind, k):
    """all()/of() forms: over a key list, over an identifier holding a group (mapping=And or sequence=Or), single."""
    out = []
    if k >= 2:
        out.append(("key-list", E("Match", kind, E("BooleanGroup", SYM("Or"), kids(k))), {}))
    for s in ("Or", "And"):
        if k >= 2 or True:
            out.append(("identifier->%s-group" % s.lower(), E("Match", kind, E("Identifier", ("lit", "X"))), {"X": E("BooleanGroup", SYM(s), kids(k))}))
    if k == 1:
        out.append(("key-single", E("Match", kind, Child(0)), {}))
        out.append(("identifier->single", E("Match", kind, E("Identifier", ("lit", "X"))), {"X": Child(0)}))
    return out


def run(rep):
    F = facts.load("A")
    rep.configs = ["A(core,json)"]
    thorough = rep.tier == "thorough"
    KMAX = 5 if thorough else 4
    rep.explanation = (
        "The connective code of the solver (solve_expression, match_all, match_of, solve, core::solve*) is extracted from the typed tree "
        "and evaluated as a model in which every operand is an oracle symbol over {true,false,missing}; recursive calls on group/identifier "
        "shapes are followed into the callee's extracted body.  Every form (binary, nested binary, group, identifier->group, all/of over key "
        "list, over identifier, over a single member) x arity 1..%d x every operand vector x thresholds 0..k+1 is enumerated and compared with "
        "the truth tables of the property statement.  The enumeration is over the extracted model, not over compiled code." % KMAX
    )
    try:
        S = Solver(F)
    except Unrecognised as e:
        rep.lost("TRI", "TRI/anchor", "solver functions present", str(e))
        return
    total = [0]
    samples = []

    def evaluate(shape, idents, vec):
        total[0] += 1
        oracle = lambda i: SR(vec[i])
        v = S.call("solver::solve_expression", [shape, ("map", idents), tri.OPAQUE], oracle, idents)
        if not (isinstance(v, tuple) and v[0] == "sr"):
            raise Unrecognised("region produced %r" % (v,))
        return v[1]

    def table(rule, key, forms, k, spec, what, soft=None):
        """spec(vec) -> expected ('T'/'F'/'M' hard, 'notT' = F or M, 'any')."""
        # all ways of writing the same connective over the same operands must give the *same full result* (the statement's
        # "identically in two-operand, grouped and identifier-list form"): this also pins the rows the spec leaves open
        results = {}
        for fname, shape, idents in forms:
            try:
                results[fname] = tuple(evaluate(shape, idents, vec) for vec in tri.vectors(k))
            except Unrecognised:
                results[fname] = None
        names = [f for f in results if results[f] is not None]
        if len(names) >= 2:
            ref = names[0]
            dis = []
            for f in names[1:]:
                for vec, a, b in zip(tri.vectors(k), results[ref], results[f]):
                    if a != b:
                        dis.append("%s: %s=%s but %s=%s" % (",".join(NAMES[x] for x in vec), ref, NAMES[a], f, NAMES[b]))
            rep.check(not dis, rule, "%s/forms-agree/k=%d" % (key, k), S.fns["solver::solve_expression"].sp, what + ": every form gives the same result on every operand vector", "; ".join(dis[:4]) if dis else None)
        for fname, shape, idents in forms:
            bad = []
            softdiff = []
            n = 0
            try:
                for vec in tri.vectors(k):
                    got = evaluate(shape, idents, vec)
                    n += 1
                    exp = spec(vec)
                    okrow = (exp == "any") or (exp == "notT" and got != "T") or (exp == got)
                    if not okrow:
                        bad.append("%s -> %s (spec %s)" % (",".join(NAMES[x] for x in vec), NAMES[got], exp))
                    if soft is not None:
                        s = soft(vec)
                        if s != got and okrow:
                            softdiff.append("%s -> %s (pinned %s)" % ("".join(vec), got, s))
                    if len(samples) < 12 and n % 7 == 1:
                        samples.append({"form": key + "/" + fname, "operands": list(vec), "result": got})
            except Unrecognised as e:
                rep.lost(rule, "%s/%s/k=%d" % (key, fname, k), "region inside the model language", str(e)[:300])
                continue
            site = S.fns["solver::solve_expression"].sp
            rep.check(not bad, rule, "%s/%s/k=%d" % (key, fname, k), site, what + " [%d operand vectors]" % n, "; ".join(bad[:6]) if bad else None)
            for s in softdiff[:3]:
                rep.note("soft row changed in %s/%s k=%d: %s" % (key, fname, k, s))

    rep.describe("TRI-OR", "or: true if any operand true, else false if any false, else missing - group, binary, nested binary and identifier forms")
    rep.describe("TRI-AND", "and: the first non-true operand result, else true")
    rep.describe("TRI-NOT", "not: true<->false, missing -> false")
    rep.describe("TRI-ALL", "all(): true iff every operand true (false/missing split is soft)")
    rep.describe("TRI-OF", "of(n>=1): true iff at least n operands true; of(0): not true if any operand is true")
    rep.describe("TRI-VERDICT", "solve / core::solve / core::solve_expression: only True is a match")
    rep.describe("TRI-EDGE", "the special-case comparison arms of BooleanExpression cannot intercept and/or (they all require the == operator)")
    for k in range(1, KMAX + 1):
        table("TRI-OR", "OR", forms_or_and("Or", k), k, lambda v: tri.spec_or(v), "or over %d operands follows the truth table" % k)
        table("TRI-AND", "AND", forms_or_and("And", k), k, lambda v: tri.spec_and(v), "and over %d operands follows the truth table" % k)
        table("TRI-ALL", "ALL", forms_quant(("ctor", "Match", "All", []), k), k, lambda v: tri.spec_all_hard(v), "all() over %d operands: true iff all true" % k,
              soft=lambda v: tri.spec_and(v))
        for n in range(0, k + 2):
            def soft_of(v, n=n):
                if n == 0:
                    return "F" if "T" in v else ("T" if "F" in v else "M")
                return "T" if sum(1 for r in v if r == "T") >= n else ("F" if "F" in v else "M")
            table("TRI-OF", "OF(n=%d)" % n, forms_quant(("ctor", "Match", "Of", [n]), k), k, lambda v, n=n: tri.spec_of_hard(v, n),
                  "of(.., %d) over %d operands counts true operands" % (n, k), soft=soft_of)
    # NOT
    table("TRI-NOT", "NOT", [("negate", E("Negate", Child(0)), {}), ("negate-identifier", E("Negate", E("Identifier", ("lit", "X"))), {"X": Child(0)})], 1,
          lambda v: tri.spec_not(v[0]), "not follows the truth table")
    # compositions that the statement calls out: not over or/and groups keep the inner table
    for sym, spec in (("Or", tri.spec_or), ("And", tri.spec_and)):
        for k in (2, 3):
            table("TRI-NOT", "NOT-" + sym.upper(), [("negate-group", E("Negate", E("BooleanGroup", SYM(sym), kids(k))), {})], k,
                  lambda v, spec=spec: tri.spec_not(spec(v)), "not(%s group) = not applied to the group's result" % sym.lower())

    # MATRIX regions: or over rows of and over cells, with per-column presence and the per-evaluation cache
    rep.describe("TRI-MATRIX", "Matrix: or over rows of (and over the row's cells in order; a cell whose column is absent is missing); under all(): every row; under of(n): at least n rows")

    def matrix_tables(kind, layouts, via_ident=False):
        for lname, ncols, rows in layouts:
            # rows: list of rows, each a list of column indices that have a cell (others None)
            cells = []
            shape_rows = []
            for r in rows:
                row = []
                for c in range(ncols):
                    if c in r:
                        cells.append(c)
                        row.append(("some", Child(len(cells) - 1)))
                    else:
                        row.append(None)
                shape_rows.append(("list", row))
            mat = E("Matrix", ("list", [("col", i) for i in range(ncols)]), ("list", shape_rows))
            shape = mat if kind is None else E("Match", kind, mat)
            idmap = {}
            if via_ident:
                # all(X) / of(X, n) where the identifier X was turned into a matrix (coalesce off, matrix on)
                shape = E("Match", kind, E("Identifier", ("lit", "X")))
                idmap = {"X": mat}
                lname = lname + "/via-identifier"
            bad = []
            n = 0
            try:
                for pres in itertools.product([True, False], repeat=ncols):
                    for vec in tri.vectors(len(cells)):
                        total[0] += 1
                        n += 1
                        oracle = lambda i: SR(vec[i])
                        v = S.call("solver::solve_expression", [shape, ("map", idmap), ("doc", pres)], oracle, idmap)
                        got = v[1]
                        # spec
                        rowvals = []
                        ci = 0
                        for r in rows:
                            val = "T"
                            for c in sorted(r):
                                cv = vec[ci + sorted(r).index(c)]
                                if not pres[c]:
                                    val = "M"
                                    break
                                if cv != "T":
                                    val = cv
                                    break
                            ci += len(r)
                            rowvals.append(val)
                        if kind is None:
                            exp = tri.spec_or(rowvals)
                            okrow = exp == got
                        elif kind[2] == "All":
                            exp = tri.spec_all_hard(rowvals)
                            okrow = (exp == "T") == (got == "T")
                        else:
                            exp = tri.spec_of_hard(rowvals, kind[3][0])
                            okrow = exp == "any" or (exp == "T") == (got == "T")
                        if not okrow:
                            bad.append("present=%s cells=%s -> %s (spec %s)" % ("".join("1" if p else "0" for p in pres), "".join(vec), got, exp))
            except Unrecognised as e:
                rep.lost("TRI-MATRIX", "MATRIX/%s/%s" % ("plain" if kind is None else kind[2], lname), "matrix region inside the model language", str(e)[:300])
                continue
            rep.check(not bad, "TRI-MATRIX", "MATRIX/%s/%s" % ("plain" if kind is None else (kind[2] + (str(kind[3][0]) if kind[3] else "")), lname), S.fns["solver::solve_expression"].sp,
                      "matrix with layout %s follows or-of-ands with missing columns [%d cases]" % (lname, n), "; ".join(bad[:5]) if bad else None)

    layouts = [("1col-2rows", 1, [[0], [0]]), ("2cols-diag", 2, [[0], [1]]), ("2cols-full+single", 2, [[0, 1], [1]]), ("2cols-2full", 2, [[0, 1], [0, 1]]), ("3cols-mixed", 3, [[0, 2], [1], [0, 1]])]
    matrix_tables(None, layouts)
    matrix_tables(("ctor", "Match", "All", []), layouts[:4])
    for nn in (0, 1, 2):
        matrix_tables(("ctor", "Match", "Of", [nn]), layouts[:4])
    matrix_tables(("ctor", "Match", "All", []), layouts[:4], via_ident=True)
    matrix_tables(("ctor", "Match", "Of", [2]), layouts[:4], via_ident=True)

    # EDGE: structural check on the first match of the BooleanExpression arm
    se = S.fns["solver::solve_expression"]
    top = se.body.get("expr")
    arm = None
    if top and top.get("k") == "Match":
        for a in top["arms"]:
            if variant_of(a["pat"]) == ("Expression", "BooleanExpression"):
                arm = a
    if arm is None:
        rep.lost("TRI-EDGE", "TRI-EDGE/anchor", "BooleanExpression arm of solve_expression")
    else:
        ms = [s["e"] for s in arm["body"].get("stmts", []) if s["k"] == "Expr" and s["e"].get("k") == "Match"]
        n = 0
        for m in ms:
            for a in m["arms"]:
                p = strip_ref(a["pat"])
                if p.get("k") == "Wild":
                    continue
                n += 1
                opp = None
                if p.get("k") == "Leaf":
                    for s in p["sub"]:
                        if s["i"] == 1:
                            opp = variant_of(s["p"])
                rep.check(opp == ("BoolSym", "Equal"), "TRI-EDGE", "TRI-EDGE/" + pat_str(a["pat"])[:60], a["sp"],
                          "special-case arm requires operator ==", pat_str(a["pat"]))
        rep.floor("TRI-EDGE", 3)

    # VERDICT wrappers
    for fname in ("solver::solve", "core::solve", "core::solve_expression"):
        f = F.fn(fname)
        if f is None:
            rep.lost("TRI-VERDICT", "TRI-VERDICT/anchor/" + fname, "function " + fname)
            continue
        calls = [n for n in walk(f.body) if call_is(n, "solver::solve_expression")]
        dele = unblock(f.body)
        if not calls and dele.get("k") == "Call" and dele.get("fn") in ("solver::solve", "core::solve", "core::solve_expression") and dele["fn"] != fname and dele["args"]:
            # nothing but a call of a sibling wrapper (whose own table is checked in this loop): the same verdicts
            rep.ok("TRI-VERDICT", "TRI-VERDICT/one-call/" + fname, f.sp, "delegates to the wrapper %s" % dele["fn"])
            a0 = show(dele["args"][0])
            rep.check(a0 == ("detection" if dele["fn"] == "solver::solve" else "expression"), "TRI-VERDICT", "TRI-VERDICT/arg/" + fname, dele["sp"], "evaluates the rule's own expression", a0)
            rep.ok("TRI-VERDICT", "TRI-VERDICT/table/" + fname, f.sp, "the table of %s" % dele["fn"])
            continue
        rep.check(len(calls) == 1, "TRI-VERDICT", "TRI-VERDICT/one-call/" + fname, f.sp, "exactly one solve_expression call", str(len(calls)))
        if len(calls) != 1:
            continue
        a0 = show(calls[0]["args"][0])
        want0 = "detection.expression" if fname == "solver::solve" else "expression"
        rep.check(a0 == want0, "TRI-VERDICT", "TRI-VERDICT/arg/" + fname, calls[0]["sp"], "evaluates the rule's own expression", a0)
        rows = {}
        try:
            for r in "TFM":
                h = {"solver::solve_expression": lambda model, n, env, r=r: SR(r)}
                m = Model(lambda i: None, calls=h)
                try:
                    v = m.ev(f.body, {})
                except Ret as rr:
                    v = rr.v
                rows[r] = v
                total[0] += 1
        except Unrecognised as e:
            rep.lost("TRI-VERDICT", "TRI-VERDICT/model/" + fname, "wrapper inside the model language", str(e)[:200])
            continue
        rep.check(rows == {"T": True, "F": False, "M": False}, "TRI-VERDICT", "TRI-VERDICT/table/" + fname, f.sp,
                  "True => match; False, Missing => no match", str(rows))
    # Rule::matches delegates to solver::solve on its own detection and the given document
    rm = F.fn("rule::Rule::matches")
    if rm is None:
        rep.lost("TRI-VERDICT", "TRI-VERDICT/anchor/matches", "Rule::matches")
    else:
        s = show(rm.body)
        rep.check(s == "solver::solve(self.detection, document)", "TRI-VERDICT", "TRI-VERDICT/matches", rm.sp, "Rule::matches is solver::solve(&self.detection, document)", s)

    # the optimised forms of and/or must keep the operand order the tables above depend on (shared with C01)
    import core
    core.import_rules(rep, "c01", {"LINEAR"})
    # of(k, n) over a batched list: the batched count is the number of true members
    core.import_rules(rep, "c08", {"T-COUNT"}, key_prefixes=("T-COUNT/",))
    core.import_rules(rep, "c03", {"L-MATRIX"}, key_prefixes=("L-MATRIX/lookup-", "L-MATRIX/one-cell-per-column", "L-MATRIX/pass-agreement"))
    # the of(n)/all() tables are stated over the written members: the optimiser keeps the quantifier and the counted group as they are
    core.import_rules(rep, "c01", {"COUNTER-CONTEXT"}, key_prefixes=("COUNTER-CONTEXT/shake_0/", "COUNTER-CONTEXT/shake_1/", "COUNTER-CONTEXT/matrix/"))
    core.import_rules(rep, "c01", {"ORDER-AND", "LAW"}, key_prefixes=("ORDER-AND/shake_0/", "LAW/shake_0/flatten", "LAW/shake_0/group-of-one", "LAW/or-symmetric", "LAW/shake_1/nested-merge"))
    rep.floor("TRI-OR", 2 * KMAX + 3)
    rep.floor("TRI-AND", 2 * KMAX + 3)
    rep.floor("TRI-ALL", 2 * KMAX)
    rep.floor("TRI-OF", 2 * KMAX * 3)
    rep.floor("TRI-NOT", 6)
    rep.floor("TRI-MATRIX", 29)
    rep.floor("TRI-VERDICT", 10)
    rep.exhaustive = True
    rep.extra["model_evaluations"] = total[0]
    rep.extra["operand_vector_samples"] = samples
    rep.extra["arity_max"] = KMAX
    rep.assumptions.append("leaf predicates are modelled as oracle symbols: what a leaf returns is decided by C07/C09/C10, here only how results are combined")
    rep.assumptions.append("soft rows (false-vs-missing split of a failed all()/of()) are pinned to today's behaviour and reported as notes, not violations")
