"""Comparison of canonical renderings modulo a consistent renaming of local variables (alpha-equivalence on token streams).

Templates in the rules are written with the names the code uses today; a behaviour-preserving rename of a local variable, parameter or
closure must not raise an alarm, so comparisons go through eq()/contains() instead of string equality.
"""
import re

TOK = re.compile(r'::|\$?[A-Za-z_][A-Za-z0-9_#]*|"(?:[^"\\]|\\.)*"|\'(?:[^\'\\]|\\.)*\'|\d+(?:\.\d+)?|\S')
FIXED = {
    "let", "if", "else", "match", "for", "in", "return", "break", "continue", "loop", "as", "true", "false", "closure", "impl", "str", "mut", "dyn",
    "Eq", "Ne", "Ge", "Gt", "Le", "Lt", "Add", "Sub", "Mul", "Div", "Rem", "BitAnd", "BitOr", "BitXor", "Shl", "Shr", "Not", "Neg", "AddAssign", "SubAssign",
    "BitOrAssign", "BitAndAssign", "MulAssign", "self", "Self", "u8", "u16", "u32", "u64", "usize", "i8", "i16", "i32", "i64", "isize", "f32", "f64", "bool", "char",
}


def tokens(s):
    return TOK.findall(s)


def binders(toks):
    return {t[1:] for t in toks if t.startswith("$")}


def _match(at, tt, a0, fwd, bwd, abound=None, tbound=None):
    """Tokens equal, except that names *bound inside the fragment* (they occur as `$name` in it) may be renamed consistently."""
    tbound = binders(tt) if tbound is None else tbound
    for k in range(len(tt)):
        x, y = at[a0 + k], tt[k]
        y0 = y[1:] if y.startswith("$") else y
        if y0 in tbound and re.match(r"[A-Za-z_]", y0):
            # never rename through a path / field / call position
            prev = tt[k - 1] if k > 0 else ""
            nxt = tt[k + 1] if k + 1 < len(tt) else ""
            if prev in ("::", ".") or nxt in ("::",) or (nxt in ("(", "{") and not y.startswith("$")):
                if x != y:
                    return False
                continue
            if x.startswith("$") != y.startswith("$"):
                return False
            x0 = x[1:] if x.startswith("$") else x
            if not re.match(r"[A-Za-z_]", x0):
                return False
            if y.startswith("$") and y0 in fwd and (fwd[y0] != x0 or bwd.get(x0) != y0):
                # a new binder for a name that was bound before (a second loop variable, a shadowing let) starts a new renaming
                old = fwd.pop(y0)
                if bwd.get(old) == y0:
                    del bwd[old]
                if x0 in bwd:
                    stale = bwd.pop(x0)
                    if fwd.get(stale) == x0:
                        del fwd[stale]
            if fwd.setdefault(y0, x0) != x0 or bwd.setdefault(x0, y0) != y0:
                return False
        elif x != y:
            return False
    return True


def eq(actual, template):
    at, tt = tokens(actual), tokens(template)
    if len(at) != len(tt):
        return False
    return _match(at, tt, 0, {}, {})


def contains(actual, template):
    at, tt = tokens(actual), tokens(template)
    n = len(tt)
    for a0 in range(0, len(at) - n + 1):
        if _match(at, tt, a0, {}, {}):
            return True
    return False


def count(actual, template):
    at, tt = tokens(actual), tokens(template)
    n = len(tt)
    c = 0
    a0 = 0
    while a0 <= len(at) - n:
        if _match(at, tt, a0, {}, {}):
            c += 1
            a0 += n
        else:
            a0 += 1
    return c


def startswith(actual, template):
    at, tt = tokens(actual), tokens(template)
    return len(at) >= len(tt) and _match(at, tt, 0, {}, {})


def endswith(actual, template):
    at, tt = tokens(actual), tokens(template)
    return len(at) >= len(tt) and _match(at, tt, len(at) - len(tt), {}, {})


class S(str):
    """A canonical rendering: comparisons against templates are modulo renaming of the variables bound inside the fragment."""

    def __eq__(self, other):
        if isinstance(other, str):
            return str.__eq__(self, other) or eq(str(self), str(other))
        return NotImplemented

    def __ne__(self, other):
        r = self.__eq__(other)
        return r if r is NotImplemented else not r

    __hash__ = str.__hash__

    def __contains__(self, item):
        return str.__contains__(self, item) or contains(str(self), str(item))

    def startswith(self, prefix, *a):
        if isinstance(prefix, tuple):
            return any(self.startswith(p) for p in prefix)
        return str.startswith(self, prefix, *a) or (not a and startswith(str(self), prefix))

    def endswith(self, suffix, *a):
        if isinstance(suffix, tuple):
            return any(self.endswith(p) for p in suffix)
        return str.endswith(self, suffix, *a) or (not a and endswith(str(self), suffix))

    def count(self, sub, *a):
        c = str.count(self, sub, *a)
        return c if c or a else count(str(self), sub)
