"""C08 List quantifiers count the members the author wrote.

WRAP                 a list under all()/of() keeps its quantifier: only all() (not of()) may drop the wrapper, and only for one unbatched member
BATCH-UNDER-COUNTER  a batched matcher (several members in one automaton / regex set) is placed under a counter only as the sole element,
                     where the solver counts per needle; otherwise the counter would see several members as one
MEMBER-ONCE          every member of the list lands in exactly one bucket exactly once
T-COUNT              the solver's batched all()/of() arms compare the per-needle hit count with the number of needles / the threshold
TRI-ALL / TRI-OF / TRI-MATRIX  the counting loops over group members (shared with C06)
LOCKSTEP / AHO-OVERLAP / T-OFFSET  per-needle counting relies on aligned context vectors and overlapping scans (shared with C07)
"""
import re

import core
import facts
import q
from c03 import push_count_paths
from facts import walk, walk_with_path, peel, call_is, unblock, variant_of, strip_ref, subpat, pat_str, lit, or_pats
from show import show, show_fn

BUCKETS = ("exact", "starts_with", "ends_with", "contains", "regex", "rest")


def push_counts_any(n, names):
    """Numbers of pushes to any vector in `names` along the paths through one loop iteration (paths ending in `continue` included,
    paths that return/break excluded)."""
    done = set()

    def go(n, acc):
        """acc: set of counts so far; returns set of counts for paths that fall through."""
        n = unblock(n)
        k = n.get("k")
        if k == "Call":
            if (n.get("fn") or "").endswith("::push") and show(n["args"][0]) in names:
                return {a + 1 for a in acc}
            out = acc
            for x in n.get("args", []):
                out = go(x, out)
            return out
        if k == "Block":
            cur = acc
            for s in n["stmts"]:
                e = s["e"] if s["k"] == "Expr" else s.get("init")
                if e is not None:
                    cur = go(e, cur)
                if not cur:
                    return set()
            if n.get("expr"):
                cur = go(n["expr"], cur)
            return cur
        if k == "If":
            c = go(n["cond"], acc) if peel(n["cond"]).get("k") != "LetCond" else go(peel(n["cond"])["arg"], acc)
            a = go(n["then"], c)
            b = go(n["else"], c) if n.get("else") else c
            return a | b
        if k == "Match":
            c = go(n["scrut"], acc)
            out = set()
            for a in n["arms"]:
                out |= go(a["body"], c)
            return out
        if k in ("Return", "Break"):
            return set()
        if k == "Continue":
            done.update(acc)
            return set()
        if k == "Try":
            return go(n["arg"], acc)
        return acc

    res = go(n, {0})
    return res | done


def run(rep):
    F = facts.load("A")
    rep.configs = ["A(core,json)"]
    rep.explanation = (
        "Counting 'the members as written' rests on four structural facts: the loader keeps the quantifier wrapper on every path where the key "
        "had one (only all() over a single unbatched member may drop it), every member lands in exactly one bucket once, a batched matcher is "
        "counted per needle (the solver's batched arms compare slow_aho / RegexSet::matches counts with the number of needles or the threshold) "
        "and is never one element among several under a counter, and the counting loops over group members follow the truth tables (shared "
        "with C06).  Counts over array-valued fields are not decided."
    )
    for r, t in (("WRAP", "quantifier wrapper kept"), ("BATCH-UNDER-COUNTER", "a batched matcher under a counter is the sole element"),
                 ("MEMBER-ONCE", "each list member is pushed into exactly one bucket once"), ("T-COUNT", "batched all()/of() comparisons")):
        rep.describe(r, t)
    pm = F.fn("parser::parse_mapping")
    if pm is None:
        rep.lost("WRAP", "WRAP/anchor", "parser::parse_mapping")
        return
    # the list arm
    seq = None
    for n in walk(pm.body):
        if n.get("k") == "Match" and show(n["scrut"]) == "v":
            for a in n["arms"]:
                if variant_of(a["pat"]) == ("Value", "Sequence"):
                    seq = a
    if seq is None:
        rep.lost("WRAP", "WRAP/list-arm", "the Yaml::Sequence arm of parse_mapping")
        return
    # ---------------------------------------------------------------- WRAP
    tail = seq["body"].get("expr")
    chain = []
    cur = unblock(tail) if tail else None
    while cur is not None and cur.get("k") == "If":
        chain.append(cur)
        cur = unblock(cur["else"]) if cur.get("else") else None
    final_else = cur
    conds = [show(c["cond"]) for c in chain]
    ok = len(chain) == 3 and conds[0] == "<T, A>::is_empty(group)" and any(x.get("k") == "Return" for x in walk(chain[0]["then"]))
    rep.check(ok, "WRAP", "WRAP/result-chain", seq["sp"], "result is chosen by: empty => Err; single unbatched member; quantified key; plain list", str([c[:60] for c in conds]))
    if len(chain) == 3:
        c1 = q.conj(chain[1]["cond"])
        s1 = [show(x) for x in c1]
        ok_un = "Not(multiple)" in s1 and "(<T, A>::len(group) Eq 1)" in s1
        neg_of = [x for x in s1 if x.startswith("Not(match e {") and "Expression::Match(Match::Of(_), _) => true" in x and "_ => false" in x]
        rep.check(ok_un and len(neg_of) == 1, "WRAP", "WRAP/of-single", chain[1]["sp"],
                  "the bare member is returned only for one unbatched member and never when the key is of(k, n) (of(k,0) and of(k,2) over one member are not the member itself)", str(s1))
        then1 = show(chain[1]["then"])
        rep.check(then1 == "<T>::expect(Iterator::next(IntoIterator::into_iter(group)), \"..\")", "WRAP", "WRAP/unwrap-is-member", chain[1]["sp"], "the unwrapped result is the single member", then1[:80])
        c2 = peel(chain[2]["cond"])
        okc2 = c2.get("k") == "LetCond" and pat_str(c2["pat"]) == "Expression::Match($m, _)" and show(c2["arg"]) == "e"
        rep.check(okc2, "WRAP", "WRAP/quantified-branch", chain[2]["sp"], "next: if the key expression is Match(m, _)", show(chain[2]["cond"])[:80])
        t2 = unblock(chain[2]["then"])
        leaves = []
        if t2.get("k") == "If":
            leaves = [(show(t2["cond"]), unblock(t2["then"])), ("else", unblock(t2["else"]))]
        okm = len(leaves) == 2 and all(l[1].get("k") == "Adt" and l[1]["variant"] == "Match" and show([f for f in l[1]["fields"] if f["name"] == "0"][0]["e"]) == "m" for l in leaves)
        if not okm and t2.get("k") == "If":
            # first leaf is a block with a let
            l0 = unblock(t2["then"])
            if l0.get("k") == "Block" and l0.get("expr"):
                leaves[0] = (leaves[0][0], unblock(l0["expr"]))
                okm = all(l[1].get("k") == "Adt" and l[1]["variant"] == "Match" and show([f for f in l[1]["fields"] if f["name"] == "0"][0]["e"]) == "m" for l in leaves)
        rep.check(okm, "WRAP", "WRAP/keeps-quantifier", chain[2]["sp"], "both results of the quantified branch are Match(m, ..) with the key's own quantifier", "; ".join(show(l[1])[:70] for l in leaves))
        fe = show(final_else) if final_else is not None else "-"
        rep.check(fe == "Expression::BooleanGroup(BoolSym::Or, group)", "WRAP", "WRAP/plain-list", seq["sp"], "a plain list is the or-group of its members", fe[:80])
        # ------------------------------------------------------------ BATCH-UNDER-COUNTER
        for cond, leaf in leaves:
            inner = [f for f in leaf["fields"] if f["name"] == "1"][0]["e"] if leaf.get("k") == "Adt" else None
            s = show(inner) if inner is not None else ""
            if "BooleanGroup(BoolSym::Or, group)" in s:
                facts_true = [show(x) for x in q.true_facts(q.context((), leaf))]
                # the branch is the else of `group.len() == 1`; nothing excludes multiple == true here
                guarded = "Not(multiple)" in " ".join(show(x) for c in chain[2:3] for x in q.conj(c["cond"]))
                rep.check(guarded, "BATCH-UNDER-COUNTER", "BATCH-UNDER-COUNTER/parse_mapping/group-with-batched-member", leaf["sp"],
                          "a group placed under all()/of() contains no batched matcher (each element is one member)",
                          "Match(m, group(or, group)) is built although `multiple` may be true: the group then holds an automaton / regex set that stands for several members but is counted as one")
            else:
                rep.ok("BATCH-UNDER-COUNTER", "BATCH-UNDER-COUNTER/parse_mapping/sole-element", leaf["sp"], "a single (possibly batched) element goes under the quantifier alone; the solver then counts per needle (T-COUNT)")
    # `multiple` is set exactly where a multi-member matcher is built
    mult = [(n, p) for n, p in walk_with_path(seq["body"]) if n.get("k") == "Assign" and show(n["lhs"]) == "multiple"]
    okmult = len(mult) == 4 and all(lit(n["rhs"]) == ("bool", True) for n, _ in mult)
    sites = []
    for n, p in mult:
        blk = [x for x in p if x.get("k") == "Block"][-1]
        sites.append("AhoCorasick" if "Search::AhoCorasick" in show(blk) else "RegexSet" if "Search::RegexSet" in show(blk) else "?")
    rep.check(okmult and sorted(sites) == ["AhoCorasick", "AhoCorasick", "RegexSet", "RegexSet"], "BATCH-UNDER-COUNTER", "BATCH-UNDER-COUNTER/multiple-flag", seq["sp"],
              "`multiple` is raised exactly in the four blocks that build a multi-member automaton or regex set", str(sites))
    # and every AhoCorasick/RegexSet constructor in the list arm sits in such a block
    batched = [(n, p) for n, p in walk_with_path(seq["body"]) if n.get("k") == "Adt" and n["adt"] == "parser::Search" and n["variant"] in ("AhoCorasick", "RegexSet")]
    okb = True
    for n, p in batched:
        blk = [x for x in p if x.get("k") == "Block"]
        okb = okb and any("multiple = true" in show(b) for b in blk[-3:])
    rep.check(okb and len(batched) == 4, "BATCH-UNDER-COUNTER", "BATCH-UNDER-COUNTER/flag-covers-all", seq["sp"], "no batched matcher is built without raising `multiple`", str(len(batched)))
    # ---------------------------------------------------------------- MEMBER-ONCE
    loops = [n for n in walk(seq["body"]) if n.get("k") == "For" and show(n["iter"]) == "s"]
    if len(loops) != 1:
        rep.lost("MEMBER-ONCE", "MEMBER-ONCE/loop", "the loop over the list members")
    else:
        counts = push_counts_any(loops[0]["body"], BUCKETS)
        rep.check(counts == {1}, "MEMBER-ONCE", "MEMBER-ONCE/one-push-per-member", loops[0]["sp"], "every path through the member loop that does not return Err pushes exactly one item into exactly one bucket", str(sorted(counts)))
        # buckets are drained completely: each bucket loop pushes one per element (or lockstep pair), group.extend(rest)
        s = show(seq["body"])
        rep.check("Extend::extend(group, rest)" in s, "MEMBER-ONCE", "MEMBER-ONCE/rest-kept", seq["sp"], "the non-string members are appended to the group unchanged", "")
        for b in ("starts_with", "contains", "ends_with", "exact", "regex"):
            bl = [n for n in walk(seq["body"]) if n.get("k") == "For" and show(n["iter"]) == "IntoIterator::into_iter(%s)" % b]
            okd = len(bl) == 1
            if okd:
                import c07 as _c07
                ctx_names = tuple(r[3] for r in _c07.lockstep_roles(F).values())  # the two kind vectors that go into the list automata
                names = (ctx_names + ("group",)) if b != "regex" else ("iregex_set", "regex_set")
                c = push_counts_any(bl[0]["body"], names)
                okd = c == {1} or c == {0, 1}  # `if let Pattern::X(s) = i.pattern` is irrefutable for this bucket (LOCKSTEP/bucket-kind)
            rep.check(okd, "MEMBER-ONCE", "MEMBER-ONCE/drain/" + b, bl[0]["sp"] if bl else seq["sp"], "every element of bucket `%s` is moved into a matcher list" % b, "")
    # ---------------------------------------------------------------- T-COUNT
    for fname, kind in (("solver::match_all", "all"), ("solver::match_of", "of")):
        f = F.fn(fname)
        if f is None:
            rep.lost("T-COUNT", "T-COUNT/anchor/" + fname, fname)
            continue
        params = [p["pat"]["id"] for p in f.thir["params"] if p.get("pat")]
        thr_id = params[3] if len(params) > 3 else None
        # counters: variables incremented by one inside `for _ in set.matches(x).iter()`
        counters = set()
        cnt_loops = 0
        for n in walk(f.body):
            if n.get("k") == "For" and any(call_is(x, "RegexSet::matches") for x in walk(n["iter"])):
                b = facts.only(n["body"])
                if b.get("k") == "AssignOp" and b["op"] == "AddAssign" and lit(b["rhs"]) == ("i", 1) and q.var_id(b["lhs"]) is not None:
                    counters.add(q.var_id(b["lhs"]))
                    cnt_loops += 1
        # ... or bound to `set.matches(x).iter().count()` (also through an extracted helper); `SetMatches::len()` would be the
        # number of patterns, not of hits, and is not accepted
        def _is_set_count(e):
            e = unblock(e)
            while e.get("k") == "Block" and e.get("expr") is not None:
                e = unblock(e["expr"])
            if not call_is(e, "Iterator::count"):
                return False
            x = peel(e["args"][0])
            while call_is(x, "::iter") or call_is(x, "IntoIterator::into_iter"):
                x = peel(x["args"][0])
            return call_is(x, "RegexSet::matches")
        let_counts = set()
        for x in walk(f.body):
            if x.get("k") == "Block":
                for s in x["stmts"]:
                    if s["k"] == "Let" and strip_ref(s["pat"]).get("k") == "Bind" and s.get("init") is not None and _is_set_count(s["init"]):
                        counters.add(strip_ref(s["pat"])["id"])
                        cnt_loops += 1
                        let_counts.add(id(unblock(s["init"])))
        # ... or used in place
        for x in walk(f.body):
            if call_is(x, "Iterator::count") and _is_set_count(x) and id(x) not in let_counts and not any(id(unblock(y)) == id(x) for y in []):
                if not any(x is peel(st["init"]) or q.contains(st["init"], x) for blk in walk(f.body) if blk.get("k") == "Block" for st in blk["stmts"] if st["k"] == "Let" and st.get("init") is not None and _is_set_count(st["init"])):
                    cnt_loops += 1
        # ... or bound to a block that is such a loop and yields its counter (`fold`, an extracted helper)
        for x in walk(f.body):
            if x.get("k") == "Block":
                for s in x["stmts"]:
                    if s["k"] == "Let" and strip_ref(s["pat"]).get("k") == "Bind" and s.get("init") is not None:
                        e = unblock(s["init"])
                        if e.get("k") == "Block" and e.get("expr") is not None and q.var_id(e["expr"]) in counters and len(e["stmts"]) == 2 \
                                and e["stmts"][0]["k"] == "Let" and strip_ref(e["stmts"][0]["pat"]).get("id") == q.var_id(e["expr"]) and lit(e["stmts"][0].get("init")) == ("i", 0):
                            counters.add(strip_ref(s["pat"])["id"])
        aho_vars = {s["pat"]["id"] for x in walk(f.body) if x.get("k") == "Block" for s in x["stmts"] if s["k"] == "Let" and s["pat"].get("k") == "Bind" and s.get("init") and call_is(peel(s["init"]), "solver::slow_aho")}
        rep.check(cnt_loops >= 1, "T-COUNT", "T-COUNT/%s/regexset-counter" % fname.split("::")[-1], f.sp, "the regex-set count is one per matching pattern (a unit counter over set.matches(x).iter(), or iter().count())", str(cnt_loops))
        site_nodes = []
        nc = 0
        for B, path in walk_with_path(f.body):
            if B.get("k") != "Binary" or B["op"] not in ("Eq", "Ne", "Ge", "Gt", "Le", "Lt"):
                continue
            L, R = peel(B["lhs"]), peel(B["rhs"])
            batch = None
            for e in q.context(path, B):
                if e[0] == "if" and e[2] and peel(e[1]).get("k") == "LetCond":
                    ps = pat_str(peel(e[1])["pat"])
                    if "Search::AhoCorasick(" in ps:
                        batch = ("aho", peel(e[1])["pat"])
                    elif "Search::RegexSet(" in ps:
                        batch = ("regexset", peel(e[1])["pat"])
            if batch is None:
                continue
            srch = strip_ref(subpat(batch[1], 0))
            is_hits = ((call_is(L, "solver::slow_aho") or (L.get("k") == "Var" and L["id"] in aho_vars)) and batch[0] == "aho") or \
                (batch[0] == "regexset" and ((L.get("k") == "Var" and L["id"] in counters) or _is_set_count(L)))
            if not is_hits:
                continue
            nc += 1
            site_nodes.append(B)
            key = "T-COUNT/%s/%s#%d" % (fname.split("::")[-1], batch[0], nc)
            # the If this comparison decides, and how many negations lie between
            nots = 0
            gov = None
            direct = True
            for anc in reversed(path):
                if anc.get("k") == "Unary" and anc["op"] == "Not":
                    nots += 1
                elif anc.get("k") in ("Borrow", "Deref", "Coerce", "ByUse"):
                    continue
                elif anc.get("k") == "If" and q.contains(anc["cond"], B):
                    gov = anc
                    break
                elif anc.get("k") == "Block" and anc.get("expr") is not None and q.contains(anc["expr"], B) and not any(x.get("k") in ("If", "Match") for x in [unblock(anc["expr"])] if not (x is B)):
                    continue  # `{ let ..; <comparison> }` (an inlined closure or helper): still the comparison itself
                elif anc.get("k") in ("Block", "Let") or (anc.get("k") == "If" and not q.contains(anc["cond"], B)) or anc.get("k") == "Match":
                    direct = False  # the comparison is the value of a branch of a larger boolean expression
                else:
                    direct = False
            if kind == "all":
                if batch[0] == "aho":
                    mid = strip_ref(subpat(srch, 1)).get("id")
                    oktot = R.get("k") == "Cast" and R["ty"] == "u64" and call_is(peel(R["arg"]), "::len") and q.base_var(peel(R["arg"])["args"][0], f.body) == mid
                else:
                    sid = strip_ref(subpat(srch, 0)).get("id")
                    oktot = call_is(R, "::len") and call_is(peel(R["args"][0]), "RegexSet::patterns") and q.base_var(peel(R["args"][0])["args"][0], f.body) == sid
                okact = False
                det = "-"
                if gov is not None and B["op"] in ("Eq", "Ne"):
                    all_found_when_true = (B["op"] == "Eq") != (nots % 2 == 1)
                    then = unblock(gov["then"])
                    det = show(gov["then"])[:40]
                    if not direct:
                        # embedded in a larger condition (e.g. the body of an `any` closure): its value must mean "all found"
                        okact = all_found_when_true and then.get("k") == "Block" and len(then["stmts"]) == 2 and peel(then["stmts"][0]["e"]).get("k") == "Assign" and lit(peel(then["stmts"][0]["e"])["rhs"]) == ("bool", True) and peel(then["stmts"][1]["e"]).get("k") == "Break"
                    elif all_found_when_true:
                        okact = then.get("k") == "Block" and len(then["stmts"]) == 2 and peel(then["stmts"][0]["e"]).get("k") == "Assign" and lit(peel(then["stmts"][0]["e"])["rhs"]) == ("bool", True) and peel(then["stmts"][1]["e"]).get("k") == "Break" and not gov.get("else")
                    else:
                        okact = q.returns_sr(gov["then"], "False") and not gov.get("else")
                rep.check(oktot and okact, "T-COUNT", key, B["sp"], "all(): the value passes iff the number of matched members equals the number of members", "%s %s %s => %s" % (show(L)[:40], B["op"], show(R), det))
            else:
                ok = gov is not None and direct and nots == 0 and q.var_id(R) == thr_id and thr_id is not None and B["op"] == "Ge" and q.returns_sr(gov["then"], "True") and not gov.get("else")
                rep.check(ok, "T-COUNT", key, B["sp"], "of(n): true as soon as the number of matched members reaches the threshold", "%s %s %s" % (show(L)[:40], B["op"], show(R)))
        # every branch of the two batched value-kind matches (string, list, and each scalar kind under str()) decides by such a comparison
        narms = nbad = 0
        for n in walk(f.body):
            if n.get("k") != "Match" or len(n["arms"]) < 3:
                continue
            if not any(variant_of(pp) and variant_of(pp)[0] == "Value" and variant_of(pp)[1] == "String" for a in n["arms"] for alt in or_pats(a["pat"]) for pp in q._walk_pat(alt)):
                continue
            if not any(call_is(x, "solver::slow_aho") or call_is(x, "RegexSet::matches") for x in walk(n)):
                continue
            for a in n["arms"]:
                if q._pat_wild(a["pat"]):
                    continue
                narms += 1
                if not any(q.contains(a["body"], B_) for B_ in site_nodes):
                    nbad += 1
        rep.check(narms >= 12 and nbad == 0 and nc >= 8, "T-COUNT", "T-COUNT/%s/sites" % fname.split("::")[-1], f.sp, "every value-kind branch of the two batched matchers decides by a count comparison (%d branches, %d comparisons)" % (narms, nc), "%d branches without a comparison" % nbad)
    # match_of(count == 0) is the negation of the member
    mo = F.fn("solver::match_of")
    if mo is not None:
        s = show(mo.body)
        mparams = [strip_ref(p["pat"]).get("id") for p in mo.thir["params"] if p.get("pat")]
        okz = False
        st0 = mo.body["stmts"][0] if mo.body.get("stmts") else None
        first = peel(st0["e"]) if st0 and st0["k"] == "Expr" else (peel(mo.body["expr"]) if mo.body.get("expr") is not None and not mo.body.get("stmts") else None)
        if first is not None and first.get("k") == "If":
            c = peel(first["cond"])
            if c.get("k") == "Binary" and c["op"] == "Eq" and q.var_id(c["lhs"]) == mparams[3] and lit(c["rhs"]) == ("i", 0):
                leaves = q.result_leaves(first["then"])
                ms = [x for x in walk(first["then"]) if x.get("k") == "Match" and call_is(peel(x["scrut"]), "solver::solve_expression")]
                if len(ms) == 1 and q.var_id(peel(ms[0]["scrut"])["args"][0]) == mparams[0] and q.var_id(peel(ms[0]["scrut"])["args"][2]) == mparams[2]:
                    table = {}
                    for a in ms[0]["arms"]:
                        v = variant_of(a["pat"])
                        b = unblock(a["body"])
                        val = b["value"] if b.get("k") == "Return" and b.get("value") is not None else b
                        val = peel(val)
                        if v and v[0] == "SolverResult" and val.get("k") == "Adt" and val["adt"].endswith("SolverResult"):
                            table[v[1]] = val["variant"]
                    # the match's value is what the branch returns
                    rets = [x for x in walk(first["then"]) if x.get("k") == "Return"]
                    flows = any(x.get("value") is not None and peel(x["value"]) is ms[0] for x in rets) or (first["then"].get("expr") is not None and unblock(first["then"]["expr"]) is ms[0] and False)
                    okz = table == {"True": "False", "False": "True", "Missing": "Missing"} and flows
        rep.check(okz, "T-COUNT", "T-COUNT/match_of/zero", mo.sp, "of(.., 0) over a single element: true iff it is false (missing stays missing)", s[:120])
    core.import_rules(rep, "c02", {"OPERAND"})
    # of(k, n) counts the members of a regex set: the rewrite pass must keep one pattern per member
    core.import_rules(rep, "c01", {"REWRITE-CONST"})
    core.import_rules(rep, "c06", {"TRI-ALL", "TRI-OF", "TRI-MATRIX"})
    core.import_rules(rep, "c07", {"LOCKSTEP", "AHO-OVERLAP", "T-OFFSET"})
    rep.floor("WRAP", 6)
    rep.floor("BATCH-UNDER-COUNTER", 4)
    rep.floor("MEMBER-ONCE", 7)
    rep.floor("T-COUNT", 33)
    rep.exhaustive = True
    rep.assumptions.append("counts over array-valued fields (one array element must satisfy all/n members) are not decided")
