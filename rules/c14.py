"""C14 Rule serialisation round-trips.

T-SERDE-OUT  what Serialize emits: Detection = {"condition": expression_raw} + flattened identifiers_raw and nothing else;
             Rule = its four fields, unconditionally
T-SERDE-IN   what Deserialize consumes: Rule's field table (optimised defaulted, the other three required); Detection.visit_map takes
             "condition" as the condition text and every other key as an identifier
RAW=PARSED   the text stored in expression_raw is the text that was tokenised and parsed; the YAML stored under a key in identifiers_raw
             is a clone of the value that was parsed under the same key; duplicates are rejected
ENTRY        from_str / from_value / load reach the same Deserialize impl for Rule
OPT-FLAG     optimise() never touches the raw parts, sets optimised, and is a no-op on a rule already marked optimised
"""
import re

import facts
import q
from facts import walk, walk_with_path, peel, call_is, unblock, variant_of, strip_ref, subpat, pat_str, lit
from show import show


def const_str(p):
    """Decode a string-constant pattern printed as a byte valtree."""
    s = pat_str(p)
    m = re.search(r"Branch\(\[(.*?)\]\)", s)
    if not m:
        return None
    try:
        return bytes(int(x.split("_")[0]) for x in m.group(1).split(",") if x.strip()).decode()
    except ValueError:
        return None


def run(rep):
    F = facts.load("A")
    rep.configs = ["A(core,json)"]
    rep.explanation = (
        "A loaded rule keeps the raw condition text and the raw identifier YAML next to the parsed tree, and serialisation emits only the raw "
        "parts.  The round trip is therefore exact if (a) the serialiser's key table equals the deserialiser's, (b) the raw parts stored are "
        "exactly the inputs that were parsed, (c) all loading entry points reach the same Deserialize impl, and (d) optimise() leaves the raw "
        "parts alone and marks the rule.  Each clause is a table or a def-use fact of the typed tree (the derive output is inspected after "
        "expansion, so serde attributes are seen through their effect).  serde_yaml's own text fidelity (quoting) is trusted; verdict equality "
        "for optimised rules reduces to C01."
    )
    for r, t in (("T-SERDE-OUT", "emitted keys"), ("T-SERDE-IN", "consumed keys"), ("RAW=PARSED", "stored raw parts are the parsed inputs"),
                 ("ENTRY", "one Deserialize impl behind every loader"), ("OPT-FLAG", "optimise and the raw parts")):
        rep.describe(r, t)
    ds = F.fn("rule::_::<impl rule::_::_serde::Serialize for rule::Detection>::serialize")
    rs = F.fn("rule::_::<impl rule::_::_serde::Serialize for rule::Rule>::serialize")
    if ds is None or rs is None:
        rep.lost("T-SERDE-OUT", "T-SERDE-OUT/anchor", "derived Serialize impls of Detection and Rule")
    else:
        s = show(ds.body)
        want = ("{let $__serde_state = Serializer::serialize_map(__serializer, Option::None)?; SerializeMap::serialize_entry(__serde_state, \"condition\", self.expression_raw)?; "
                "Serialize::serialize(self.identifiers_raw, FlatMapSerializer::FlatMapSerializer(__serde_state))?; SerializeMap::end(__serde_state)}")
        rep.check(s == want, "T-SERDE-OUT", "T-SERDE-OUT/detection", ds.sp, "Detection emits `condition: <raw text>` plus the raw identifiers flattened, nothing else, unconditionally", s[:200])
        fields = [(lit(n["args"][1])[1] if lit(n["args"][1]) else "?", show(n["args"][2])) for n in walk(rs.body) if call_is(n, "SerializeStruct::serialize_field")]
        wantf = [("optimised", "self.optimised"), ("detection", "self.detection"), ("true_positives", "self.true_positives"), ("true_negatives", "self.true_negatives")]
        rep.check(fields == wantf, "T-SERDE-OUT", "T-SERDE-OUT/rule-fields", rs.sp, "Rule emits its four fields under their own names", str(fields))
        cond = [n for n in walk(rs.body) if n.get("k") in ("If", "Match") and not (n.get("k") == "Match" and n.get("src", "").startswith("Try"))]
        skip = [n for n in walk(rs.body) if call_is(n, "skip_field")]
        rep.check(not skip and not [c for c in cond if c.get("k") == "If"], "T-SERDE-OUT", "T-SERDE-OUT/rule-unconditional", rs.sp, "no field of Rule is skipped conditionally", "%d skip_field calls" % len(skip))
    # ---- Rule deserialisation table
    fv = [f for n, f in F.fns.items() if "Deserialize<'de> for rule::Rule" in n and "__FieldVisitor" in n and n.endswith("::visit_str")]
    vmr = [f for n, f in F.fns.items() if "Deserialize<'de> for rule::Rule" in n and "__Visitor" in n and n.endswith("::visit_map")]
    if len(fv) != 1 or len(vmr) != 1:
        rep.lost("T-SERDE-IN", "T-SERDE-IN/anchor", "derived Deserialize of Rule")
    else:
        m = unblock(fv[0].body)
        table = {}
        if m.get("k") == "Match":
            for a in m["arms"]:
                name = const_str(a["pat"])
                if name:
                    table[name] = show(a["body"])
        rep.check(table == {"optimised": "Result::Ok(__Field::__field0)", "detection": "Result::Ok(__Field::__field1)", "true_positives": "Result::Ok(__Field::__field2)", "true_negatives": "Result::Ok(__Field::__field3)"},
                  "T-SERDE-IN", "T-SERDE-IN/rule-keys", fv[0].sp, "Rule consumes exactly the keys it emits", str(table))
        s = show(vmr[0].body)
        missing = re.findall(r'missing_field\("(\w+)"\)', s)
        rep.check(sorted(missing) == ["detection", "true_negatives", "true_positives"], "T-SERDE-IN", "T-SERDE-IN/rule-required", vmr[0].sp, "detection and both example lists are required; optimised defaults", str(missing))
        rep.check("Option::None => Default::default()" in s, "T-SERDE-IN", "T-SERDE-IN/rule-default", vmr[0].sp, "an absent `optimised` is false", "")
    # ---- Detection.visit_map
    vm = [f for n, f in F.fns.items() if n.endswith("::visit_map") and "DetectionVisitor" in n]
    if len(vm) != 1:
        rep.lost("RAW=PARSED", "RAW=PARSED/anchor", "Detection visit_map")
    else:
        v = vm[0]
        body = v.body
        # roles come from the value that is finally built: Detection { expression: E, identifiers: I, expression_raw: R, identifiers_raw: IR }
        fin0 = body.get("expr")
        det0 = peel(peel(fin0)["fields"][0]["e"]) if fin0 is not None and facts.adt_is(peel(fin0), "Result", "Ok") else {}
        role = {f_["name"]: q.var_id(f_["e"]) for f_ in det0.get("fields", [])} if det0.get("k") == "Adt" and det0.get("adt") == "rule::Detection" else {}
        I_, IR_, R_ = role.get("identifiers"), role.get("identifiers_raw"), role.get("expression_raw")
        er = None
        for s_ in body.get("stmts", []):
            if s_["k"] == "Let" and strip_ref(s_["pat"]).get("k") == "Bind" and strip_ref(s_["pat"])["id"] == R_:
                er = s_
        # the key dispatch: which literal names the key is compared with (match arms or == tests)
        names = []
        for n in walk(body):
            if n.get("k") == "Match":
                for a_ in n["arms"]:
                    cs = const_str(a_["pat"])
                    if cs is not None:
                        names.append(cs)
            if (call_is(n, "PartialEq::eq") or call_is(n, "PartialEq::ne")) and len(n["args"]) == 2:
                for x in n["args"]:
                    if lit(x) and lit(x)[0] == "s":
                        names.append(lit(x)[1])
            if n.get("k") == "Binary" and n["op"] in ("Eq", "Ne"):
                for x in (n["lhs"], n["rhs"]):
                    if lit(x) and lit(x)[0] == "s":
                        names.append(lit(x)[1])
        rep.check(names == ["condition"], "T-SERDE-IN", "T-SERDE-IN/detection-keys", v.sp, "`condition` is the only reserved key: the condition text; every other key is an identifier", str(names))
        # the condition value: X = Some(map.next_value()?) once, after the duplicate test; R = X.ok_or_else(..)?
        xinit = peel(er["init"]) if er is not None else {}
        xarg = peel(xinit["arg"]) if xinit.get("k") == "Try" else {}
        X_ = q.base_var(xarg["args"][0]) if call_is(xarg, "::ok_or_else") or call_is(xarg, "::ok_or") else None
        rep.check(X_ is not None, "RAW=PARSED", "RAW=PARSED/condition-required", er["sp"] if er else v.sp, "expression_raw is the stored condition value (missing => Err)", show(er["init"]) if er else "-")
        xas = [(n, pth) for n, pth in walk_with_path(body) if n.get("k") == "Assign" and q.var_id(n["lhs"]) == X_ and X_ is not None]
        okx = False
        detx = "%d assignments" % len(xas)
        if len(xas) == 1:
            n, pth = xas[0]
            rhs = peel(n["rhs"])
            val = peel(rhs["fields"][0]["e"]) if rhs.get("k") == "Adt" and rhs.get("variant") == "Some" else {}
            val = peel(val["arg"]) if val.get("k") == "Try" else {}
            dup = any(e_[0] == "if" and not e_[2] and call_is(peel(e_[1]), "::is_some") and q.base_var(peel(e_[1])["args"][0]) == X_ for e_ in q.context(pth, n))
            okx = call_is(val, "MapAccess::next_value") and dup
            detx = show(n)[:100]
        rep.check(okx, "RAW=PARSED", "RAW=PARSED/condition-arm", v.sp, "the condition value is stored once (a second `condition` key is rejected before it)", detx)
        # identifiers: insert(I, key, parse_identifier(&V)?) and insert(IR, key, V) for the same key and the same value V = map.next_value()?
        insI = [(n, pth) for n, pth in walk_with_path(body) if call_is(n, "::insert") and q.base_var(n["args"][0]) == I_ and I_ is not None]
        insR = [(n, pth) for n, pth in walk_with_path(body) if call_is(n, "::insert") and q.base_var(n["args"][0]) == IR_ and IR_ is not None]
        oki = False
        deti = "%d/%d inserts" % (len(insI), len(insR))
        okdup = False
        if len(insI) == 1 and len(insR) == 1:
            (a_, pa), (b_, pb) = insI[0], insR[0]

            def keyvar(x):
                x = peel(x)
                while x.get("k") == "Call" and (x.get("fn") or "").endswith(("ToString::to_string", "Clone::clone", "ToOwned::to_owned", "String::from", "From::from", "Into::into")) and x.get("args"):
                    x = peel(x["args"][0])
                return q.base_var(x, body)
            ka, kb = keyvar(a_["args"][1]), keyvar(b_["args"][1])
            parsed = q.resolve(body, a_["args"][2]) if peel(a_["args"][2]).get("k") == "Var" else peel(a_["args"][2])
            pi = [x for x in walk(parsed) if call_is(x, "parser::parse_identifier")]
            rawv = peel(b_["args"][2])
            rawv = peel(rawv["args"][0]) if call_is(rawv, "Clone::clone") else rawv
            vid_ = q.var_id(rawv)
            vinit = q.let_init(body, vid_) if vid_ is not None else None
            vsrc = peel(peel(vinit)["arg"]) if vinit is not None and peel(vinit).get("k") == "Try" else {}
            oki = ka is not None and ka == kb and len(pi) == 1 and q.base_var(pi[0]["args"][0], body) == vid_ and call_is(vsrc, "MapAccess::next_value") and any(x.get("k") == "Try" for x in walk(parsed))
            deti = "%s | %s" % (show(a_)[:90], show(b_)[:90])
            okdup = any(e_[0] == "if" and not e_[2] and call_is(peel(e_[1]), "::contains_key") and q.base_var(peel(e_[1])["args"][0]) == I_ and keyvar(peel(e_[1])["args"][1]) == ka for e_ in q.context(pa, a_))
        rep.check(oki, "RAW=PARSED", "RAW=PARSED/identifier-arm", v.sp, "under one key, the parsed identifier and the stored raw YAML come from the same value (stored only if it parses)", deti)
        rep.check(okdup, "RAW=PARSED", "RAW=PARSED/duplicate-identifier", v.sp, "a repeated identifier key is an error (so raw and parsed maps have the same keys)", "")
        # the one tokenise call reads expression_raw; the let it initialises is the token vector; the one parse call reads that
        # vector; the let it initialises is the expression stored in Detection (each failure is an Err, by any spelling)
        def let_holding(call):
            hs = [s for s in body.get("stmts", []) if s["k"] == "Let" and s.get("init") is not None and s["pat"].get("k") == "Bind" and any(x is call for x in walk(s["init"]))]
            return hs[0] if len(hs) == 1 else None
        tcalls = [x for x in walk(body) if call_is(x, "Tokeniser::tokenise")]
        tk = let_holding(tcalls[0]) if len(tcalls) == 1 else None
        rep.check(bool(tk) and bool(er) and q.base_var(tcalls[0]["args"][0]) == er["pat"]["id"], "RAW=PARSED", "RAW=PARSED/tokenised-text", tk["sp"] if tk else v.sp,
                  "the tokens come from expression_raw itself", show(tk["init"])[:60] if tk else "%d tokenise calls" % len(tcalls))
        pcalls = [x for x in walk(body) if call_is(x, "parser::parse")]
        exl = let_holding(pcalls[0]) if len(pcalls) == 1 else None
        ex = [exl] if exl else []
        rep.check(bool(exl) and bool(tk) and q.base_var(pcalls[0]["args"][0]) == tk["pat"]["id"], "RAW=PARSED", "RAW=PARSED/parsed-tokens", exl["sp"] if exl else v.sp, "the expression is parsed from those tokens", show(exl["init"])[:60] if exl else "%d parse calls" % len(pcalls))
        fin = body.get("expr")
        okf = False
        det = show(fin)[:160] if fin else "-"
        if fin and facts.adt_is(peel(fin), "Result", "Ok"):
            d = peel(peel(fin)["fields"][0]["e"])
            if d.get("k") == "Adt" and d["adt"] == "rule::Detection":
                fm = {f["name"]: f["e"] for f in d["fields"]}
                ids = {k: q.var_id(e) for k, e in fm.items()}
                # expression = the parsed tokens; expression_raw = the stored condition text; identifiers / identifiers_raw = the two maps the
                # identifier branch inserts into (checked above), each created empty
                def empty_map(vid_):
                    init_ = q.let_init(body, vid_) if vid_ is not None else None
                    return init_ is not None and call_is(peel(init_), "::new") and "HashMap" in str(peel(init_).get("ty", ""))
                okf = None not in ids.values() and bool(ex) and ids.get("expression") == strip_ref(ex[0]["pat"]).get("id") and bool(er) and ids.get("expression_raw") == strip_ref(er["pat"]).get("id") \
                    and empty_map(ids.get("identifiers")) and empty_map(ids.get("identifiers_raw")) and ids.get("identifiers") != ids.get("identifiers_raw")
        rep.check(okf, "RAW=PARSED", "RAW=PARSED/detection-fields", v.sp, "Detection is built from exactly these four variables (raw parts beside their parsed forms)", det)
        # nothing mutates the raw strings between storing and building
        muts = [show(n)[:50] for n in walk(body) if n.get("k") == "Call" and n.get("args") and q.base_var(n["args"][0]) in (R_, IR_) and R_ is not None and peel(n["args"][0]) is not n["args"][0] and n["args"][0].get("k") == "Borrow" and n["args"][0].get("mut")]
        muts = [m for m in muts if "::insert(" not in m]
        rep.check(not muts, "RAW=PARSED", "RAW=PARSED/no-mutation", v.sp, "the raw parts are not modified after they are read", str(muts))
    # ---- entry points
    for nm, want in (("rule::Rule::from_str", ("serde_yaml::from_str", "s")), ("rule::Rule::from_value", ("serde_yaml::from_value", "value"))):
        f = F.fn(nm)
        if f is None:
            rep.lost("ENTRY", "ENTRY/" + nm, nm)
            continue
        calls = [n for n in walk(f.body) if n.get("k") == "Call" and n.get("fn") == want[0]]
        ok = len(calls) == 1 and "rule::Rule" in (calls[0].get("gen") or []) and show(calls[0]["args"][0]) == want[1]
        # nothing touches the input before it is handed to serde: no other call receives it, it is never borrowed mutably or reassigned
        pid_ = strip_ref(f.thir["params"][0]["pat"]).get("id")
        touched = [show(n)[:50] for n in walk(f.body) if (n.get("k") == "Call" and n is not (calls[0] if calls else None) and any(q.base_var(a_) == pid_ for a_ in n.get("args") or []))
                   or (n.get("k") == "Borrow" and n.get("mut") and q.var_id(n["arg"]) == pid_) or (n.get("k") in ("Assign", "AssignOp") and q.base_var(n["lhs"]) == pid_)]
        ok = ok and not touched
        rep.check(ok, "ENTRY", "ENTRY/" + nm, f.sp, "%s deserialises a Rule from its argument with serde_yaml (same Deserialize impl)" % nm.split("::")[-1], show(f.body)[:80])
    ld = F.fn("rule::Rule::load")
    rep.check(ld is not None and "Rule::from_str(Deref::deref(contents))" in show(ld.body), "ENTRY", "ENTRY/load", ld.sp if ld else "-", "load = read file then from_str", show(ld.body)[:80] if ld else "-")
    # ---- optimise and raw parts
    ro = F.fn("rule::Rule::optimise")
    if ro is None:
        rep.lost("OPT-FLAG", "OPT-FLAG/anchor", "Rule::optimise")
    else:
        s = show(ro.body)
        import optflow
        of = optflow.analyse(F)
        if of["error"]:
            rep.lost("OPT-FLAG", "OPT-FLAG/flow", "Rule::optimise inside the interpreted subset", of["error"][:200])
        else:
            bad_noop = [str(sw) for (sw, al), run in of["runs"].items() if al and any(run["fields"].get(k) != v for k, v in optflow.expected(sw, True).items())]
            rep.check(not bad_noop, "OPT-FLAG", "OPT-FLAG/noop-when-optimised", ro.sp, "a rule marked optimised is returned unchanged whatever the switches (so a reloaded optimised rule is not optimised twice)", "; ".join(bad_noop[:3]))
            bad_flag = [str(sw) for (sw, al), run in of["runs"].items() if not al and run["fields"].get("optimised") != ("lit", True)]
            rep.check(not bad_flag, "OPT-FLAG", "OPT-FLAG/sets-flag", ro.sp, "optimise marks the rule for every switch set", "; ".join(bad_flag[:3]))
            bad_raw = [str(sw) for (sw, al), run in of["runs"].items() if any(run["fields"].get(k) != ("init", k) for k in ("detection.expression_raw", "detection.identifiers_raw"))]
            rep.check(not bad_raw, "OPT-FLAG", "OPT-FLAG/raw-parts-kept", ro.sp, "the raw condition and raw identifiers of the returned rule are those of the input for every switch set", "; ".join(bad_raw[:3]))
    writes = []
    for name, f in F.fns.items():
        if f.thir is None:
            continue
        for n in walk(f.body):
            if n.get("k") in ("Assign", "AssignOp") and re.search(r"\.(expression_raw|identifiers_raw)$", show(n["lhs"])):
                writes.append(name)
            if n.get("k") == "Call" and n.get("args") and n["args"][0].get("k") == "Borrow" and n["args"][0].get("mut") and re.search(r"\.(expression_raw|identifiers_raw)$", show(n["args"][0])):
                writes.append(name)
    rep.check(not writes, "OPT-FLAG", "OPT-FLAG/raw-parts-immutable", "crate", "no function assigns to or mutably borrows Detection's raw parts after construction", str(writes))
    # "rules that were optimised before being serialised": the reloaded rule is the unoptimised one, so its verdicts equal the optimised
    # rule's only if the passes preserve verdicts; the structural rules about matcher rebuilding are shared with C01/C07
    import core
    core.import_rules(rep, "c01", {"REWRITE-CONST", "PASS-ARMS", "LINEAR"})
    core.import_rules(rep, "c07", {"FLAG"})
    core.import_rules(rep, "c01", {"ORDER-AND", "LAW"}, key_prefixes=("ORDER-AND/shake_0/", "LAW/shake_0/flatten", "LAW/shake_0/group-of-one", "LAW/shake_1/nested-merge"))
    # an optimised rule is serialised from its raw parts, so the reloaded copy is the unoptimised rule: the matrix form has to mean what the
    # written or-group means (one cell per column, cells compare against literals only, synthetic keys stay inside cells)
    core.import_rules(rep, "c03", {"L-MATRIX"})
    core.import_rules(rep, "c16", {"PROV-SYNTH"})
    rep.floor("T-SERDE-OUT", 3)
    rep.floor("T-SERDE-IN", 4)
    rep.floor("RAW=PARSED", 8)
    rep.floor("ENTRY", 3)
    rep.floor("OPT-FLAG", 3)
    rep.exhaustive = True
    rep.trusted.append("serde_yaml round-trips scalars faithfully (quoting of '1', '*x', '?re'); serde's FlatMapSerializer/flatten behave as documented")
    rep.assumptions.append("verdict equality of a reloaded optimised rule with the optimised original reduces to C01 (reloading yields the unoptimised tree with optimisation disabled)")
