"""C10 Field paths resolve to exactly the addressed value.

T-FIND        the default Object::find (both cfg copies): split on '.', per-segment step table, index parsing, state discipline
STEP-TOTAL    inside the loop the state `v` is only ever assigned Some(..): a failed lookup returns None instead of falling back to the
              "at root" state (otherwise a later segment is looked up from the root again)
INDEX         nth() receives exactly the usize parsed between '[' and ']'; the bracket iterator is exhausted
NO-OVERRIDE   no Object impl overrides find; all Document impls delegate to it
T-NESTED      solver: Object => recurse on it; Array => some element that is an object satisfies (per member under all); scalar => False; absent => Missing
NESTED-MODEL  the three array loops evaluated as models over (members x elements) oracle tables
"""
import itertools

import facts
import q
import tri
from facts import walk, walk_with_path, peel, call_is, unblock, variant_of, strip_ref, subpat, lit, pat_str, or_pats
from show import show, show_fn
from tri import Child, Model, Ret, Unrecognised, SR


def check_find(rep, F, cfg):
    """Decided by evaluating the typed tree over the (document, key) grid (findmodel); the structural step-table rules are the
    fallback when the body uses a construct the evaluator does not interpret, and extra evidence otherwise."""
    import core
    import findmodel
    f = F.fn("value::Object::find")
    tag = "[%s]" % cfg
    sub = core.Report(rep.pid, rep.tier)
    _check_find_structural(sub, F, cfg)
    rows, unrec = (None, "anchor missing") if f is None else findmodel.evaluate(F, f)
    if rows is None:
        rep.note("find model not applicable for %s: %s; structural rules decide" % (cfg, unrec))
        rep.instances.extend(sub.instances)
        return
    for key, want, got, agree in rows:
        if "[" in key or "]" in key:
            rule = "INDEX"
        elif want is None and "." in key:
            rule = "STEP-TOTAL"
        else:
            rule = "T-FIND"
        rep.check(agree, rule, "%s/model%s/%s" % (rule, tag, key if key else "<empty>"), f.sp,
                  "find(%r) on the model document is %s" % (key, "absent" if want is None else "the value the path language names"),
                  None if agree else "expected %r, the body yields %r" % (want, got))
    if all(r[3] for r in rows):
        # the evaluation covers the whole grid: shape findings of the structural rules are not violations
        rep.instances.extend(i for i in sub.instances if i.status == "discharged")
        dropped = [i.key for i in sub.instances if i.status != "discharged"]
        if dropped:
            rep.note("structural find rules not applicable to this shape of the body (%d): %s" % (len(dropped), ", ".join(dropped[:6])))
    else:
        rep.instances.extend(sub.instances)


def _check_find_structural(rep, F, cfg):
    f = F.fn("value::Object::find")
    tag = "[%s]" % cfg
    if f is None:
        rep.lost("T-FIND", "T-FIND/anchor" + tag, "default body of value::Object::find")
        return
    body = f.body
    site = f.sp
    params = [p["pat"] for p in f.thir["params"]]
    self_id, key_id = params[0]["id"], params[1]["id"]
    lets = [s for s in body.get("stmts", []) if s["k"] == "Let"]
    # the state variable is the one the function returns
    vlet = [s for s in lets if s["pat"].get("k") == "Bind" and s["pat"]["id"] == q.var_id(body.get("expr"))]
    okv = len(vlet) == 1 and facts.adt_is(peel(vlet[0]["init"]), "Option", "None")
    rep.check(okv, "T-FIND", "T-FIND/state-init" + tag, site, "state v starts as None (at root)", show(vlet[0]["init"]) if vlet else "-")
    vid = vlet[0]["pat"]["id"] if vlet else None
    loops = [s["e"] for s in body.get("stmts", []) if s["k"] == "Expr" and s["e"].get("k") == "For"]
    okl = len(loops) == 1 and call_is(peel(loops[0]["iter"]), "::split") and q.var_id(peel(loops[0]["iter"])["args"][0]) == key_id and lit(peel(loops[0]["iter"])["args"][1]) == ("c", ".")
    rep.check(okl, "T-FIND", "T-FIND/split" + tag, site, "segments = key.split('.')", show(loops[0]["iter"]) if loops else "-")
    rep.check(q.var_id(body.get("expr")) == vid, "T-FIND", "T-FIND/returns-state" + tag, site, "find returns the final state", show(body.get("expr")) if body.get("expr") else "-")
    if not okl:
        return
    loop = loops[0]
    kid = loop["pat"].get("id")
    top = unblock(loop["body"])
    if top.get("k") != "If":
        rep.lost("T-FIND", "T-FIND/branch" + tag, "loop body is if <indexed> {..} else {..}", show(top)[:80])
        return
    cond = show(top["cond"], ren={loop["pat"].get("name"): "k"})
    rep.check(cond == "(<impl str>::ends_with(k, ']') && <impl str>::contains(k, '['))", "T-FIND", "T-FIND/index-test" + tag, top["sp"], "a segment is indexed iff it ends with ']' and contains '['", cond)
    idx_b, plain_b = top["then"], top["else"]

    # ---- STEP-TOTAL
    nassign = 0
    for n in walk(loop["body"]):
        if n.get("k") == "Assign" and q.var_id(n["lhs"]) == vid:
            nassign += 1
            rhs = peel(n["rhs"])
            ok = rhs.get("k") == "Adt" and rhs["adt"].endswith("Option") and rhs["variant"] == "Some"
            rep.check(ok, "STEP-TOTAL", "STEP-TOTAL/%s#%d%s" % ("v", nassign, tag), n["sp"],
                      "a step stores Some(value); a failed lookup must return None, not reset the state to 'at root'", show(n))
    rep.check(nassign == 4, "STEP-TOTAL", "STEP-TOTAL/count" + tag, site, "four step assignments (object/root x plain/indexed)", str(nassign))

    # ---- per-branch step tables
    def step_table(branch, seg_var_id, indexed, label):
        ms = [n for n in walk(branch) if n.get("k") == "Match" and q.var_id(n["scrut"]) == vid]
        if len(ms) != 1:
            rep.lost("T-FIND", "T-FIND/%s/state-match%s" % (label, tag), "one match on the state v", str(len(ms)))
            return
        m = ms[0]
        got = [pat_str(a["pat"]) for a in m["arms"]]
        want = ["Option::Some(Value::Object($value))", "Option::Some(_)", "Option::None"]
        rep.check(got == want, "T-FIND", "T-FIND/%s/arms%s" % (label, tag), m["sp"], "state arms: Some(Object) / Some(other) / None, in that order", str(got))
        if got != want:
            return
        a_obj, a_other, a_root = m["arms"]
        ret_none = lambda n: unblock(n).get("k") == "Return" and facts.adt_is(peel(unblock(n)["value"]), "Option", "None")
        rep.check(ret_none(a_other["body"]), "T-FIND", "T-FIND/%s/wrong-shape%s" % (label, tag), a_other["sp"], "a non-object mid-path value => None", show(a_other["body"])[:60])
        val_id = strip_ref(subpat(subpat(a_obj["pat"], 0), 0)).get("id")
        for arm, recv_ok, nm in ((a_obj, lambda c: q.var_id(c["args"][0]) == val_id, "descend"), (a_root, lambda c: q.var_id(c["args"][0]) == self_id, "root")):
            gets = q.calls(arm["body"], "Object::get")
            ok = len(gets) == 1 and recv_ok(gets[0]) and seg_var_id in q.alias_sources(body, q.var_id(gets[0]["args"][1]))
            rep.check(ok, "T-FIND", "T-FIND/%s/%s-get%s" % (label, nm, tag), arm["sp"], "%s step looks the segment's own key up on %s" % (nm, "the current object" if nm == "descend" else "self"), "; ".join(show(g) for g in gets))
            if indexed:
                # the fetched value must be an Array, and the result is a.iter().nth(i)
                inner = [x for x in walk(arm["body"]) if x.get("k") == "Match" and gets and any(y is gets[0] for y in walk(x["scrut"]))]
                ok2 = False
                det = "-"
                if inner:
                    pats = [pat_str(a["pat"]) for a in inner[0]["arms"]]
                    det = str(pats)
                    if pats == ["Option::Some(Value::Array($a))", "_"]:
                        aid = strip_ref(subpat(subpat(inner[0]["arms"][0]["pat"], 0), 0)).get("id")
                        nth = q.calls(inner[0]["arms"][0]["body"], "Iterator::nth")
                        ok2 = len(nth) == 1 and call_is(peel(nth[0]["args"][0]), "Array::iter") and q.var_id(peel(nth[0]["args"][0])["args"][0]) == aid \
                            and idx_var[0] in q.alias_sources(body, q.var_id(nth[0]["args"][1])) and ret_none(inner[0]["arms"][1]["body"])
                        det = show(inner[0])[:140]
                rep.check(ok2, "INDEX", "INDEX/%s/%s%s" % (label, nm, tag), arm["sp"], "indexed step requires an Array and takes a.iter().nth(i); anything else => None", det)
            else:
                # root: match get {Some(value) => v = Some(value), None => return None}
                if nm == "root":
                    fb = q.failure_branch(arm["body"], gets[0]) if gets else None
                    ok2 = fb == "try" or (isinstance(fb, dict) and ret_none(fb))
                    rep.check(ok2, "T-FIND", "T-FIND/%s/root-missing%s" % (label, tag), arm["sp"], "a missing root key => None", show(arm["body"])[:100])

    # indexed branch locals
    idx_var = [None]
    ib = unblock(idx_b)
    # roles in the indexed branch, found by what the values are (not where the lets sit):
    #   parts = segment.split('['); name = parts.next() unwrapped; index = parts.next() stripped of ']' and parsed; parts.next() again for exhaustion
    plets = [s for x in walk(idx_b) if x.get("k") == "Block" for s in x["stmts"] if s["k"] == "Let" and s.get("init") is not None and call_is(peel(s["init"]), "::split")
             and lit(peel(s["init"])["args"][1]) == ("c", "[") and q.base_var(peel(s["init"])["args"][0], idx_b) == kid]
    rep.check(len(plets) == 1, "INDEX", "INDEX/locals" + tag, idx_b["sp"], "the indexed branch splits the segment at '['", "%d split('[') lets" % len(plets))
    if len(plets) == 1:
        parts = plets[0]
        pid = strip_ref(parts["pat"]).get("id")
        rep.ok("INDEX", "INDEX/split-bracket" + tag, parts["sp"], "parts = segment.split('[')", show(parts["init"]))
        nexts = [x for x in walk(idx_b) if call_is(x, "Iterator::next") and q.base_var(x["args"][0], idx_b) == pid]

        def let_of(call):
            hs = [s for x in walk(idx_b) if x.get("k") == "Block" for s in x["stmts"] if s["k"] == "Let" and s.get("init") is not None and strip_ref(s["pat"]).get("k") == "Bind" and any(y is call for y in walk(s["init"]))]
            return hs[0] if hs else None
        kk = let_of(nexts[0]) if nexts else None
        ii = let_of(nexts[1]) if len(nexts) > 1 else None
        okk = kk is not None and (call_is(peel(kk["init"]), "::expect") or call_is(peel(kk["init"]), "::unwrap")) and peel(peel(kk["init"])["args"][0]) is nexts[0]
        rep.check(okk, "INDEX", "INDEX/name" + tag, kk["sp"] if kk else idx_b["sp"], "the array's name is the text before '['", show(kk["init"]) if kk else "-")
        oki = False
        chain = "-"
        s0 = s1 = ""
        if ii is not None:
            chain = show(ii["init"])
            clos = [x["def"] for x in walk(ii["init"]) if x.get("k") == "Closure"]
            c0 = F.fns.get(clos[0]) if len(clos) == 2 else None
            c1 = F.fns.get(clos[1]) if len(clos) == 2 else None
            s0 = show(c0.body, ren={strip_ref(c0.thir["params"][-1]["pat"]).get("name"): "i"}) if c0 else ""
            s1 = show(c1.body, ren={strip_ref(c1.thir["params"][-1]["pat"]).get("name"): "i"}) if c1 else ""
            oki = str(chain).count("and_then(") == 2 and s0 == '<impl str>::strip_suffix(i, "]")' and s1 == "<T, E>::ok(<impl str>::parse(i))" and c1 is not None and any("usize" in (x.get("gen") or [""])[0] for x in walk(c1.body) if call_is(x, "::parse"))
        rep.check(oki, "INDEX", "INDEX/parse" + tag, ii["sp"] if ii else idx_b["sp"], "i = parts.next() stripped of ']' parsed as usize; failure => None", "%s | %s | %s" % (str(chain)[:80], s0, s1))
        init = peel(ii["init"]) if ii else {}
        okf = init.get("k") == "Try" or (init.get("k") == "Match" and any(variant_of(a["pat"]) == ("Option", "None") and unblock(a["body"]).get("k") == "Return" for a in init["arms"]))
        rep.check(okf, "INDEX", "INDEX/parse-failure" + tag, ii["sp"] if ii else idx_b["sp"], "unparsable index => None", init.get("k"))
        idx_var[0] = strip_ref(ii["pat"]).get("id") if ii else None
        rep.check(len(nexts) >= 3, "INDEX", "INDEX/exhausted" + tag, idx_b["sp"], "text after the first [..] is rejected (the bracket iterator is tested for exhaustion)", "%d next() calls on parts" % len(nexts))
        step_table(idx_b, strip_ref(kk["pat"]).get("id") if kk else None, True, "indexed")
    step_table(plain_b, kid, False, "plain")


def make_nested_runner(aa, e_id):
    """run(e_shape, k, m, table, nonobj=()) -> 'T'|'F'|'M': the Array arm `aa` of the solver's Nested arm evaluated as a model with the
    nested expression bound to `e_shape`, m array elements and the oracle table (member, element) -> {T,F,M}."""
    arr_id = strip_ref(subpat(aa["pat"], 0)).get("id")

    def run_model(e_shape, k, m, table, cols=None, nonobj=()):
        elems = [("elem", j) for j in range(m)]

        def h_iter(model, n, env):
            return ("list", elems)

        def h_as_object(model, n, env):
            v = model.ev(n["args"][0], env)
            if isinstance(v, tuple) and v[0] == "elem" and v[1] in nonobj:
                return None
            return ("some", v)

        def h_solve(model, n, env):
            a0 = model.ev(n["args"][0], env)
            d = model.ev(n["args"][2], env)
            if isinstance(d, tuple) and d and d[0] == "ctor" and d[2] == "Passthrough":
                d = d[3][0]
                if isinstance(d, tuple) and d[0] == "found":
                    d = d[1]
            if not isinstance(a0, Child) or not (isinstance(d, tuple) and d[0] == "elem"):
                raise Unrecognised("solve_expression(%r, .., %r)" % (a0, d))
            return SR(table[(a0.i, d[1])])

        def h_find(model, n, env):
            x = model.ev(n["args"][0], env)
            return ("found", x)

        def h_index(model, n, env):
            return tri.OPAQUE

        calls = {"Array::iter": h_iter, "::as_object": h_as_object, "solver::solve_expression": h_solve, "Object::find": h_find, "Index::index": h_index,
                 "PartialEq::ne": lambda mo, n, env: mo.ev(n["args"][0], env) != mo.ev(n["args"][1], env),
                 "PartialEq::eq": lambda mo, n, env: mo.ev(n["args"][0], env) == mo.ev(n["args"][1], env)}
        mo = Model(lambda i: None, calls=calls)
        env = {e_id: e_shape, arr_id: ("arr",)}
        try:
            v = mo.ev(aa["body"], env)
        except Ret as r:
            v = r.v
        return v[1]


    return run_model


def nested_array_arm(F):
    """(Array arm of the value-kind match inside the solver's Nested arm, id of the nested expression variable) or None"""
    se = F.fn("solver::solve_expression")
    top = se.body.get("expr") if se else None
    if not (top and top.get("k") == "Match"):
        return None
    for a in top["arms"]:
        if variant_of(a["pat"]) == ("Expression", "Nested"):
            e_id = strip_ref(subpat(a["pat"], 1)).get("id")
            vm = unblock(a["body"].get("expr")) if a["body"].get("expr") else None
            if vm and vm.get("k") == "Match":
                for x in vm["arms"]:
                    if variant_of(x["pat"]) and variant_of(x["pat"])[1] == "Array":
                        return x, e_id
    return None


def check_nested(rep, F):
    se = F.fn("solver::solve_expression")
    arm = None
    top = se.body.get("expr") if se else None
    if top and top.get("k") == "Match":
        for a in top["arms"]:
            if variant_of(a["pat"]) == ("Expression", "Nested"):
                arm = a
    if arm is None:
        rep.lost("T-NESTED", "T-NESTED/anchor", "Nested arm of solve_expression")
        return
    s_id = strip_ref(subpat(arm["pat"], 0)).get("id")
    e_id = strip_ref(subpat(arm["pat"], 1)).get("id")
    b = arm["body"]
    first = b["stmts"][0] if b.get("stmts") else None
    finds0 = [x for x in walk(first.get("init") or {}) if call_is(x, "Document::find")] if first and first["k"] == "Let" else []
    okf = len(finds0) == 1
    if okf:
        fb = q.failure_branch(b, finds0[0])
        okf = show(finds0[0]) == "Document::find(document, Deref::deref(s))" and isinstance(fb, dict) and q.returns_sr(fb, "Missing")
    rep.check(okf, "T-NESTED", "T-NESTED/absent", arm["sp"], "value = document.find(field); absent => Missing", show(first["init"])[:100] if first else "-")
    vm = unblock(b.get("expr")) if b.get("expr") else None
    if not vm or vm.get("k") != "Match":
        rep.lost("T-NESTED", "T-NESTED/kinds", "match on the value kind")
        return
    pats = [pat_str(a["pat"]) for a in vm["arms"]]
    rep.check(pats == ["Value::Object($o)", "Value::Array($a)", "_"], "T-NESTED", "T-NESTED/arms", vm["sp"], "Object / Array / other", str(pats))
    if pats != ["Value::Object($o)", "Value::Array($a)", "_"]:
        return
    ao, aa, ax = vm["arms"]
    so = show(ao["body"])
    rep.check(so == "solver::solve_expression(e, identifiers, o)", "T-NESTED", "T-NESTED/object", ao["sp"], "an object is searched with the nested block on that object", so)
    rep.check(q.is_sr(unblock(ax["body"]), "False") or show(ax["body"]).endswith("SolverResult::False"), "T-NESTED", "T-NESTED/scalar", ax["sp"], "a scalar under a nested block => False", show(ax["body"])[:60])
    # generic array loop: last For + trailing False
    ab = aa["body"]
    tail = ab.get("expr")
    loops = [x for x in walk(ab) if x.get("k") == "For" and q.loop_over(x)[0] == strip_ref(subpat(aa["pat"], 0)).get("id")]
    okg = bool(loops)
    rep.check(okg, "T-NESTED", "T-NESTED/array-exists", aa["sp"], "array: the generic case is a loop over the array's own elements ending in False (its truth table is NESTED-MODEL/plain)", show(loops[-1])[:160] if loops else "-")

    # NESTED-MODEL: evaluate the array arm as a model.  members k in 1..3, elements m in 0..2, oracle table (member, element) -> {T,F,M}
    run_model = make_nested_runner(aa, e_id)

    E = lambda variant, *fields: ("ctor", "Expression", variant, list(fields))
    nrows = 0
    for form in ("plain", "all-group", "all-matrix"):
        bad = []
        try:
            for k in (1, 2, 3) if form != "plain" else (1,):
                for m in (0, 1, 2):
                    cells = [(i, j) for i in range(k) for j in range(m)]
                    for vals in itertools.product("TFM", repeat=len(cells)):
                        table = dict(zip(cells, vals))
                        if form == "plain":
                            shape = Child(0)
                            exp_true = any(table[(0, j)] == "T" for j in range(m))
                        elif form == "all-group":
                            shape = E("Match", ("ctor", "Match", "All", []), E("BooleanGroup", ("ctor", "BoolSym", "Or", []), ("list", [Child(i) for i in range(k)])))
                            exp_true = all(any(table[(i, j)] == "T" for j in range(m)) for i in range(k))
                        else:
                            # k single-cell rows, one column: row i = [Some(cell_i)]
                            rows = ("list", [("list", [("some", Child(i))]) for i in range(k)])
                            shape = E("Match", ("ctor", "Match", "All", []), E("Matrix", ("list", [("lit", "c")]), rows))
                            exp_true = all(any(table[(i, j)] == "T" for j in range(m)) for i in range(k))
                        got = run_model(shape, k, m, table)
                        nrows += 1
                        if (got == "T") != exp_true:
                            bad.append("k=%d m=%d %s -> %s" % (k, m, "".join(vals), got))
                        if not exp_true and got != "F":
                            bad.append("k=%d m=%d %s -> %s (over a list the answer is true or false, never missing)" % (k, m, "".join(vals), got))
                        if form == "plain":
                            # elements that are not objects are skipped, whatever the block would say about them
                            for r in range(1, m + 1):
                                for no in itertools.combinations(range(m), r):
                                    got2 = run_model(shape, k, m, table, nonobj=no)
                                    nrows += 1
                                    want2 = any(table[(0, j)] == "T" for j in range(m) if j not in no)
                                    if (got2 == "T") != want2 or (not want2 and got2 != "F"):
                                        bad.append("k=%d m=%d %s non-objects=%s -> %s" % (k, m, "".join(vals), no, got2))
        except Unrecognised as e:
            rep.lost("NESTED-MODEL", "NESTED-MODEL/" + form, "array loop inside the model language", str(e)[:200])
            continue
        what = {"plain": "nested block over an array: True iff some element satisfies it, else False",
                "all-group": "all() of members over an array: True iff every member is satisfied by some element",
                "all-matrix": "all() over a matrix of members over an array: True iff every row is satisfied by some element"}[form]
        rep.check(not bad, "NESTED-MODEL", "NESTED-MODEL/" + form, aa["sp"], what, "; ".join(bad[:5]) if bad else None)
    rep.extra["nested_model_rows"] = nrows


def run(rep):
    A = facts.load("A")
    B = facts.load("B")
    rep.configs = ["A(core,json)", "B(core,json,sync)"]
    rep.explanation = (
        "Path resolution is one default trait method (with a cfg-duplicated copy for the sync feature).  The check extracts its per-segment "
        "step table from the typed tree of both copies and compares it with the specification: split on '.', descend only through objects, "
        "root lookup on self, index form requires an array and takes nth(parsed usize), every failing step returns None, and the loop state "
        "is never reset to the at-root value (which would fabricate a value from a later root key).  It also checks that no implementation "
        "overrides find, that every Document impl delegates to it, and that the solver's nested-block arm recurses on objects, is existential "
        "over arrays (evaluated as a model over members x elements oracle tables) and false on scalars."
    )
    for r, t in (("T-FIND", "step table of Object::find per cfg copy"), ("STEP-TOTAL", "state is only assigned Some(..) inside the loop"),
                 ("INDEX", "index parsing and nth()"), ("NO-OVERRIDE", "find is never overridden; Document impls delegate to Object::find"),
                 ("T-NESTED", "Nested arm: object / array / scalar / absent"), ("NESTED-MODEL", "array loops as oracle-table models")):
        rep.describe(r, t)
    check_find(rep, A, "default")
    check_find(rep, B, "sync")
    # sibling: the two copies produce the same instance outcomes by construction of the keys; also compare normalised text modulo the `?` form
    fa, fb = A.fn("value::Object::find"), B.fn("value::Object::find")
    if fa and fb:
        import re
        sa = show(fa.body)
        sb = show(fb.body)
        sb2 = sb  # (`?` and its hand-written match spelling are one node after normalisation)
        rep.check(sa == sb2, "T-FIND", "T-FIND/sibling-copies", fb.sp, "the sync copy equals the default copy (modulo `?` vs explicit match)", None if sa == sb2 else "copies differ")
    # NO-OVERRIDE
    n = 0
    for i in A.items["impls"] + B.items["impls"]:
        if i.get("trait") == "value::Object":
            n += 1
            rep.check("find" not in i["items"], "NO-OVERRIDE", "NO-OVERRIDE/%s" % i["self"], i["sp"], "impl Object for %s does not override find" % i["self"], str(i["items"]))
    for nm, via in (("<O as document::Document>::find", None), ("<&dyn value::Object as document::Document>::find", None),
                    ("json::<impl document::Document for serde_json::Value>::find", "Object")):
        f = A.fn(nm)
        if f is None:
            rep.lost("NO-OVERRIDE", "NO-OVERRIDE/delegate/" + nm, "impl " + nm)
            continue
        okd, det = q.delegates(f, "Object::find", via)
        rep.check(okd, "NO-OVERRIDE", "NO-OVERRIDE/delegate/" + nm, f.sp, "Document::find delegates to Object::find with the key unchanged", det + " " + show(f.body)[:120])
    docimpls = [i for i in A.items["impls"] if i.get("trait") == "document::Document"]
    known = {"&dyn value::Object", "O", "serde_json::Value", "solver::Cache<'_>", "solver::Passthrough<'_>"}
    for i in docimpls:
        rep.check(i["self"] in known, "NO-OVERRIDE", "NO-OVERRIDE/doc-impl/" + i["self"], i["sp"], "Document impl is one of the reviewed five", i["self"])
    check_nested(rep, A)
    # no optimiser pass may turn a nested block into a dotted key or back (they differ over arrays): every arm is identity/congruence/reviewed
    import core
    core.import_rules(rep, "c01", {"PASS-ARMS"})
    core.import_rules(rep, "c01", {"LAW"}, key_prefixes=("LAW/shake_1/nested-merge",))
    # a matrix cell's synthetic key must resolve to its own column's value, never to another key's
    core.import_rules(rep, "c03", {"L-MATRIX"}, key_prefixes=("L-MATRIX/cache-decode", "L-MATRIX/cache-size", "L-MATRIX/lookup-"))
    core.import_rules(rep, "c16", {"PROV-CACHE"})
    rep.floor("T-FIND", 24)
    rep.floor("STEP-TOTAL", 10)
    rep.floor("INDEX", 16)
    rep.floor("NO-OVERRIDE", 10)
    rep.floor("T-NESTED", 5)
    rep.floor("NESTED-MODEL", 3)
    rep.exhaustive = True
    rep.assumptions.append("Object::get implementations look the key up unchanged (checked for the crate's own impls in C11)")
    rep.assumptions.append("the find evaluation covers 105 probe keys over one model document: agreement with the path language is established on these probes only; the structural step-table rules decide the shapes they recognise")
