"""C16 Matching reads only the fields the rule names: key and receiver provenance.

PROV-KEY     every find() in the solver is called with a key derived from the rule tree, on the document or on a value obtained from it
PROV-DOC     every recursive solve call passes a rule-derived expression, the identifiers map unchanged, and the current document / an addressed
             object / the private cache documents
PROV-MATRIX  matrix cells (which carry synthetic keys) are only ever evaluated against Cache / Passthrough, never against the user's document,
             and those private documents are used for nothing else
PROV-CACHE   a cache slot i is filled only with document.find(&columns[i]) for the same i; Cache::find decodes the key's first char
PROV-NOENUM  the solver never enumerates keys or lengths of objects/arrays
PROV-PRIVATE Cache and Passthrough are private to the solver module
PROV-SYNTH   in optimiser::matrix the synthetic key only flows into cells of `row`, rows only into Expression::Matrix
"""
import facts
import q
from facts import walk, walk_with_path, peel, call_is, unblock
from origin import Origins
from show import show

SOLVER_FNS = ("solver::solve_expression", "solver::match_all", "solver::match_of", "solver::solve")


def is_matrix_cell(path):
    return isinstance(path, str) and ">Matrix.1" in path


def run(rep):
    F = facts.load("A")
    rep.configs = ["A(core,json)"]
    rep.explanation = (
        "The verdict can depend only on what the solver reads.  A provenance analysis over the typed tree of the solver classifies every "
        "variable by its origin (rule tree / document / local) through pattern destructuring and projection calls, and then checks all "
        "call sites through which the document is reached: find() keys come from the rule, receivers are the document or values obtained "
        "from it, recursive calls hand on the same document or an addressed object, matrix cells (synthetic one-character keys) are evaluated "
        "only against the private Cache/Passthrough documents, and no key/length enumeration API is called.  On the optimiser side the "
        "synthetic key's def-use chain ends in Expression::Matrix.  Together: the verdict is a function of the addressed values alone and "
        "synthetic keys never reach the user's document."
    )
    for r, t in (("PROV-KEY", "find(recv, key): key is rule-derived, recv is the document or a value obtained from it"),
                 ("PROV-DOC", "recursive solve/match calls: (rule-derived expression, identifiers, current document | addressed object | Cache | Passthrough)"),
                 ("PROV-MATRIX", "matrix cells are evaluated against Cache/Passthrough only; Cache/Passthrough are used for matrix cells only"),
                 ("PROV-CACHE", "cache[i] is filled from document.find(&columns[i]) with the same i; Cache::find indexes by the key's first char; Passthrough::find returns its value"),
                 ("PROV-NOENUM", "no Object::keys / Object::len / Array::len call in the solver"),
                 ("PROV-PRIVATE", "solver::Cache and solver::Passthrough are module-private and constructed only in the solver"),
                 ("PROV-SYNTH", "optimiser::matrix: key -> key.to_string() -> cell constructor -> row.push -> rows.push -> Expression::Matrix")):
        rep.describe(r, t)
    nfind = ncall = 0
    for fname in SOLVER_FNS:
        f = F.fn(fname)
        if f is None:
            rep.lost("PROV-KEY", "PROV/anchor/" + fname, "function " + fname)
            continue
        O = Origins(f)
        idents_id = [p["pat"]["id"] for p in f.thir["params"] if p["pat"] and p["pat"].get("name") == "identifiers"]
        for n, path in walk_with_path(f.body):
            if n.get("k") != "Call" or not n.get("fn"):
                continue
            if n.get("exp") and any("debug" in e or "$crate::event" in e for e in n["exp"]):
                continue
            fn = n["fn"]
            if fn.endswith("Document::find") or fn.endswith("Object::find") or fn.endswith("Object::get"):
                nfind += 1
                rc, rp = O.of(n["args"][0])
                kc, kp = O.of(n["args"][1])
                occ = sum(1 for i in rep.instances if i.key.startswith("PROV-KEY/%s/%s" % (fname, kp)))
                key = "PROV-KEY/%s/%s#%d" % (fname, kp, occ)
                ok = kc == "RULE" and rc in ("DOCPARAM", "DOC")
                rep.check(ok, "PROV-KEY", key, n["sp"], "find key from the rule, receiver from the document", "key %s:%s receiver %s:%s" % (kc, kp, rc, rp))
            elif fn.endswith("solver::solve_expression") or fn.endswith("solver::match_all") or fn.endswith("solver::match_of"):
                ncall += 1
                ec, ep = O.of(n["args"][0])
                ic = q.var_id(n["args"][1])
                dc, dp = O.of(n["args"][2])
                occ = sum(1 for i in rep.instances if i.key.startswith("PROV-DOC/%s/%s" % (fname, ep)))
                key = "PROV-DOC/%s/%s#%d" % (fname, ep, occ)
                okdoc = dc in ("DOCPARAM", "DOC", "SYNTHDOC")
                i_o = O.of(n["args"][1])
                okid = ic in idents_id or (i_o[0] == "RULE" and str(i_o[1]).endswith("identifiers"))
                ok = ec == "RULE" and okid and okdoc
                rep.check(ok, "PROV-DOC", key, n["sp"], "recursive call keeps rule/document roles", "expr %s:%s idents %s doc %s:%s" % (ec, ep, show(n["args"][1]), dc, dp))
                cell = is_matrix_cell(ep)
                mkey = "PROV-MATRIX/%s/%s#%d" % (fname, ep, occ)
                if cell:
                    rep.check(dc == "SYNTHDOC", "PROV-MATRIX", mkey, n["sp"], "a matrix cell (synthetic key) is evaluated against Cache/Passthrough", "document argument is %s:%s" % (dc, dp))
                elif dc == "SYNTHDOC":
                    rep.bad("PROV-MATRIX", mkey, n["sp"], "Cache/Passthrough only serve matrix cells", "expr %s" % ep)
                if dc == "SYNTHDOC" and dp.startswith("Passthrough("):
                    # the wrapped value must come from the element object via find(&columns[i])
                    arg = peel(n["args"][2])
                    inner = O.of(arg["fields"][0]["e"]) if arg.get("k") == "Adt" else ("?", "?")
                    rep.check(inner[0] == "DOC" and ".find(" in inner[1] and ">Matrix.0>[]" in inner[1], "PROV-CACHE", "PROV-CACHE/passthrough/" + fname, n["sp"],
                              "Passthrough wraps element.find(&columns[i])", "%s:%s" % inner)
            elif fn.endswith("Object::keys") or fn.endswith("Object::len") or fn.endswith("Array::len"):
                rep.bad("PROV-NOENUM", "PROV-NOENUM/%s/%s" % (fname, fn), n["sp"], "no enumeration of the document", show(n)[:80])
        # cache fill: mem::replace(&mut cache[i], Some(value)) with value = document.find(&columns[i]) same i
        for n, path in walk_with_path(f.body):
            isfill = n.get("k") == "Assign" and (call_is(peel(n["lhs"]), "IndexMut::index_mut") or peel(n["lhs"]).get("k") == "Index")
            if call_is(n, "mem::replace") or isfill:
                if isfill:
                    n = dict(n, args=[n["lhs"], n["rhs"]])
                tgt = peel(n["args"][0])
                ok = False
                det = show(n)
                idx = None
                if call_is(tgt, "IndexMut::index_mut") or tgt.get("k") == "Index":
                    idx = q.var_id(tgt["args"][1]) if tgt.get("k") == "Call" else q.var_id(tgt["index"])
                val = peel(n["args"][1])
                if val.get("k") == "Adt" and val["variant"] == "Some":
                    vc, vp = O.of(val["fields"][0]["e"])
                    # find the find() that produced it: must be document.find(&columns[<same i>])
                    ok = vc == "DOC"
                    finds = [x for p in path for x in ([p] if p.get("k") == "Block" else [])]
                    same_i = False
                    for blk in finds:
                        for x in walk(blk):
                            if call_is(x, "Document::find") and "columns" in show(x["args"][1]):
                                ia = [y for y in walk(x["args"][1]) if (call_is(y, "Index::index") or y.get("k") == "Index")]
                                for y in ia:
                                    iv = q.var_id(y["args"][1]) if y.get("k") == "Call" else q.var_id(y["index"])
                                    if iv is not None and iv == idx:
                                        same_i = True
                    ok = ok and same_i
                rep.check(ok, "PROV-CACHE", "PROV-CACHE/fill/%s#%d" % (fname, sum(1 for i in rep.instances if i.key.startswith("PROV-CACHE/fill/" + fname))), n["sp"],
                          "cache[i] = Some(document.find(&columns[i])) with the same i", det[:100])
    rep.ok("PROV-NOENUM", "PROV-NOENUM/solver", "src/solver.rs", "no keys()/len() call among %d find and %d recursive call sites" % (nfind, ncall))
    # also: search / slow_aho receive only &str values, no document
    sigs = {f["path"]: f for f in F.items["fns"]}
    for nm in ("solver::search", "solver::slow_aho"):
        s = sigs.get(nm)
        rep.check(bool(s) and "Document" not in s["sig"] and "Object" not in s["sig"], "PROV-NOENUM", "PROV-NOENUM/sig/" + nm, s["sp"] if s else "-", "string matchers have no access to the document", s["sig"] if s else "missing")

    # Cache::find / Passthrough::find
    cf = F.fn("<solver::Cache<'_> as document::Document>::find")
    pf = F.fn("<solver::Passthrough<'_> as document::Document>::find")
    if cf is None or pf is None:
        rep.lost("PROV-CACHE", "PROV-CACHE/anchor", "Cache::find and Passthrough::find")
    else:
        s = show(cf.body)
        key_id = cf.thir["params"][1]["pat"]["id"]
        ok, _ = q.cache_decode(cf)
        rep.check(ok, "PROV-CACHE", "PROV-CACHE/decode", cf.sp, "Cache::find decodes key.chars().nth(0) as the slot index", s[:140])
        s2 = show(pf.body)
        rep.check(s2 == "Clone::clone(self.0)", "PROV-CACHE", "PROV-CACHE/passthrough-find", pf.sp, "Passthrough::find returns its stored value whatever the key", s2)
    # privacy
    for a in F.items["adts"]:
        if a["path"] in ("solver::Cache", "solver::Passthrough"):
            rep.check(a["vis"].startswith("Restricted") and "solver" in a["vis"], "PROV-PRIVATE", "PROV-PRIVATE/" + a["path"], a["sp"], "type is private to the solver module", a["vis"])
    for name, f in sorted(F.fns.items()):
        if f.thir is None:
            continue
        for n in walk(f.body):
            if n.get("k") == "Adt" and n["adt"] in ("solver::Cache", "solver::Passthrough"):
                rep.check(name in SOLVER_FNS or name.startswith("solver::"), "PROV-PRIVATE", "PROV-PRIVATE/ctor/%s/%s#%d" % (name, n["adt"], sum(1 for i in rep.instances if i.key.startswith("PROV-PRIVATE/ctor/%s/%s" % (name, n["adt"])))), n["sp"], "constructed only inside the solver's own functions", name)
    rep.floor("PROV-PRIVATE", 6)

    # ---------------------------------------------------------------- PROV-SYNTH (optimiser side)
    mf = F.fn("optimiser::matrix")
    if mf is None:
        rep.lost("PROV-SYNTH", "PROV-SYNTH/anchor", "optimiser::matrix")
    else:
        key_ids = set()
        row_ids = set()
        rows_ids = set()
        for n in walk(mf.body):
            if n.get("k") == "Block":
                for s in n["stmts"]:
                    if s["k"] == "Let" and s["pat"].get("k") == "Bind" and s.get("init"):
                        if any(call_is(x, "char::from_u32") or call_is(x, "from_u32") for x in walk(s["init"])):
                            key_ids.add(s["pat"]["id"])
                        if s["pat"]["name"] == "row":
                            row_ids.add(s["pat"]["id"])
                        if s["pat"]["name"] == "rows":
                            rows_ids.add(s["pat"]["id"])
        rep.check(len(key_ids) >= 5, "PROV-SYNTH", "PROV-SYNTH/key-sites", mf.sp, "five synthetic-key definition sites (char::from_u32)", str(len(key_ids)))
        nuse = 0
        derived = set()  # immutable bindings of `key.to_string()` (a closure or helper parameter after inlining): the key's text
        for _round in range(3):
            more = set()
            for n, path in walk_with_path(mf.body):
                if n.get("k") == "Var" and n["id"] in (key_ids | derived) and n["id"] not in more:
                    chain = [p for p in path if p.get("k") in ("Call", "Adt")]
                    if n["id"] in key_ids and not (chain and call_is(chain[-1], "to_string")):
                        continue
                    tail = chain[:-1] if n["id"] in key_ids else chain
                    if any(p.get("k") == "Adt" and p["adt"].endswith("parser::Expression") for p in tail):
                        continue
                    for p in reversed(path):
                        if p.get("k") == "Block":
                            for st in p["stmts"]:
                                if st["k"] == "Let" and st["pat"].get("k") == "Bind" and st["pat"].get("mode", "").endswith("Not)") and st.get("init") is not None and any(x is n for x in walk(st["init"])) \
                                        and (q.var_id(st["init"]) == n["id"] or (call_is(peel(st["init"]), "to_string") and q.var_id(peel(st["init"])["args"][0]) == n["id"])):
                                    more.add(st["pat"]["id"])
                            break
            if more <= derived:
                break
            derived |= more
        for n, path in walk_with_path(mf.body):
            if n.get("k") == "Var" and n["id"] in (key_ids | derived):
                nuse += 1
                # must be receiver of to_string whose parent chain is: Adt Expression::{Cast,Field,Nested,Search} field -> ... -> Some -> push(row, ..)
                chain = [p for p in path if p.get("k") in ("Call", "Adt")]
                ok = False
                det = " <- ".join((p.get("fn") or (p["adt"] + "::" + p["variant"])).split("::")[-1] for p in reversed(chain[-6:]))
                is_text = n["id"] in derived
                if is_text or (chain and call_is(chain[-1], "to_string")):
                    ups = chain if is_text else chain[:-1]
                    ctor = [p for p in ups if p.get("k") == "Adt" and p["adt"].endswith("parser::Expression")]
                    push = [p for p in ups if call_is(p, "::push") and q.var_id(p["args"][0]) in row_ids]
                    inner = ctor[-1] if ctor else None
                    ok = bool(push) and inner is not None and inner["variant"] in ("Cast", "Field", "Nested", "Search")
                    if not ok and not ctor:
                        # the text is first bound to a name (see `derived`): that name's uses are checked in its place
                        ok = any(st["k"] == "Let" and st["pat"].get("k") == "Bind" and st["pat"]["id"] in derived and st.get("init") is not None and any(x is n for x in walk(st["init"]))
                                 for p in path if p.get("k") == "Block" for st in p["stmts"])
                rep.check(ok, "PROV-SYNTH", "PROV-SYNTH/key-use#%d" % nuse, n["sp"], "synthetic key is only written into a cell pushed to `row`", det)
        for n, path in walk_with_path(mf.body):
            if n.get("k") == "Var" and (n["id"] in row_ids or n["id"] in rows_ids):
                par = [p for p in path if p.get("k") in ("Call", "Adt")]
                parent = par[-1] if par else None
                which = "row" if n["id"] in row_ids else "rows"
                ok = False
                if parent is not None:
                    if call_is(parent, "::push"):
                        recv = q.var_id(parent["args"][0])
                        ok = (which == "row" and (recv in row_ids or recv in rows_ids)) or (which == "rows" and recv in rows_ids)
                    elif which == "rows" and (call_is(parent, "::is_empty") or (parent.get("k") == "Adt" and parent["variant"] == "Matrix")):
                        ok = True
                occ = sum(1 for i in rep.instances if i.key.startswith("PROV-SYNTH/%s-use" % which))
                rep.check(ok, "PROV-SYNTH", "PROV-SYNTH/%s-use#%d" % (which, occ), n["sp"], "`%s` only flows into rows / Expression::Matrix" % which, show(parent)[:80] if parent else "-")
    rep.describe("PROV-FIELD", "every field name written into a rebuilt node by the optimiser is the original node's own field (moved or cloned) or the synthetic matrix key")
    nfield = 0
    for pname in ("optimiser::coalesce", "optimiser::shake_0", "optimiser::shake_1", "optimiser::rewrite", "optimiser::matrix"):
        f = F.fn(pname)
        if f is None:
            continue
        for n in walk(f.body):
            if n.get("k") == "Adt" and n["adt"] == "parser::Expression" and n["variant"] in ("Nested", "Search", "Field", "Cast"):
                pos = {"Nested": "0", "Search": "1", "Field": "0", "Cast": "0"}[n["variant"]]
                fe = [x["e"] for x in n["fields"] if x["name"] == pos][0]
                p = peel(fe)
                ok = p.get("k") == "Var" or (call_is(p, "Clone::clone") and peel(p["args"][0]).get("k") == "Var") or (call_is(p, "to_string") and peel(p["args"][0]).get("k") == "Var" and peel(p["args"][0])["ty"] == "char")
                nfield += 1
                rep.check(ok, "PROV-FIELD", "PROV-FIELD/%s/%s#%d" % (pname.split("::")[-1], n["variant"], nfield), n["sp"], "field name is the original field or the synthetic key, never a computed string", show(fe)[:80])
    rep.floor("PROV-FIELD", 12)
    rep.floor("PROV-KEY", 20)
    import core
    core.import_rules(rep, "c01", {"PASS-ARMS"})
    # the reading primitive itself: a lookup that falls back to the root or to a shorter path reads a field the rule did not name there
    core.import_rules(rep, "c10", {"T-FIND", "STEP-TOTAL", "INDEX", "NO-OVERRIDE"})
    # the key a predicate asks the document for is the key as written in the rule (modifier stripped, words joined back): a key built any
    # other way is a key the rule does not name
    core.import_rules(rep, "c02", {"K-MOD", "T-IDENT-CLASS"})
    rep.floor("PROV-DOC", 24)
    rep.floor("PROV-MATRIX", 4)
    rep.floor("PROV-CACHE", 6)
    rep.floor("PROV-SYNTH", 20)
    rep.exhaustive = True
    rep.assumptions.append("Document/Object/Array implementations answer find/get/iter as pure functions of their arguments")
