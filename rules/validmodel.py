"""VALID-MODEL: `Rule::validate` evaluated over all small example lists.

The typed tree of validate (with whatever helpers, closures and iterator pipelines it is written with) is interpreted by the
evaluator of tokmodel (local calls, closures, iterators) with `solver::solve` / `Rule::matches` answered from a table and `format!`
kept as an opaque text that remembers which values went into it.  For every pair of example lists up to length 2 over
{mapping that matches, mapping that does not match, not a mapping} the outcome is compared with the specification: Ok(true) iff
every true positive is a mapping that matches and every true negative is a mapping that does not; otherwise an error that names
each failing example, positives first, in list order."""
import itertools

from facts import peel, strip_ref, walk
from tokmodel import TokModel
from findmodel import It, _s
from tri import Ret, Unrecognised

KINDS = ("match", "nomatch", "other", "tmatch", "tnomatch")  # t*: a tagged mapping (`!tag {..}`), which as_mapping() looks through


def example(kind, tag):
    if kind == "other":
        return ("ctor", "Value", "String", ["x%s" % tag])
    if kind in ("tmatch", "tnomatch"):
        return ("ctor", "Value", "Tagged", [("tagged", ("map", tag))])
    return ("ctor", "Value", "Mapping", [("map", tag)])


class ValidModel(TokModel):
    def __init__(self, F, verdicts):
        super().__init__(F)
        self.verdicts = verdicts  # tag -> bool
        self.steps = 40000

    def ev(self, n, env):
        n0 = peel(n)
        if n0.get("k") in ("Call", "Block") and any("macro:Bang:format" in e for e in (n0.get("exp") or [])) and not any("format_args" in e for e in (n0.get("exp") or [])[:1]):
            vals = []
            for x in walk(n0):
                if x.get("k") in ("Var", "Upvar") and x.get("id") in env:
                    v = env[x["id"]]
                    if isinstance(v, tuple) and v and v[0] == "ctor" and v[1] == "Value" and v not in vals:
                        vals.append(v)
            return ("fmt", tuple(vals))
        return super().ev(n, env)

    def call(self, n, env):
        fn = n.get("fn") or ""
        args = n["args"]
        last = fn.split("::")[-1]
        A_ = lambda i: self.arg(n, i, env)
        if fn.endswith(("solver::solve", "rule::Rule::matches")) and len(args) == 2:
            m = A_(1)
            while isinstance(m, tuple) and m and m[0] == "some":
                m = m[1]
            if isinstance(m, tuple) and m and m[0] == "map":
                return self.verdicts[m[1]]
            raise Unrecognised("solve on %r" % (m,))
        if last == "as_mapping" and len(args) == 1:
            v = A_(0)
            if isinstance(v, tuple) and v and v[0] == "ctor" and v[1] == "Value":
                if v[2] == "Tagged" and isinstance(v[3][0], tuple) and v[3][0][0] == "tagged":
                    return ("some", v[3][0][1])
                return ("some", v[3][0]) if v[2] == "Mapping" else None
        if last in ("is_mapping",) and len(args) == 1:
            v = A_(0)
            if isinstance(v, tuple) and v and v[0] == "ctor" and v[1] == "Value":
                return v[2] == "Mapping" or v[2] == "Tagged"
        if fn.endswith("Error::with") and len(args) == 2:
            return ("error-with", A_(1))
        if fn.endswith("Error::new"):
            return ("error-new",)
        if last == "join" and len(args) == 2:
            v = A_(0)
            if isinstance(v, tuple) and v and v[0] in ("vec", "list"):
                return ("joined", list(v[1]))
        if last in ("filter_map", "map", "filter", "flat_map") and len(args) == 2 and "Iterator" in fn:
            it = A_(0)
            if isinstance(it, tuple) and it and it[0] in ("seq", "vec", "list"):
                it = It(it[1])
            if isinstance(it, It):
                out = []
                f = self.ev(args[1], env)
                for x in it.items:
                    r = self.call_closure(f, [x]) if isinstance(f, tuple) and f and f[0] in ("closure", "fnitem") else self.closure(args[1], [x], env)
                    if last == "map":
                        out.append(r)
                    elif last == "filter":
                        if self.truth(r):
                            out.append(x)
                    elif last == "filter_map":
                        if r is not None:
                            if not (isinstance(r, tuple) and r and r[0] == "some"):
                                raise Unrecognised("filter_map closure yields %r" % (r,))
                            out.append(r[1])
                    else:
                        raise Unrecognised("flat_map")
                return It(out)
        if last == "chain" and len(args) == 2:
            a, b = A_(0), A_(1)
            conv = lambda v: v.items if isinstance(v, It) else (v[1] if isinstance(v, tuple) and v and v[0] in ("seq", "vec", "list") else None)
            if conv(a) is not None and conv(b) is not None:
                return It(list(conv(a)) + list(conv(b)))
        if last in ("iter", "into_iter") and len(args) == 1:
            v = A_(0)
            if isinstance(v, tuple) and v and v[0] in ("seq",):
                return It(v[1])
        if last in ("extend",) and len(args) == 2:
            v, w = A_(0), A_(1)
            if isinstance(v, tuple) and v and v[0] == "vec":
                items = w.items if isinstance(w, It) else (w[1] if isinstance(w, tuple) and w and w[0] in ("vec", "list", "seq") else None)
                if items is not None:
                    v[1].extend(items)
                    return ()
        return super().call(n, env)


def evaluate(F, maxlen=2):
    f = F.fn("rule::Rule::validate")
    if f is None:
        return None, "anchor missing"
    ps = [strip_ref(p["pat"]) for p in f.thir["params"] if p.get("pat")]
    if len(ps) != 1 or ps[0].get("k") != "Bind":
        return None, "parameters"
    lists = [()] + [t for ln in range(1, maxlen + 1) for t in itertools.product(KINDS, repeat=ln)]
    rows = []
    for tp in lists:
        for tn in lists:
            tpv = [example(k, "p%d" % i) for i, k in enumerate(tp)]
            tnv = [example(k, "n%d" % i) for i, k in enumerate(tn)]
            verdicts = {}
            for i, k in enumerate(tp):
                verdicts["p%d" % i] = k in ("match", "tmatch")
            for i, k in enumerate(tn):
                verdicts["n%d" % i] = k in ("match", "tmatch")
            failing = [v for v, k in zip(tpv, tp) if k not in ("match", "tmatch")] + [v for v, k in zip(tnv, tn) if k not in ("nomatch", "tnomatch")]
            want = ("ok", True) if not failing else ("err", failing)
            selfv = ("rec", "Rule", tuple(sorted({"detection": ("det",), "true_positives": ("seq", tpv), "true_negatives": ("seq", tnv), "optimised": False}.items())))
            m = ValidModel(F, verdicts)
            env = {ps[0]["id"]: selfv}
            try:
                try:
                    got = m.ev(f.body, env)
                except Ret as r:
                    got = r.v
            except Unrecognised as e:
                return None, "%s (positives %s, negatives %s)" % (str(e)[:160], list(tp), list(tn))
            except (KeyError, IndexError, TypeError, AttributeError, ValueError, RecursionError) as e:
                return None, "evaluator error %r (positives %s, negatives %s)" % (e, list(tp), list(tn))
            g = got
            if isinstance(got, tuple) and got and got[0] == "err":
                msg = got[1]
                if isinstance(msg, tuple) and msg and msg[0] == "error-with":
                    msg = msg[1]
                if isinstance(msg, tuple) and msg and msg[0] == "joined":
                    named = []
                    okn = True
                    for part in msg[1]:
                        if isinstance(part, tuple) and part and part[0] == "fmt" and len(part[1]) == 1:
                            named.append(part[1][0])
                        else:
                            okn = False
                    g = ("err", named) if okn else ("err", "messages do not each name one example: %r" % (msg[1],))
                else:
                    g = ("err", "error without the list of failures: %r" % (msg,))
            rows.append(((tp, tn), want, g, g == want))
    return rows, None
