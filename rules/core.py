"""Report plumbing: rule instances, known findings, evidence, replay files, exit codes."""
import json
import os
import re
import sys
import time

VERIF = os.path.dirname(os.path.dirname(os.path.abspath(__file__)))
KNOWN = os.path.join(VERIF, "known_findings.json")
OUT = os.environ.get("TAU_OUT", VERIF)  # evidence/replay root (redirected by the mutant self-test)


class Instance:
    __slots__ = ("rule", "key", "site", "what", "status", "detail")

    def __init__(self, rule, key, site, what, status, detail=None):
        self.rule = rule
        self.key = key
        self.site = site
        self.what = what
        self.status = status  # discharged | violated | lost
        self.detail = detail

    def as_dict(self):
        d = {"rule": self.rule, "key": self.key, "site": self.site, "obligation": self.what, "status": self.status}
        if self.detail is not None:
            d["detail"] = self.detail
        return d


class Report:
    def __init__(self, pid, tier="quick"):
        self.pid = pid
        self.tier = tier
        self.instances = []
        self.notes = []
        self.configs = []
        self.rules = {}
        self.exhaustive = False
        self.assumptions = []
        self.trusted = []
        self.explanation = ""
        self.extra = {}
        self.t0 = time.time()

    # -- recording -------------------------------------------------------------------------
    def describe(self, rule, text):
        self.rules[rule] = text

    def ok(self, rule, key, site, what, detail=None):
        self.instances.append(Instance(rule, key, site, what, "discharged", detail))

    def bad(self, rule, key, site, what, detail=None):
        self.instances.append(Instance(rule, key, site, what, "violated", detail))

    def lost(self, rule, key, what, detail=None):
        """Anchor missing / construct outside the extractor's grammar: fail closed."""
        self.instances.append(Instance(rule, key, "-", what, "lost", detail))

    def check(self, cond, rule, key, site, what, detail=None):
        (self.ok if cond else self.bad)(rule, key, site, what, detail)
        return cond

    def floor(self, rule, minimum):
        """The rule must have evaluated at least `minimum` instances (counted by hand on the pinned tree)."""
        n = sum(1 for i in self.instances if i.rule == rule)
        if n < minimum:
            self.lost(rule, rule + "/floor", "at least %d instances of rule %s" % (minimum, rule), "found %d" % n)
        return n

    def note(self, text):
        self.notes.append(text)

    # -- finishing -------------------------------------------------------------------------
    def finish(self, replay_key=None):
        known = []
        if os.path.exists(KNOWN):
            with open(KNOWN) as f:
                known = json.load(f).get("findings", [])
        open_keys = {k["key"]: k for k in known if k.get("property") == self.pid and k.get("status") == "open"}
        viol = [i for i in self.instances if i.status != "discharged"]
        if replay_key is not None:
            viol = [i for i in viol if i.key == replay_key]
        def base(k):
            return k.split("@")[0]  # "@AB" etc. = the same instance seen under another feature set (thorough tier)
        unlisted = [i for i in viol if base(i.key) not in open_keys]
        listed = [i for i in viol if base(i.key) in open_keys]
        seen = set()
        for i in listed:
            if base(i.key) in seen:
                continue
            seen.add(base(i.key))
            print("KNOWN-FINDING: property=%s %s [%s] %s" % (self.pid, open_keys[base(i.key)].get("what", i.what), base(i.key), i.site))
        os.makedirs(os.path.join(OUT, "replay"), exist_ok=True)
        seen = set()
        for i in unlisted:
            if i.key in seen:
                continue
            seen.add(i.key)
            rp = os.path.join(OUT, "replay", "%s-%s.json" % (self.pid, re.sub(r"[^A-Za-z0-9_.-]+", "_", i.key)[:120]))
            with open(rp, "w") as f:
                json.dump({"property": self.pid, "instance": i.as_dict(), "rule_text": self.rules.get(i.rule, "")}, f, indent=1)
            print("  %s %s: %s at %s -- %s" % (i.status.upper(), i.rule, i.key, i.site, i.detail if i.detail else i.what))
            print("VIOLATION property=%s replay=%s" % (self.pid, rp))
        self.write_evidence(len(unlisted), len(listed))
        return 1 if unlisted else 0

    def write_evidence(self, n_viol, n_known):
        inst = self.instances
        sites = {(i.rule, i.site) for i in inst}
        by_rule = {}
        for i in inst:
            by_rule.setdefault(i.rule, [0, 0])
            by_rule[i.rule][0] += 1
            if i.status == "discharged":
                by_rule[i.rule][1] += 1
        samples = []
        seen_rules = set()
        for i in inst:
            if i.rule not in seen_rules or len(samples) < 6:
                if len([s for s in samples if s["rule"] == i.rule]) < 3:
                    samples.append(i.as_dict())
                    seen_rules.add(i.rule)
            if len(samples) >= 40:
                break
        cov = {
            "explanation": self.explanation,
            "evaluations": len(inst),
            "distinct_nontrivial": len(sites),
            "rule": "one evaluation = one rule instance (a source construct of /repo plus the obligation checked on it); "
            "distinct = distinct (rule, source site) pairs; rules: "
            + "; ".join("%s: %s" % (k, v) for k, v in sorted(self.rules.items())),
            "samples": samples,
            "obligations": len(inst),
            "discharged": sum(1 for i in inst if i.status == "discharged"),
            "per_rule": {k: {"instances": v[0], "discharged": v[1]} for k, v in sorted(by_rule.items())},
            "configs": self.configs,
            "exhaustive": self.exhaustive,
            "known_findings_observed": n_known,
            "notes": self.notes[:50],
            "trusted_base": self.trusted,
            "checker_cmd": "./check %s --tier %s" % (self.pid, self.tier),
        }
        cov.update(self.extra)
        ev = {
            "property_id": self.pid,
            "tier": self.tier,
            "seed": int(os.environ.get("VERIF_SEED", "0") or 0),
            "level": "other",
            "coverage": cov,
            "assumptions": self.assumptions,
            "wall_s": round(time.time() - self.t0, 2),
            "violations": n_viol,
        }
        os.makedirs(os.path.join(OUT, "evidence"), exist_ok=True)
        with open(os.path.join(OUT, "evidence", self.pid + ".json"), "w") as f:
            json.dump(ev, f, indent=1)


COMMON_TRUST = [
    "rustc nightly front end, type checker and MIR construction (facts come from the compiler's own THIR/MIR)",
    "stable 1.95 (product) and nightly 1.97 (facts) agree on cfg evaluation, name resolution and typing of this crate",
    "hand-written spec tables under rules/ (written from the property statements and the crate documentation)",
]

COMMON_ASSUME = [
    "fail-closed extractors: a refactor that moves an anchor function or changes a recognised idiom is reported as anchor-lost (possible false alarm, never a silent pass)",
    "third-party crates (regex, aho-corasick, serde, serde_yaml, tracing, std) behave as documented",
]


_sub_cache = {}


_in_progress = set()


def import_rules(rep, modname, rules, prefix=None, key_prefixes=None):
    """Run another property's rule module on a scratch report (once per process) and copy the instances of the named rules
    into `rep` (same keys, so a violation is reported under this property as well)."""
    import importlib
    import facts as _facts
    key = (modname, rep.tier, tuple(sorted(_facts.ALIAS.items())))
    if key in _in_progress or modname.upper() == getattr(rep, "pid", None):
        return 0  # a module further up the import chain: its own rules are being produced there, nothing to copy from a second run
    if key not in _sub_cache:
        sub = Report(modname.upper(), rep.tier)
        _in_progress.add(key)
        try:
            importlib.import_module(modname).run(sub)
        finally:
            _in_progress.discard(key)
        _sub_cache[key] = sub
    sub = _sub_cache[key]
    n = 0
    for i in sub.instances:
        if key_prefixes is not None and i.rule != "INTERNAL" and not i.key.startswith(tuple(key_prefixes)):
            continue
        if i.rule in rules or (i.rule == "INTERNAL"):
            rep.instances.append(Instance(i.rule, i.key, i.site, i.what, i.status, i.detail))
            n += 1
    for r in rules:
        if r in sub.rules:
            rep.rules[r] = sub.rules[r] + " [shared with %s]" % modname.upper()
    return n


def model_decides(rep, ok, rules, why):
    """When a model evaluation covers what the structural rules `rules` describe and agrees with the specification everywhere,
    findings of those structural rules are shape observations, not violations: they are dropped (and noted)."""
    if not ok:
        return False
    dropped = [i.key for i in rep.instances if i.rule in rules and i.status != "discharged"]
    if dropped:
        rep.instances[:] = [i for i in rep.instances if not (i.rule in rules and i.status != "discharged")]
        rep.note("%s: %d structural findings not applicable to this shape: %s" % (why, len(dropped), ", ".join(dropped[:6])))
    return True
