"""C15 ignore_case build == default build with every pattern i-prefixed (configuration diff).

CFG-ONE-FN   the two builds differ in exactly one function body: String::into_identifier
CFG-ONE-LEAF inside it exactly one leaf differs: the boolean produced by cfg!(feature = "ignore_case")
CFG-HEAD     that boolean is the condition of the head `if`: then => (true, whole text); else => strip_prefix('i') => (true, rest) | (false, whole text)
CFG-ITEMS    types, signatures, impls and statics are identical in both builds
"""
import facts
import cfgdiff
from facts import peel, unblock, lit, call_is, variant_of
from show import show

IDENT_FN = "<std::string::String as identifier::IdentifierParser>::into_identifier"


def is_pair(n, flag):
    """n is the tuple (flag, <str expr>); returns the str expr."""
    n = unblock(n)
    if n.get("k") != "Tuple" or len(n["fields"]) != 2 or lit(n["fields"][0]) != ("bool", flag):
        return None
    return n["fields"][1]


def whole_text(n, self_id):
    """&self[..]"""
    s = show(n)
    n = peel(n)
    return s in ("Index::index(self, RangeFull::RangeFull)", "self[RangeFull::RangeFull]", "Index::index(self, RangeFull)")


def run(rep):
    A = facts.load("A")
    C = facts.load("C")
    rep.configs = ["A(core,json)", "C(core,json,ignore_case)"]
    rep.explanation = (
        "Both builds are type-checked and their typed trees compared function by function (nothing is run).  If the trees differ only in the "
        "boolean that cfg!(feature=\"ignore_case\") expands to, and that boolean only selects between `(true, text)` and the default build's "
        "`strip_prefix('i') => (true, rest) | (false, text)`, then the ignore_case build on pattern p constructs exactly the Identifier that "
        "the default build constructs on 'i'+p, and every other function is the same program: all verdicts coincide.  This decides the "
        "property completely, modulo the trusted compiler front end."
    )
    rep.describe("CFG-ONE-FN", "configuration diff A vs C reports exactly into_identifier")
    rep.describe("CFG-ONE-LEAF", "the only differing leaf is the cfg! boolean (false in A, true in C)")
    rep.describe("CFG-HEAD", "head of into_identifier: if cfg {(true, &self[..])} else if let Some(s) = self.strip_prefix('i') {(true, s)} else {(false, &self[..])}")
    rep.describe("CFG-ITEMS", "item tables (types, fields, signatures, trait impls) are identical in both builds")
    d = cfgdiff.diff(A, C)
    rep.check(not d["only_a"] and not d["only_b"], "CFG-ONE-FN", "CFG-ONE-FN/fn-set", "crate", "same function set in both builds (%d functions)" % d["common"], "only A %s only C %s" % (d["only_a"][:3], d["only_b"][:3]))
    # into_identifier and the private helpers that only it (transitively) calls: one unit as far as the builds are concerned
    def ident_unit(Fx):
        callers = {}
        for nm, f in Fx.fns.items():
            if f.thir is None:
                continue
            for x in facts.walk(f.thir["body"]):
                if x.get("k") == "Call" and x.get("local") and x.get("fn") in Fx.fns:
                    callers.setdefault(x["fn"], set()).add(nm.split("::{closure#")[0])
        unit = {IDENT_FN}
        changed_ = True
        while changed_:
            changed_ = False
            for g, cs in callers.items():
                if g not in unit and cs and cs <= unit and not facts.is_anchor(g):
                    unit.add(g)
                    changed_ = True
        return unit
    unit = ident_unit(A) | ident_unit(C)
    in_unit = lambda nm: nm.split("::{closure#")[0] in unit
    rep.check(bool(d["changed"]) and all(in_unit(x) for x in d["changed"]), "CFG-ONE-FN", "CFG-ONE-FN/changed", "crate", "only into_identifier (with the private helpers only it calls) differs", str(d["changed"][:6]))
    fa, fc = A.fn(IDENT_FN), C.fn(IDENT_FN)
    if fa is None or fc is None:
        rep.lost("CFG-ONE-LEAF", "CFG/anchor", "into_identifier in both builds")
        return
    diffs = []
    for nm in d["changed"]:
        if nm in A.fns and nm in C.fns and A.fns[nm].thir is not None and C.fns[nm].thir is not None:
            diffs += [(nm + p_, a_, b_) for p_, a_, b_ in cfgdiff.leaf_diffs(A.fns[nm].thir["body"], C.fns[nm].thir["body"])]
    leaf_fn = A.fns.get(d["changed"][0]) if len(d["changed"]) == 1 else fa
    if leaf_fn is not None and len(diffs) == 1:
        diffs = [(diffs[0][0][len(d["changed"][0]):], diffs[0][1], diffs[0][2])]
        fa_leaf = leaf_fn
    else:
        fa_leaf = fa
    ok = len(diffs) == 1 and diffs[0][1] == "bool:false" and diffs[0][2] == "bool:true" and diffs[0][0].endswith("/v")
    rep.check(ok, "CFG-ONE-LEAF", "CFG-ONE-LEAF/literal", fa.sp, "one differing leaf: bool false (default) vs true (ignore_case)", str(diffs[:4]))
    if ok:
        node = cfgdiff.node_at(fa_leaf.thir["body"], diffs[0][0][:-2])
        rep.check(any("cfg" in e for e in (node.get("exp") or [])), "CFG-ONE-LEAF", "CFG-ONE-LEAF/from-cfg", node["sp"], "the literal is the expansion of cfg!(..)", str(node.get("exp")))
    # head shape (checked on both builds' normalised bodies)
    for name, f, val in (("A", fa, False), ("C", fc, True)):
        body = f.body
        first = body["stmts"][0] if body.get("stmts") else None
        key = "CFG-HEAD/" + name
        if not first or first.get("k") != "Let" or not first.get("init"):
            rep.lost("CFG-HEAD", key, "first statement is `let (insensitive, string) = if ..`")
            continue
        names = [b[0] for b in facts.pat_binds(first["pat"])]
        rep.check(names == ["insensitive", "string"] or len(names) == 2, "CFG-HEAD", key + "/binds", first["sp"], "head binds (flag, text)", str(names))
        h = unblock(first["init"])
        self_id = f.thir["params"][0]["pat"]["id"]
        ok = False
        det = show(h)[:200]
        if h.get("k") == "If":
            c = peel(h["cond"])
            okc = lit(c) == ("bool", val) and any("cfg" in e for e in (c.get("exp") or []))
            t = is_pair(h["then"], True)
            okt = t is not None and whole_text(t, self_id)
            e = unblock(h["else"]) if h.get("else") else None
            oke = False
            if e is not None and e.get("k") == "If" and peel(e["cond"]).get("k") == "LetCond":
                lc = peel(e["cond"])
                sp = peel(lc["arg"])
                okstrip = call_is(sp, "strip_prefix") and lit(sp["args"][1]) == ("c", "i") and variant_of(lc["pat"]) == ("Option", "Some")
                sid = facts.strip_ref(facts.subpat(lc["pat"], 0)).get("id") if okstrip else None
                t2 = is_pair(e["then"], True)
                e2 = is_pair(e["else"], False) if e.get("else") else None
                oke = okstrip and t2 is not None and peel(t2).get("id") == sid and e2 is not None and whole_text(e2, self_id)
            ok = okc and okt and oke
        rep.check(ok, "CFG-HEAD", key + "/shape", first["sp"], "if cfg {(true, text)} else if let Some(s) = text.strip_prefix('i') {(true, s)} else {(false, text)}", det)
        # after the head the raw text must not be consulted again: everything is derived from (flag, text)
        rest = body["stmts"][1:] + ([{"k": "Expr", "e": body["expr"]}] if body.get("expr") else [])
        uses = []
        for st in rest:
            e = st["e"] if st["k"] == "Expr" else st.get("init")
            if e is None:
                continue
            for x in facts.walk(e):
                if x.get("k") == "Var" and x.get("id") == self_id:
                    uses.append(x["sp"])
        rep.check(not uses, "CFG-HEAD", key + "/raw-text-unused-after-head", first["sp"], "after the head, into_identifier never looks at the raw text again (only at the text with the prefix decision applied)", str(uses[:3]))
        # the flag and the text are used for nothing else than the pattern dispatch: flag feeds Identifier.ignore_case
        fin = body.get("expr")
        s = show(fin) if fin else ""
        rep.check("ignore_case: insensitive" in s, "CFG-HEAD", key + "/flag-stored", f.sp, "Identifier.ignore_case is the head's flag", s[:100])
    # items
    def norm_items(F):
        import json, re
        it = F.items
        out = {
            "adts": sorted(re.sub(r"tau_engine\[[0-9a-f]+\]", "tau_engine", json.dumps({k: v for k, v in a.items() if k not in ("sp",)}, sort_keys=True)) for a in it["adts"]),
            "fns": sorted((f["path"], f["sig"]) for f in it["fns"]),
            "impls": sorted((str(i.get("trait")), i["self"], tuple(i["items"])) for i in it["impls"]),
            "statics": sorted((s["path"], s["ty"]) for s in it["statics"]),
            "traits": sorted(json.dumps({k: v for k, v in t.items()}, sort_keys=True) for t in it["traits"]),
        }
        return out
    ia, ic = norm_items(A), norm_items(C)
    for k in ia:
        rep.check(ia[k] == ic[k], "CFG-ITEMS", "CFG-ITEMS/" + k, "crate", "%s identical (%d entries)" % (k, len(ia[k])), "differs" if ia[k] != ic[k] else None)
    # MIR cross-check: number of MIR bodies that differ (by block count/terminator kinds) is also exactly one
    def mir_fp(f):
        import json
        return json.dumps(cfgdiff._strip([{"t": b["term"].get("k"), "fn": b["term"].get("fn"), "n": len(b["stmts"])} for b in f.mir["blocks"]])) if f.mir else None
    mchanged = [n for n in A.fns if n in C.fns and mir_fp(A.fns[n]) != mir_fp(C.fns[n])]
    rep.check(all(in_unit(x) for x in mchanged), "CFG-ONE-FN", "CFG-ONE-FN/mir", "crate", "MIR skeletons differ at most in into_identifier (and its private helpers)", str(mchanged[:5]))
    if rep.tier == "thorough":
        # every other pair of configurations that differ only by ignore_case
        allc = facts.all_configs()
        for name, feats in sorted(allc.items()):
            fs = set(feats.split(",")) - {""}
            if "ignore_case" in fs:
                continue
            other = [n for n, f in allc.items() if set(f.split(",")) - {""} == fs | {"ignore_case"}][0]
            try:
                X, Y = facts.load(name), facts.load(other)
                dd = cfgdiff.diff(X, Y)
                rep.check(bool(dd["changed"]) and all(in_unit(x) for x in dd["changed"]) and not dd["only_a"] and not dd["only_b"], "CFG-ONE-FN", "CFG-ONE-FN/pair/%s" % (feats or "default"), "crate",
                          "features {%s} vs +ignore_case differ only in into_identifier" % feats, str(dd["changed"][:4]))
                rep.configs.append("%s vs %s" % (feats or "default", allc[other]))
            except facts.BuildError as e:
                rep.lost("CFG-ONE-FN", "CFG-ONE-FN/pair/%s" % feats, "configuration builds", str(e)[-200:])
    # the equivalence is between "pattern p in the ignore_case build" and "pattern i+p in the default build": it only makes sense for
    # text the rule author wrote as a string pattern.  into_identifier must not be applied to text the loader made up itself (a number
    # or boolean rendered with to_string under str()), which cannot carry an `i` prefix.
    rep.describe("CFG-CALLERS", "into_identifier is only called on the text of a YAML string value")
    import q as _q
    from facts import walk, or_pats, pat_binds, strip_ref, subpat
    ncalls = 0
    for name, f in sorted(A.fns.items()):
        if f.thir is None:
            continue
        for n in walk(f.body):
            if call_is(n, "IdentifierParser::into_identifier") and n.get("args"):
                ncalls += 1
                src = peel(n["args"][0])
                while src.get("k") == "Call" and (src.get("fn") or "").endswith(("Clone::clone", "ToOwned::to_owned", "ToString::to_string", "String::from", "From::from")) and src.get("args"):
                    src = peel(src["args"][0])
                vid = _q.base_var(src, f.body)
                okc = False
                for pat in _q.all_patterns(f.body):
                    for alt in or_pats(pat):
                        for pp in _q._walk_pat(alt):
                            v = variant_of(pp)
                            if v and v[1] == "String" and v[0] in ("Value", "Yaml") and any(b[1] == vid for b in pat_binds(pp)):
                                okc = True
                # a to_string() of something that is not a string payload is exactly what must not happen
                rep.check(okc, "CFG-CALLERS", "CFG-CALLERS/%s#%d" % (name, ncalls), n["sp"], "the pattern text handed to into_identifier is the payload of a YAML string", show(n["args"][0])[:80])
    rep.check(ncalls >= 2, "CFG-CALLERS", "CFG-CALLERS/sites", "src/parser.rs", "call sites of into_identifier found", str(ncalls))
    # The ignore_case build sets Identifier.ignore_case on *every* pattern, numeric ones included (the flag is computed before the
    # pattern kind is known).  The builds stay equivalent only because nobody looks at the flag of a non-string pattern: every read
    # of the field sits inside the arm of a string pattern kind.
    rep.describe("CFG-FLAG-READS", "Identifier.ignore_case is read only where the pattern is known to be a string pattern (Regex/Contains/EndsWith/Exact/StartsWith)")
    from facts import walk_with_path
    STRING_KINDS = {"Regex", "Contains", "EndsWith", "Exact", "StartsWith"}
    nreads = 0
    for name, f in sorted(A.fns.items()):
        if f.thir is None or name.startswith("<identifier::Identifier as "):
            continue
        for n, path in walk_with_path(f.body):
            if n.get("k") != "Field" or n.get("name") != "ignore_case" or "Identifier" not in str(peel(n["arg"]).get("ty", "")):
                continue
            nreads += 1
            okr = False
            for e in _q.context(path, n):
                pat = e[1] if e[0] == "arm" else (peel(e[1])["pat"] if e[0] == "if" and e[2] and peel(e[1]).get("k") == "LetCond" else None)
                if pat is None:
                    continue
                for alt in or_pats(pat):
                    v = variant_of(alt)
                    if v and v[0] == "Pattern" and v[1] in STRING_KINDS:
                        okr = True
            occ = sum(1 for i in rep.instances if i.key.startswith("CFG-FLAG-READS/%s#" % name))
            rep.check(okr, "CFG-FLAG-READS", "CFG-FLAG-READS/%s#%d" % (name, occ), n["sp"], "the case flag is consulted only for a string pattern", show(path[-1])[:80] if path else "")
    rep.check(nreads >= 10, "CFG-FLAG-READS", "CFG-FLAG-READS/sites", "src/parser.rs", "reads of Identifier.ignore_case found", str(nreads))
    # both builds against the one pattern syntax: the default build reads `iP` exactly as the ignore_case build reads `P`
    import core as _core
    import identmodel as _im
    rep.describe("IDENT-MODEL", "into_identifier of each build evaluated over the probe strings: default build with the `i` prefix convention, ignore_case build with every pattern insensitive")
    both_ok = True
    for cfgname, flag in (("A", False), ("C", True)):
        try:
            Fc = facts.load(cfgname)
            rows_, un_ = _im.evaluate(Fc, flag)
        except facts.BuildError as e:
            rows_, un_ = None, "build failed"
        if rows_ is None:
            both_ok = False
            rep.note("pattern-syntax model not applicable for build %s (%s); structural rules decide" % (cfgname, un_))
            continue
        for probe, want, got, agree in rows_:
            both_ok = both_ok and agree
            rep.check(agree, "IDENT-MODEL", "IDENT-MODEL/%s/%s" % ("ignore_case" if flag else "default", probe if probe else "<empty>"), "src/identifier.rs",
                      "pattern %r is read as documented in the %s build" % (probe, "ignore_case" if flag else "default"), None if agree else "expected %r, the body yields %r" % (want, got))
    if not _core.model_decides(rep, both_ok, {"CFG-HEAD"}, "the head of into_identifier is decided by the model of both builds"):
        rep.floor("CFG-HEAD", 8)
    rep.floor("CFG-ITEMS", 5)
    rep.exhaustive = True
    rep.assumptions.append("direct Identifier{ignore_case:false,..} constructions for numbers/booleans under str() are identical in both builds (they are outside into_identifier, hence covered by CFG-ONE-FN)")
