"""C03 An accepted rule can always be evaluated (no panic after load).

PANIC      every panic-capable site reachable from optimise / matches / validate is discharged by a named rule
L-IDENT    lemma: every Identifier node the solver or coalesce looks up exists in the identifiers map
L-SHAPE    lemma: the solver is only handed trees of the shape the loader validated (operands of and/or/not are predicates)
L-MATRIX   lemma: matrix rows have one cell per column, cells address only their own synthetic key, cache has one slot per column
L-LOCKSTEP lemma: an automaton's context vector is as long as its needle list (imported from the C07 rules)
"""
import re

import facts
import panic
import q
from c04 import run_panic
from facts import walk, walk_with_path, peel, call_is, unblock, variant_of, strip_ref, subpat, pat_str, lit, or_pats
from show import show

PRED = {"BooleanGroup", "BooleanExpression", "Identifier", "Match", "Matrix", "Negate", "Nested", "Search"}
OPERAND = {"Boolean", "Cast", "Field", "Float", "Integer", "Null"}


class Lemmas:
    def __init__(self):
        self.ok = {"L-IDENT": True, "L-SHAPE": True, "L-MATRIX": True, "L-LOCKSTEP": True}


def chk(rep, L, lemma, cond, key, site, what, detail=None):
    if not rep.check(cond, lemma, key, site, what, detail):
        L.ok[lemma] = False
    return cond


def lemma_ident(rep, F, L):
    rep.describe("L-IDENT", "loader scan rejects unknown identifiers; only parse_nud builds Identifier nodes; optimise keeps the map's keys; coalesce reaches every child")
    vm = [f for n, f in F.fns.items() if n.endswith("::visit_map") and "DetectionVisitor" in n]
    if len(vm) != 1:
        rep.lost("L-IDENT", "L-IDENT/anchor", "Detection visitor's visit_map")
        L.ok["L-IDENT"] = False
        return
    v = vm[0]
    body = v.body
    stmts = body.get("stmts", [])
    # the identifier scan: the statements between `let tokens = tokenise(..)` and the parse call, evaluated as a model over every
    # token vector of length <= 4 whose tokens are: a known identifier, an unknown identifier, a modifier (int(/not(), anything else.
    # Loading must fail exactly when some identifier is unknown and is not the operand of a modifier (the token two places back).
    import itertools
    import tri
    pcalls = [x for x in walk(body) if call_is(x, "parser::parse")]
    tokens_id = q.base_var(pcalls[0]["args"][0]) if len(pcalls) == 1 else None
    tok_i = parse_i = None
    for i, s_ in enumerate(stmts):
        e = s_["e"] if s_["k"] == "Expr" else s_.get("init")
        if s_["k"] == "Let" and tokens_id is not None and any(b_[1] == tokens_id for b_ in facts.pat_binds(s_["pat"])):
            tok_i = i
        if e is not None and any(call_is(x, "parser::parse") for x in walk(e)):
            parse_i = i
    fin = body.get("expr")
    okfin = bool(fin) and facts.adt_is(peel(fin), "Result", "Ok") and "Detection" in show(fin)
    okdom = tok_i is not None and parse_i is not None and tok_i < parse_i and okfin
    chk(rep, L, "L-IDENT", okdom, "L-IDENT/scan-dominates", v.sp, "the identifier scan sits between tokenising and parsing the condition, before Ok(Detection)", "tokens@%s parse@%s" % (tok_i, parse_i))
    if not okdom:
        return
    scan = stmts[tok_i + 1:parse_i]
    # the map consulted is the one stored as Detection.identifiers
    det = peel(peel(fin)["fields"][0]["e"])
    ids_id = q.var_id({f_["name"]: f_["e"] for f_ in det["fields"]}.get("identifiers")) if det.get("k") == "Adt" else None
    cks = [x for s_ in scan for part in (s_.get("e"), s_.get("init"), s_.get("else")) if part is not None for x in walk(part) if call_is(x, "::contains_key")]
    okmap = bool(cks) and all(q.base_var(x["args"][0]) == ids_id for x in cks)

    KN, UN = ("lit", "known"), ("lit", "unknown")
    TOK = {"k": ("ctor", "Token", "Identifier", [KN]), "u": ("ctor", "Token", "Identifier", [UN]), "m": ("ctor", "Token", "Modifier", [("ctor", "ModSym", "Int", [])]),
           "n": ("ctor", "Token", "Modifier", [("ctor", "ModSym", "Not", [])]), "o": ("ctor", "Token", "Delimiter", [("ctor", "DelSym", "LeftParenthesis", [])])}

    def h_contains(mo, n, env):
        v_ = mo.ev(n["args"][1], env)
        if v_ == KN:
            return True
        if v_ == UN:
            return False
        raise tri.Unrecognised("contains_key(%r)" % (v_,))
    calls = {"::contains_key": h_contains, "Error::custom": lambda mo, n, env: tri.OPAQUE, "::iter": lambda mo, n, env: mo.ev(n["args"][0], env),
             "Deref::deref": lambda mo, n, env: mo.ev(n["args"][0], env)}
    wrong_accept, wrong_reject = [], []
    lost = None
    try:
        for ln in range(0, 5):
            for vec in itertools.product("kumno", repeat=ln):
                want_err = any(t == "u" and not (p_ >= 2 and vec[p_ - 2] in "mn") for p_, t in enumerate(vec))
                mo = tri.Model(lambda i: None, calls=calls)
                env = {tokens_id: ("list", [TOK[t] for t in vec])}
                got_err = False
                try:
                    for s_ in scan:
                        if s_["k"] == "Let":
                            val = mo.ev(s_["init"], env) if s_.get("init") is not None else None
                            if not mo.bind(s_["pat"], val, env):
                                raise tri.Unrecognised("let pattern in the scan")
                        else:
                            mo.ev(s_["e"], env)
                except tri.Ret as r_:
                    got_err = isinstance(r_.v, tuple) and len(r_.v) >= 3 and r_.v[0] == "ctor" and r_.v[2] == "Err"
                    if not got_err:
                        raise tri.Unrecognised("the scan returns something other than Err: %r" % (r_.v,))
                if want_err and not got_err:
                    wrong_accept.append("".join(vec))
                if got_err and not want_err:
                    wrong_reject.append("".join(vec))
    except tri.Unrecognised as e_:
        lost = str(e_)[:200]
    if lost:
        rep.lost("L-IDENT", "L-IDENT/unknown-rejected", "identifier scan inside the model language", lost)
        L.ok["L-IDENT"] = False
    else:
        chk(rep, L, "L-IDENT", okmap and not wrong_accept, "L-IDENT/unknown-rejected", stmts[tok_i]["sp"] if stmts[tok_i].get("sp") else v.sp,
            "every token vector (length <= 4) with an unknown identifier that is not a cast/not operand makes loading fail; the map consulted is Detection.identifiers",
            ("accepted: " + ", ".join(wrong_accept[:6])) if wrong_accept else ("contains_key on another map" if not okmap else ""))
        chk(rep, L, "L-IDENT", not wrong_reject, "L-IDENT/skip-only-cast-fields", v.sp, "a token is exempt exactly when the token two places back is a cast/not modifier: nothing else is skipped, nothing known is rejected",
            "rejected: " + ", ".join(wrong_reject[:6]))
        rep.ok("L-IDENT", "L-IDENT/index-in-step", v.sp, "positions are those of the token vector (evaluated: the scan's own counter or enumerate index against 781 vectors)")
    # (ii) Identifier nodes are built only by parse_nud
    where = {}
    for name, f in F.fns.items():
        if f.thir is None:
            continue
        for n in walk(f.body):
            if n.get("k") == "Adt" and n["adt"] == "parser::Expression" and n["variant"] == "Identifier" and not n.get("exp"):
                where[name] = where.get(name, 0) + 1
    chk(rep, L, "L-IDENT", set(where) <= {"parser::parse_nud"} and where.get("parser::parse_nud", 0) == 3, "L-IDENT/identifier-ctor-sites", "crate",
        "Expression::Identifier is constructed only in parse_nud (identifier, all(), of())", str(where))
    # (iii) optimise: clear only after coalesce, passes keep keys
    ro = F.fn("rule::Rule::optimise")
    if ro is None:
        rep.lost("L-IDENT", "L-IDENT/optimise", "Rule::optimise")
        L.ok["L-IDENT"] = False
    else:
        import optflow
        of = optflow.analyse(F)
        if of["error"]:
            rep.lost("L-IDENT", "L-IDENT/optimise-flow", "Rule::optimise inside the interpreted subset", of["error"][:200])
            L.ok["L-IDENT"] = False
        else:
            runs = {sw: run for (sw, al), run in of["runs"].items() if not al}

            def shape(term):
                """(passes applied value-wise outermost first, cleared?, keys kept by all, anything else involved)"""
                applied, kept, other = [], True, False
                while isinstance(term, tuple) and term[0] == "mapv":
                    applied.append(term[1])
                    kept = kept and term[3]
                    term = term[2]
                cleared = isinstance(term, tuple) and term[0] == "cleared"
                if cleared:
                    term = term[1]
                if term != ("init", "detection.identifiers"):
                    other = True
                return applied, cleared, kept, other
            shapes = {sw: shape(run["fields"].get("detection.identifiers")) for sw, run in runs.items()}
            # cleared exactly when coalesce ran (the condition no longer mentions identifiers then), and only as the first step
            okc = all(sh[1] == sw[0] and not sh[3] for sw, sh in shapes.items()) and all(run["fields"].get("detection.expression") == optflow.expected(sw, False)["detection.expression"] for sw, run in runs.items())
            chk(rep, L, "L-IDENT", okc, "L-IDENT/clear-after-coalesce", ro.sp, "identifiers is cleared exactly when (and right after) coalesce inlined them", "; ".join("%s:%s" % (sw, sh) for sw, sh in list(shapes.items())[:2] if sh[1] != sw[0] or sh[3]))
            for i, pas in ((1, "shake"), (2, "rewrite"), (3, "matrix")):
                okp = all(sh[2] and (("optimiser::" + pas in sh[0]) == sw[i]) for sw, sh in shapes.items())
                chk(rep, L, "L-IDENT", okp, "L-IDENT/keys-kept/" + pas, ro.sp, "%s maps (k, v) to (k, %s(v)): keys unchanged" % (pas, pas), "")
            chk(rep, L, "L-IDENT", not any(sh[3] for sh in shapes.values()), "L-IDENT/keys-kept/sites", ro.sp, "the identifier map is only ever cleared or mapped value-wise by these passes", "")
    # (iv) coalesce congruence
    co = F.fn("optimiser::coalesce")
    if co is None:
        rep.lost("L-IDENT", "L-IDENT/coalesce", "optimiser::coalesce")
        L.ok["L-IDENT"] = False
    else:
        m = unblock(co.body)
        want = {"BooleanGroup": 1, "BooleanExpression": 2, "Match": 1, "Negate": 1, "Nested": 1}
        got = {}
        if m.get("k") == "Match":
            for a in m["arms"]:
                v_ = variant_of(a["pat"])
                if v_ and v_[1] in want:
                    got[v_[1]] = len([x for x in walk(a["body"]) if call_is(x, "optimiser::coalesce")])
                if v_ and v_[1] == "Identifier":
                    s = show(a["body"])
                    nb = strip_ref(subpat(a["pat"], 0))
                    idp = [strip_ref(p_["pat"]).get("id") for p_ in co.thir["params"] if p_.get("pat")]
                    b0 = unblock(a["body"])
                    e0 = peel(b0["args"][0]) if call_is(b0, "Clone::clone") else {}
                    g0 = peel(e0["args"][0]) if call_is(e0, "::expect") or call_is(e0, "::unwrap") else {}
                    okl = call_is(g0, ">::get") and len(g0["args"]) == 2 and len(idp) == 2 and q.var_id(g0["args"][0]) == idp[1] and nb is not None and q.var_id(g0["args"][1]) == nb.get("id")
                    chk(rep, L, "L-IDENT", okl, "L-IDENT/coalesce-lookup", a["sp"], "coalesce replaces an identifier by (a clone of) its definition in the identifier map", s[:80])
            leaves = [pat_str(a["pat"]) for a in m["arms"] if not variant_of(a["pat"]) or strip_ref(a["pat"]).get("k") == "Or"]
        chk(rep, L, "L-IDENT", got == want, "L-IDENT/coalesce-congruence", co.sp, "coalesce recurses into every child of every composite node", str(got))


def lemma_shape(rep, F, L):
    rep.describe("L-SHAPE", "is_solvable's true-set == predicates; solver's final arm == its complement; loader checks is_solvable; and/or/not/comparison operands are filtered; group symbols are and/or")
    isf = F.fn("parser::Expression::is_solvable")
    se = F.fn("solver::solve_expression")
    if isf is None or se is None:
        rep.lost("L-SHAPE", "L-SHAPE/anchor", "is_solvable and solve_expression")
        L.ok["L-SHAPE"] = False
        return
    m = unblock(isf.body)
    tset, fset = set(), set()
    if m.get("k") == "Match":
        for a in m["arms"]:
            val = lit(unblock(a["body"]))
            for p in or_pats(a["pat"]):
                vv = variant_of(p)
                if vv and val:
                    (tset if val[1] else fset).add(vv[1])
    chk(rep, L, "L-SHAPE", tset == PRED and fset == OPERAND, "L-SHAPE/is_solvable-table", isf.sp, "is_solvable is true exactly for the eight predicate kinds", "true=%s false=%s" % (sorted(tset), sorted(fset)))
    top = se.body.get("expr")
    final = None
    handled = set()
    if top and top.get("k") == "Match":
        for a in top["arms"]:
            b = unblock(a["body"])
            if facts._panics(b) is not None:
                final = a
            else:
                for p in or_pats(a["pat"]):
                    vv = variant_of(p)
                    if vv:
                        handled.add(vv[1])
    fin_set = {variant_of(p)[1] for p in or_pats(final["pat"]) if variant_of(p)} if final else set()
    chk(rep, L, "L-SHAPE", final is not None and fin_set == OPERAND | {"BooleanGroup"} and handled == PRED, "L-SHAPE/solver-complement", final["sp"] if final else se.sp,
        "the solver handles every predicate kind and its panicking arm lists exactly the operand kinds (plus a group with a non-logical symbol)", "handled=%s final=%s" % (sorted(handled), sorted(fin_set)))
    # loader: is_solvable check before Ok
    vm = [f for n, f in F.fns.items() if n.endswith("::visit_map") and "DetectionVisitor" in n]
    ok = False
    if vm:
        for n in walk(vm[0].body):
            if n.get("k") == "If" and show(n["cond"]) == "Not(Expression::is_solvable(expression))":
                ok = any(x.get("k") == "Return" and facts.adt_is(peel(x["value"]), "Result", "Err") for x in walk(n["then"]))
    chk(rep, L, "L-SHAPE", ok, "L-SHAPE/top-level-solvable", vm[0].sp if vm else "-", "a condition whose root is not a predicate is rejected", "")
    # G-LED
    pl = F.fn("parser::parse_led")
    if pl is None:
        rep.lost("L-SHAPE", "L-SHAPE/parse_led", "parser::parse_led")
        L.ok["L-SHAPE"] = False
    else:
        sm = [n for n in walk(pl.body) if n.get("k") == "Match" and show(n["scrut"]) == "symbol"]
        if len(sm) != 1:
            rep.lost("L-SHAPE", "L-SHAPE/led-symbol-match", "match on the operator symbol in parse_led")
            L.ok["L-SHAPE"] = False
        else:
            covered = set()
            for a in sm[0]["arms"]:
                syms = {variant_of(p)[1] for p in or_pats(a["pat"]) if variant_of(p)}
                if not syms:
                    chk(rep, L, "L-SHAPE", False, "L-SHAPE/led-wildcard", a["sp"], "no wildcard arm lets an operator through unchecked", pat_str(a["pat"]))
                    continue
                covered |= syms
                filters = q.filters(a["body"])
                if syms <= {"And", "Or"}:
                    conds = [show(x["cond"]) for x in walk(a["body"]) if x.get("k") == "If" and any(r.get("k") == "Return" and facts.adt_is(peel(r["value"]), "Result", "Err") for r in walk(x["then"]))]
                    okk = "Not(Expression::is_solvable(left))" in conds and "Not(Expression::is_solvable(right))" in conds
                    chk(rep, L, "L-SHAPE", okk, "L-SHAPE/led/and-or", a["sp"], "operands of and/or must both be predicates (is_solvable), else Err", str(conds))
                else:
                    scr = [show(x) for x, _, _ in filters]
                    allowed_ok = True
                    for x, pats, _ in filters:
                        if show(x) in ("left", "right"):
                            kinds = {variant_of(p)[1] for y in pats for p in or_pats(y) if variant_of(p)}
                            allowed_ok = allowed_ok and kinds <= OPERAND and all(variant_of(p) for y in pats for p in or_pats(y))
                    okk = "left" in scr and "right" in scr and "(left, right)" in scr and allowed_ok
                    chk(rep, L, "L-SHAPE", okk, "L-SHAPE/led/" + "-".join(sorted(syms))[:40], a["sp"], "comparison operands are filtered to operand kinds and to the typed pairs, else Err", str(scr))
            chk(rep, L, "L-SHAPE", covered == {"And", "Or", "Equal", "GreaterThan", "GreaterThanOrEqual", "LessThan", "LessThanOrEqual"}, "L-SHAPE/led-covers-all", sm[0]["sp"], "every operator symbol has a checked arm", str(sorted(covered)))
            ctor = [n for n in walk(pl.body) if n.get("k") == "Adt" and n["adt"] == "parser::Expression"]
            chk(rep, L, "L-SHAPE", len(ctor) == 1 and ctor[0]["variant"] == "BooleanExpression", "L-SHAPE/led-single-ctor", pl.sp, "parse_led builds exactly one node, after the checks", str(len(ctor)))
    pn = F.fn("parser::parse_nud")
    if pn is not None:
        negs = [n for n in walk(pn.body) if n.get("k") == "Adt" and n["adt"] == "parser::Expression" and n["variant"] == "Negate"]
        okn = False
        det = ""
        for x, pats, _ in q.filters(pn.body):
            if show(x) == "right":
                kinds = {variant_of(p)[1] for y in pats for p in or_pats(y) if variant_of(p)}
                okn = kinds <= PRED | {"Boolean"} and all(variant_of(p) for y in pats for p in or_pats(y))
                det = str(sorted(kinds))
        chk(rep, L, "L-SHAPE", okn and len(negs) == 1, "L-SHAPE/not-operand", pn.sp, "`not` accepts only predicate operands, else Err", det)
    # group symbols
    nsym = 0
    for fname in ("parser::parse_mapping", "parser::parse_identifier", "optimiser::coalesce", "optimiser::shake_0", "optimiser::shake_1", "optimiser::rewrite", "optimiser::matrix"):
        f = F.fn(fname)
        if f is None:
            continue
        for n, path in walk_with_path(f.body):
            if n.get("k") == "Adt" and n["adt"] == "parser::Expression" and n["variant"] == "BooleanGroup":
                nsym += 1
                s0 = [x for x in n["fields"] if x["name"] == "0"][0]["e"]
                sp_ = peel(s0)
                ok = sp_.get("k") == "Adt" and sp_["adt"] == "tokeniser::BoolSym" and sp_["variant"] in ("And", "Or")
                if not ok and sp_.get("k") == "Var":
                    # bound from a BooleanGroup pattern's symbol position
                    for e in q.context(path, n):
                        if e[0] == "arm":
                            for p in or_pats(e[1]):
                                if variant_of(p) == ("Expression", "BooleanGroup") and strip_ref(subpat(p, 0)).get("id") == sp_["id"]:
                                    ok = True
                chk(rep, L, "L-SHAPE", ok, "L-SHAPE/group-symbol/%s#%d" % (fname, nsym), n["sp"], "a group's symbol is And/Or or copied from another group", show(s0))
    # identifier values are predicates: what parse_mapping collects
    pm = F.fn("parser::parse_mapping")
    if pm is not None:
        bad = []
        npush = 0
        for n in walk(pm.body):
            if call_is(n, "::push") and show(n["args"][0]) in ("expressions", "rest", "group"):
                npush += 1
                for a in q._value_leaves(n["args"][1]):
                    a = unblock(a)
                    if a.get("k") == "Adt" and a["adt"] == "parser::Expression":
                        if a["variant"] not in PRED:
                            bad.append(show(n)[:60])
                    elif not (a.get("k") == "Var" and a.get("ty") == "parser::Expression"):
                        bad.append(show(n)[:60])
        chk(rep, L, "L-SHAPE", not bad and npush >= 20, "L-SHAPE/identifier-members", pm.sp, "everything parse_mapping collects into a group is a predicate node", "; ".join(bad[:3]) or "%d pushes" % npush)
        exl = [s for x in walk(pm.body) if x.get("k") == "Block" for s in x["stmts"] if s["k"] == "Let" and s["pat"].get("name") == "expression" and s.get("init")]
        okv = False
        if len(exl) == 1 and unblock(exl[0]["init"]).get("k") == "Match":
            okv = True
            for a in unblock(exl[0]["init"])["arms"]:
                for leaf in _leaves(a["body"]):
                    lf = unblock(leaf)
                    if lf.get("k") in ("Return",) or lf.get("ty") == "!":
                        continue
                    if lf.get("k") == "Adt" and lf["adt"] == "parser::Expression" and lf["variant"] in PRED:
                        continue
                    if show(lf) == "<T>::expect(Iterator::next(IntoIterator::into_iter(group)), \"..\")":
                        continue
                    okv = False
        chk(rep, L, "L-SHAPE", okv, "L-SHAPE/mapping-entry-value", pm.sp, "every mapping entry becomes a predicate node (or a member of `group`)", "")


def walk_pat(p):
    """a pattern and all its sub-patterns"""
    p0 = strip_ref(p)
    yield p0
    for s in p0.get("sub") or []:
        if isinstance(s, dict) and "p" in s:
            yield from walk_pat(s["p"])
    for s in p0.get("pats") or []:
        yield from walk_pat(s)


def _is_wild(p):
    p = strip_ref(p)
    if p.get("k") == "Wild":
        return True
    return p.get("k") == "Leaf" and all(_is_wild(x["p"]) for x in p["sub"])


def _leaves(n):
    """Value leaves of an expression (through blocks, ifs and matches)."""
    n = unblock(n)
    k = n.get("k")
    if k == "Block":
        if n.get("expr"):
            yield from _leaves(n["expr"])
        elif n["stmts"] and n["stmts"][-1]["k"] == "Expr":
            yield from _leaves(n["stmts"][-1]["e"])
        return
    if k == "If":
        yield from _leaves(n["then"])
        if n.get("else"):
            yield from _leaves(n["else"])
        return
    if k == "Match":
        for a in n["arms"]:
            yield from _leaves(a["body"])
        return
    yield n


def push_count_paths(n, vec_name):
    """Set of possible numbers of pushes to `vec_name` along the paths through n (None = diverges)."""
    n = unblock(n)
    k = n.get("k")
    if k == "Call":
        if (n.get("fn") or "").endswith("::push") and show(n["args"][0]) == vec_name:
            return {1}
        return {0}
    if k == "Block":
        acc = {0}
        items = [s["e"] if s["k"] == "Expr" else s.get("init") for s in n["stmts"]] + ([n["expr"]] if n.get("expr") else [])
        for e in items:
            if e is None:
                continue
            c = push_count_paths(e, vec_name)
            acc = {a + b for a in acc for b in c}
        return acc
    if k == "If":
        a = push_count_paths(n["then"], vec_name)
        b = push_count_paths(n["else"], vec_name) if n.get("else") else {0}
        return a | b
    if k == "Match":
        out = set()
        for a in n["arms"]:
            out |= push_count_paths(a["body"], vec_name)
        return out
    if k in ("Return", "Break", "Continue"):
        return set()
    return {0}


KINDS14 = ("Boolean", "BooleanGroup", "BooleanExpression", "Cast", "Field", "Float", "Identifier", "Integer", "Match", "Matrix", "Negate", "Nested", "Null", "Search")


def _shape(kind):
    import tri
    E = lambda v, *f: ("ctor", "Expression", v, list(f))
    leaf = E("Null")
    return {
        "Boolean": E("Boolean", True), "BooleanGroup": E("BooleanGroup", ("ctor", "BoolSym", "And", []), ("list", [])), "BooleanExpression": E("BooleanExpression", leaf, ("ctor", "BoolSym", "Equal", []), leaf),
        "Cast": E("Cast", ("lit", "f"), ("ctor", "ModSym", "Int", [])), "Field": E("Field", ("lit", "f")), "Float": E("Float", 1), "Identifier": E("Identifier", ("lit", "X")), "Integer": E("Integer", 1),
        "Match": E("Match", ("ctor", "Match", "All", []), leaf), "Matrix": E("Matrix", ("list", []), ("list", [])), "Negate": E("Negate", leaf), "Nested": E("Nested", ("lit", "f"), leaf), "Null": leaf,
        "Search": E("Search", ("ctor", "Search", "Any", []), ("lit", "f"), False),
    }[kind]


def matrix_pass_agreement(rep, F, L, mf):
    """matrix() looks at every and-member of the group twice: once to decide whether its conjuncts count towards the columns,
    once to decide whether it becomes a row.  Both decisions are `valid = false` filters over the conjuncts; they must accept exactly
    the same conjunct shapes, otherwise a member becomes a row although some of its fields never became columns (its conjuncts are
    dropped) or the reverse.  The two filters are evaluated on all 14 x 14 comparison shapes and on the 14 node kinds."""
    import tri
    loops = []
    for n, path in walk_with_path(mf.body):
        if n.get("k") != "For":
            continue
        assigns = [x for x in walk(n["body"]) if x.get("k") == "Assign" and lit(x["rhs"]) == ("bool", False) and peel(x["lhs"]).get("k") == "Var"]
        inner = [x for x in walk(n["body"]) if x.get("k") == "For"]
        if assigns and not inner:
            loops.append((n, peel(assigns[0]["lhs"])["id"]))
    if len(loops) != 2:
        rep.lost("L-MATRIX", "L-MATRIX/pass-agreement", "the two validity filters over the conjuncts of an and-member", "%d filter loops" % len(loops))
        L.ok["L-MATRIX"] = False
        return
    calls = {"::contains_key": lambda mo, n, env: False, "::insert": lambda mo, n, env: (), "Clone::clone": lambda mo, n, env: mo.ev(n["args"][0], env),
             "::entry": lambda mo, n, env: tri.OPAQUE, "::or_insert": lambda mo, n, env: tri.OPAQUE}
    tables = []
    try:
        for loop, vid in loops:
            acc = set()
            el = strip_ref(q.loop_over(loop)[1])
            shapes = [(k, _shape(k)) for k in KINDS14 if k != "BooleanExpression"]
            E = lambda v, *f: ("ctor", "Expression", v, list(f))
            for a in KINDS14:
                for b in KINDS14:
                    shapes.append(("%s cmp %s" % (a, b), E("BooleanExpression", _shape(a), ("ctor", "BoolSym", "Equal", []), _shape(b))))
            for name, sh in shapes:
                mo = tri.Model(lambda i: None, calls=calls)
                env = {vid: True}
                if el.get("k") != "Bind":
                    raise tri.Unrecognised("loop pattern")
                env[el["id"]] = sh
                try:
                    mo.ev(loop["body"], env)
                except (tri.Brk, tri.Cont):
                    pass
                if env.get(vid) is True:
                    acc.add(name)
            tables.append(acc)
    except tri.Unrecognised as e:
        rep.lost("L-MATRIX", "L-MATRIX/pass-agreement", "validity filter inside the model language", str(e)[:200])
        L.ok["L-MATRIX"] = False
        return
    diff = sorted(tables[0] ^ tables[1])
    chk(rep, L, "L-MATRIX", not diff and len(tables[0]) >= 8, "L-MATRIX/pass-agreement", mf.sp,
        "the column-counting pass and the row-building pass accept exactly the same conjunct shapes (%d of 209)" % len(tables[0]), "accepted by only one pass: " + ", ".join(diff[:8]))


def lemma_matrix(rep, F, L):
    rep.describe("L-MATRIX", "optimiser::matrix pushes exactly one cell per column into every row (zero-push arms are unreachable given what the lookup map holds); cells refer only to their synthetic key; the solver's cache has columns.len() slots and is indexed by the row's enumerate index")
    mf = F.fn("optimiser::matrix")
    if mf is None:
        rep.lost("L-MATRIX", "L-MATRIX/anchor", "optimiser::matrix")
        L.ok["L-MATRIX"] = False
        return
    # row-building loops
    mats0 = [n for n in walk(mf.body) if n.get("k") == "Adt" and n["adt"] == "parser::Expression" and n["variant"] == "Matrix"]
    columns_id = q.var_id({f_["name"]: f_["e"] for f_ in mats0[0]["fields"]}["0"]) if len(mats0) == 1 else None
    loops = [(n, p) for n, p in walk_with_path(mf.body) if n.get("k") == "For" and columns_id is not None and q.loop_over(n)[0] == columns_id and q.loop_over(n)[2] is not None]
    chk(rep, L, "L-MATRIX", len(loops) == 5, "L-MATRIX/row-loops", mf.sp, "five row-building loops over columns.iter().enumerate()", str(len(loops)))
    # what lookup can hold
    inserted = set()
    ninsert = 0
    for n, p in walk_with_path(mf.body):
        if call_is(n, "::insert") and show(n["args"][0]) == "lookup":
            ninsert += 1
            val = show(n["args"][2])
            arms = [e for e in q.context(p, n) if e[0] == "arm"]
            shape = None
            for e in arms:
                for alt in or_pats(e[1]):
                    vv = variant_of(alt)
                    if vv and vv[0] == "Expression" and show(e[2]) == "expression":
                        shape = vv[1]
            lefts = set()
            for e in arms:
                pt = strip_ref(e[1])
                for alt in or_pats(e[1]):
                    alt = strip_ref(alt)
                    if alt.get("k") == "Leaf" and show(e[2]) == "(left, right)":
                        l0 = variant_of(subpat(alt, 0))
                        r0 = variant_of(subpat(alt, 1))
                        if l0 and r0:
                            lefts.add((l0[1], r0[1]))
            okv = val == "Clone::clone(expression)"
            if shape == "BooleanExpression":
                okv = okv and bool(lefts) and all(a in ("Cast", "Field") and b in ("Boolean", "Float", "Integer", "Null") for a, b in lefts)
                inserted |= {"BooleanExpression:" + a for a, _ in lefts}
            elif shape in ("Nested", "Search"):
                inserted |= {"Nested", "Search"}
            else:
                okv = False
            chk(rep, L, "L-MATRIX", okv, "L-MATRIX/lookup-insert#%d" % ninsert, n["sp"], "lookup only receives (Cast|Field cmp literal), Nested or Search conjuncts", "%s %s %s" % (val, shape, sorted(lefts)))
    chk(rep, L, "L-MATRIX", inserted == {"BooleanExpression:Cast", "BooleanExpression:Field", "Nested", "Search"}, "L-MATRIX/lookup-shapes", mf.sp, "shapes held by lookup", str(sorted(inserted)))
    matrix_pass_agreement(rep, F, L, mf)
    # the scratch map is a fresh one for every group member: a member that is rejected half way must not leave conjuncts behind for the next row
    lids = {q.base_var(n["args"][0]) for n in walk(mf.body) if call_is(n, "::insert") and "HashMap<" in str(peel(n["args"][0]).get("ty", "")) and call_is(peel(n["args"][2]), "Clone::clone")}
    lids &= {q.base_var(n["args"][0]) for n in walk(mf.body) if call_is(n, "::remove") and "HashMap<" in str(peel(n["args"][0]).get("ty", ""))}
    okscope = len(lids) == 1
    det = "%d scratch maps" % len(lids)
    if okscope:
        lid = list(lids)[0]
        let_chain = use_outer = None
        for n, path in walk_with_path(mf.body):
            fors = [x for x in path if x.get("k") == "For"]
            if n.get("k") == "Block":
                for st in n["stmts"]:
                    if st["k"] == "Let" and strip_ref(st["pat"]).get("k") == "Bind" and strip_ref(st["pat"])["id"] == lid:
                        let_chain = fors
            if n.get("k") == "Var" and n.get("id") == lid and fors:
                if use_outer is None:
                    use_outer = fors[0]
        okscope = let_chain is not None and use_outer is not None and any(x is use_outer for x in let_chain)
        det = "declared inside %d loops" % (len(let_chain) if let_chain is not None else -1)
    chk(rep, L, "L-MATRIX", okscope, "L-MATRIX/lookup-fresh-per-member", mf.sp, "the conjunct scratch map is declared inside the loop over the group's members (fresh for each member)", det)
    for idx, (loop, path) in enumerate(loops):
        counts = push_count_paths(loop["body"], "row")
        if counts == {1}:
            rep.ok("L-MATRIX", "L-MATRIX/one-cell-per-column#%d" % idx, loop["sp"], "every path through the column loop pushes exactly one cell")
            continue
        # zero-push paths must be the `_ => {}` arms of matches whose other arms cover every shape lookup can hold
        ok = counts <= {0, 1}
        zero_arms = []
        for n in walk(loop["body"]):
            if n.get("k") == "Match":
                for a in n["arms"]:
                    if push_count_paths(a["body"], "row") == {0} and strip_ref(a["pat"]).get("k") == "Wild":
                        others = {variant_of(p)[1] for b in n["arms"] if b is not a for p in or_pats(b["pat"]) if variant_of(p)}
                        sc = show(n["scrut"])
                        if sc == "expression":
                            zero_arms.append(others >= {"BooleanExpression", "Nested", "Search"})
                        elif sc == "left":
                            zero_arms.append(others >= {"Cast", "Field"})
                        else:
                            zero_arms.append(False)
                    elif push_count_paths(a["body"], "row") == {0} and not strip_ref(a["pat"]).get("k") == "Wild":
                        zero_arms.append(False)
        ok = ok and bool(zero_arms) and all(zero_arms)
        # and the non-lookup branch pushes None
        chk(rep, L, "L-MATRIX", ok, "L-MATRIX/one-cell-per-column#%d" % idx, loop["sp"], "paths that push no cell are wildcard arms unreachable for the shapes lookup holds", "push counts %s, wildcard arms ok: %s" % (sorted(counts), zero_arms))
    # cells: right operand of a comparison cell is a literal (bound under a literal pattern) or a clone of it
    ncell = 0
    for n, p in walk_with_path(mf.body):
        if n.get("k") == "Adt" and n["adt"] == "parser::Expression" and n["variant"] == "BooleanExpression" and "key" in show(n):
            ncell += 1
            right = [x for x in n["fields"] if x["name"] == "2"][0]["e"]
            rid = q.var_id(unblock(right)) if unblock(right).get("k") == "Var" else (q.var_id(peel(unblock(right))["args"][0]) if call_is(peel(unblock(right)), "Clone::clone") else None)
            okr = False
            pair_arms = []  # enclosing arms of a match on the (left, right) pair of the comparison
            via_entry = False
            for e in q.context(p, n):
                if e[0] != "arm":
                    continue
                for alt in or_pats(e[1]):
                    alt = strip_ref(alt)
                    if alt.get("k") == "Leaf" and len(alt["sub"]) == 2 and peel(e[2]).get("k") == "Tuple":
                        r0 = variant_of(subpat(alt, 1))
                        pair_arms.append(bool(r0 and r0[1] in ("Boolean", "Float", "Integer", "Null")))
                    if variant_of(alt) == ("Expression", "BooleanExpression") and strip_ref(subpat(alt, 2)).get("id") == rid:
                        via_entry = True
            if pair_arms:
                # built directly from a group member: every alternative of the pair pattern must restrict the right side to a literal
                okr = all(pair_arms)
            else:
                # cell rebuilt from a lookup entry (whose right side is a literal by L-MATRIX/lookup-insert)
                okr = via_entry
            chk(rep, L, "L-MATRIX", okr, "L-MATRIX/cell-right-literal#%d" % ncell, n["sp"], "a comparison cell compares its key with a literal (no second field is looked up in the cache)", show(right))
            # the cell keeps the operand kind of the conjunct it replaces: Cast(_, kind) -> Cast(key, kind), Field(_) -> Field(key)
            left = [x for x in n["fields"] if x["name"] == "0"][0]["e"]
            lx = peel(left)
            if lx.get("k") == "Call" and (lx.get("fn") or "").endswith("Box::<T>::new"):
                lx = peel(lx["args"][0])
            src_kind = None
            kind_id = None
            for e in q.context(p, n):
                if e[0] != "arm":
                    continue
                for alt in or_pats(e[1]):
                    a0 = strip_ref(alt)
                    cand = a0
                    if a0.get("k") == "Leaf" and len(a0["sub"]) == 2:
                        cand = strip_ref(subpat(a0, 0))
                    vv = variant_of(cand)
                    if vv and vv[0] == "Expression" and vv[1] in ("Cast", "Field"):
                        src_kind = vv[1]
                        if vv[1] == "Cast":
                            kb = strip_ref(subpat(cand, 1))
                            kind_id = kb.get("id") if kb and kb.get("k") == "Bind" else None
            okk = lx.get("k") == "Adt" and lx["variant"] == src_kind
            if okk and src_kind == "Cast":
                kf = peel([x for x in lx["fields"] if x["name"] == "1"][0]["e"])
                kv = q.var_id(kf["args"][0]) if call_is(kf, "Clone::clone") else q.var_id(kf)
                okk = kv is not None and kv == kind_id
            chk(rep, L, "L-MATRIX", okk, "L-MATRIX/cell-keeps-operand-kind#%d" % ncell, n["sp"], "a comparison cell keeps the cast/field kind of the conjunct it was built from", "%s from %s" % (show(left)[:60], src_kind))
    chk(rep, L, "L-MATRIX", ncell == 4, "L-MATRIX/cell-sites", mf.sp, "four comparison-cell constructors", str(ncell))
    # solver side
    for fname in ("solver::solve_expression", "solver::match_all", "solver::match_of"):
        f = F.fn(fname)
        if f is None:
            rep.lost("L-MATRIX", "L-MATRIX/anchor/" + fname, fname)
            L.ok["L-MATRIX"] = False
            continue
        # the vector handed to Cache(&..) has, by construction, as many slots as the Matrix node has columns, and is afterwards
        # only assigned element-wise
        cs = [n for n in walk(f.body) if n.get("k") == "Adt" and n["adt"].endswith("solver::Cache")]
        cids = {q.base_var(c["fields"][0]["e"]) for c in cs}
        colids = set()
        for pat in q.all_patterns(f.body):
            for p in or_pats(pat):
                for pp in walk_pat(p):
                    if variant_of(pp) and variant_of(pp)[1] == "Matrix" and variant_of(pp)[0] == "Expression":
                        b = strip_ref(subpat(pp, 0))
                        if b is not None and b.get("k") == "Bind":
                            colids.add(b["id"])
        ln = q.sym_len(f.body, list(cids)[0]) if len(cids) == 1 and None not in cids else None
        ok = ln is not None and ln[0] == "len" and ln[1] in colids
        elem = show(ln[2]) if ln else "-"
        ln = ln[:2] if ln else None
        chk(rep, L, "L-MATRIX", ok, "L-MATRIX/cache-size/" + fname, f.sp, "cache is created with exactly columns.len() slots and never grows or shrinks afterwards", "len=%s columns=%s caches=%s" % (ln, sorted(colids), sorted(map(str, cids))))
        chk(rep, L, "L-MATRIX", elem == "Option::None", "L-MATRIX/cache-only-grows-at-init/" + fname, f.sp, "the slots start empty (None)", elem)
        rows = q.row_cell_loops(f)
        want = 2 if fname == "solver::solve_expression" else 1
        chk(rep, L, "L-MATRIX", len(rows) == want, "L-MATRIX/row-index/" + fname, f.sp, "cache/columns are indexed by the row's own enumerate index", str(len(rows)))
    cf = F.fn("<solver::Cache<'_> as document::Document>::find")
    if cf is not None:
        s = show(cf.body)
        okdec, detdec = q.cache_decode(cf)
        chk(rep, L, "L-MATRIX", okdec, "L-MATRIX/cache-decode", cf.sp,
            "Cache::find indexes by the key's first char (inverse of char::from_u32(column index).to_string())", s[:100])
    # the Matrix node is built once, from (columns, rows)
    mats = [n for name, f in F.fns.items() if f.thir is not None and not name.startswith("<") for n in walk(f.body) if n.get("k") == "Adt" and n["adt"] == "parser::Expression" and n["variant"] == "Matrix"]
    okm = len(mats) == 1 and all(peel(f_["e"]).get("k") == "Var" for f_ in mats[0]["fields"])
    chk(rep, L, "L-MATRIX", okm, "L-MATRIX/single-ctor", mf.sp, "Expression::Matrix is constructed in one place from (columns, rows)", "; ".join(show(x) for x in mats))


def lemma_lockstep(rep, F, L):
    rep.describe("L-LOCKSTEP", "context and needle vectors of every automaton have equal length (C07 LOCKSTEP rules re-evaluated)")
    import core
    import c07
    sub = core.Report("C07", rep.tier)
    c07.run(sub)
    inst = [i for i in sub.instances if i.rule in ("LOCKSTEP",)]
    bad = [i for i in inst if i.status != "discharged"]
    chk(rep, L, "L-LOCKSTEP", len(inst) >= 24 and not bad, "L-LOCKSTEP/imported", "src/parser.rs|src/optimiser.rs", "all %d lockstep obligations hold" % len(inst), "; ".join(i.key for i in bad[:4]))
    # the scan `find_overlapping_iter` itself panics on an automaton configured with another match kind or an anchored start kind
    kinds = [i for i in sub.instances if i.rule == "AHO-OVERLAP" and i.key.startswith("AHO-OVERLAP/kind/")]
    badk = [i for i in kinds if i.status != "discharged"]
    chk(rep, L, "L-LOCKSTEP", len(kinds) >= 6 and not badk, "L-LOCKSTEP/automaton-config", "src/parser.rs|src/optimiser.rs", "all %d automaton builders keep the configuration the solver's overlapping scan accepts" % len(kinds), "; ".join(i.key for i in badk[:4]))


def make_rules(F, L):
    def d_ident(F, s):
        if s.kind not in ("panic", "expect"):
            return None
        n = s.node
        if s.fn not in ("optimiser::coalesce", "solver::solve_expression"):
            return None
        # `identifiers.get(<the name bound by the enclosing Expression::Identifier pattern>)` must succeed: as expect(..), or
        # (normalised to it) as the panicking None arm of a match on it
        f = F.fns[s.fn]
        idents = [strip_ref(p["pat"]).get("id") for p in f.thir["params"] if p.get("pat") and "HashMap<std::string::String, parser::Expression>" in strip_ref(p["pat"]).get("ty", "")]
        names = set()
        for e in q.context(s.path, n):
            if e[0] == "arm":
                for alt in or_pats(e[1]):
                    if variant_of(alt) and variant_of(alt)[1] == "Identifier":
                        b = strip_ref(subpat(alt, 0))
                        if b is not None and b.get("k") == "Bind":
                            names.add(b["id"])
        g = peel(n["args"][0]) if n.get("k") == "Call" and (n.get("fn") or "").endswith("::expect") and n["args"] else None
        if g is None and s.kind == "panic":
            # the panicking arm of a several-armed match on the lookup (e.g. Some(group) / Some(other) / _ => unreachable!())
            arms = [e for e in q.context(s.path, n) if e[0] == "arm"]
            if arms and strip_ref(arms[-1][1]).get("k") in ("Wild",) or (arms and variant_of(arms[-1][1]) == ("Option", "None")):
                g = peel(arms[-1][2])
        if g is not None and call_is(g, ">::get") and len(g["args"]) == 2 and q.var_id(g["args"][0]) in idents and q.var_id(g["args"][1]) in names:
            return ("D-IDENT", "identifier exists (lemma L-IDENT)") if L.ok["L-IDENT"] else None
        return None

    def d_grammar(F, s):
        if s.kind != "panic":
            return None
        ctx = q.context(s.path, s.node)
        arms = [e for e in ctx if e[0] == "arm"]
        if s.fn == "solver::solve_expression" and arms and show(arms[-1][2]) == "expression":
            kinds = {variant_of(p)[1] for p in or_pats(arms[-1][1]) if variant_of(p)}
            if kinds == OPERAND | {"BooleanGroup"}:
                return ("D-GRAMMAR", "the solver is only handed predicate nodes with and/or groups (lemma L-SHAPE)") if L.ok["L-SHAPE"] else None
        if s.fn == "optimiser::shake_0" and arms and show(arms[-1][2]) == "symbol" and strip_ref(arms[-1][1]).get("k") == "Wild":
            return ("D-GRAMMAR", "a group's symbol is And or Or (lemma L-SHAPE/group-symbol)") if L.ok["L-SHAPE"] else None
        return None

    def d_cmp_total(F, s):
        if s.kind != "panic" or s.fn != "solver::solve_expression":
            return None
        ctx = q.context(s.path, s.node)
        arms = [e for e in ctx if e[0] == "arm"]
        if not arms or strip_ref(arms[-1][1]).get("k") != "Wild" or show(arms[-1][2]) != "(x, op, y)":
            return None
        # every comparison operator has a (_, Op, _) catch-all in the same match
        m = [p for p in s.path if p.get("k") == "Match" and show(p["scrut"]) == "(x, op, y)"]
        ops = set()
        for a in m[-1]["arms"]:
            p = strip_ref(a["pat"])
            if p.get("k") == "Leaf" and strip_ref(subpat(p, 0)).get("k") == "Wild" and strip_ref(subpat(p, 2)).get("k") == "Wild" and variant_of(subpat(p, 1)):
                ops.add(variant_of(subpat(p, 1))[1])
        # and the enclosing arm admits only those operators
        outer = [e for e in arms if show(e[2]) == "op"]
        admitted = {variant_of(p)[1] for p in or_pats(outer[-1][1]) if variant_of(p)} if outer else set()
        if admitted and admitted <= ops:
            return ("D-CMP-TOTAL", "every operator admitted here (%s) has a `(_, Op, _) => false` catch-all before the final arm" % ", ".join(sorted(admitted)))
        return None

    def d_matrix(F, s):
        if not L.ok["L-MATRIX"]:
            return None
        sh = show(s.node)
        if s.fn == "<solver::Cache<'_> as document::Document>::find":
            return ("D-MATRIX", "cache documents only see one-character synthetic keys below columns.len() (lemma L-MATRIX, PROV-MATRIX)")
        if s.fn in ("solver::solve_expression", "solver::match_all", "solver::match_of") and s.kind == "index":
            n_ = s.node
            f_ = F.fns[s.fn]
            if n_.get("k") == "Call" and len(n_["args"]) == 2:
                cols_, _, _ = q.matrix_roles_solver(f_)
                cache_ids = {q.base_var(c_["fields"][0]["e"]) for c_ in walk(f_.body) if c_.get("k") == "Adt" and c_["adt"].endswith("solver::Cache")}
                target = q.base_var(n_["args"][0])
                iv = q.var_id(n_["args"][1])
                inrow = [idx for loop, idx in q.row_cell_loops(f_) if idx == iv and q.contains(loop["body"], n_)]
                if target is not None and (target in cols_ or target in cache_ids) and inrow:
                    return ("D-MATRIX", "i enumerates a row, rows have one cell per column, cache has one slot per column (lemma L-MATRIX)")
        return None

    def d_aho(F, s):
        if not L.ok["L-LOCKSTEP"]:
            return None
        if s.fn not in ("solver::search", "solver::slow_aho"):
            return None
        import c07
        f = F.fns[s.fn]
        root = f.body
        pairs = c07.aho_pairs(f, root)
        ctx = q.context(s.path, s.node)
        n = s.node

        def hit_of(e):
            """e is `h.pattern()` (possibly through a let) for the loop variable h of `for h in A.find_overlapping_iter(..)`: -> id of A"""
            e = q.resolve(root, e)
            if not call_is(e, "Match::pattern"):
                return None
            h = q.var_id(e["args"][0])
            for c in ctx:
                if c[0] == "for" and strip_ref(c[1]).get("k") == "Bind" and strip_ref(c[1])["id"] == h and call_is(peel(c[2]), "find_overlapping_iter"):
                    return q.base_var(peel(c[2])["args"][0], root)
            return None

        def small(ctxvec):
            """a true fact `len(ctxvec) < 64` (possibly through a let)"""
            for t in q.true_facts(ctx):
                t = peel(t)
                if t.get("k") == "Binary" and t["op"] == "Lt" and lit(t["rhs"]) and lit(t["rhs"])[1] == 64:
                    l = q.resolve(root, t["lhs"])
                    if call_is(l, "::len") and (ctxvec is None or q.base_var(l["args"][0], root) == ctxvec):
                        return q.base_var(l["args"][0], root)
            return None
        if n.get("k") == "Call" and call_is(n, "Index::index") and len(n["args"]) == 2:
            a = hit_of(n["args"][1])
            if a is not None and (a, q.base_var(n["args"][0], root)) in pairs:
                return ("D-AHO", "pattern ids are below the number of needles == context length (lemma L-LOCKSTEP)")
        if n.get("k") == "Binary" and n["op"] == "Shl":
            r = q.resolve(root, n["rhs"])
            if call_is(r, "PatternID::as_u64"):
                a = hit_of(r["args"][0])
                cv = [m for (x, m) in pairs if x == a]
                if a is not None and cv and small(cv[0]) is not None:
                    return ("D-AHO", "p < len < 64 (len = context length, lemma L-LOCKSTEP)")
        if n.get("k") == "Binary" and n["op"] == "Shr":
            iv = q.base_var(n["rhs"], root)  # also through `let &i = item` of a normalised filter closure
            for c in ctx:
                if c[0] == "for" and strip_ref(c[1]).get("k") == "Bind" and strip_ref(c[1])["id"] == iv:
                    end = q._range_upto(c[2], root)
                    if end is not None and call_is(end, "::len") and small(q.base_var(end["args"][0], root)) is not None:
                        return ("D-AHO", "i in 0..len and len < 64")
        return None

    return (d_ident, d_grammar, d_cmp_total, d_matrix, d_aho)


def run(rep):
    F = facts.load("A")
    rep.configs = ["A(core,json)"]
    rep.explanation = (
        "For every rule the loader accepts, optimise/matches/validate must not reach a panic.  The check enumerates on the MIR every "
        "panic-capable site reachable from those entry points (including all local Document/Object/Array/AsValue adapters) and discharges "
        "each by a named rule.  Sites that rely on 'the loader validated this' are discharged through lemmas that are themselves checked on "
        "the code: L-IDENT (identifier existence scan and who builds Identifier nodes), L-SHAPE (is_solvable table == solver's handled set, "
        "operand filters of and/or/not/comparisons, group symbols), L-MATRIX (one cell per column, cells address only their own key, cache "
        "sized by columns) and L-LOCKSTEP (needle/context alignment).  This reduces 'no accepted rule reaches unreachable!()' to a finite "
        "set of constructor sites and filters."
    )
    rep.describe("PANIC", "every reachable panic-capable site (MIR inventory) is discharged by a named rule on its typed-tree context, possibly through a checked lemma")
    L = Lemmas()
    lemma_ident(rep, F, L)
    lemma_shape(rep, F, L)
    lemma_matrix(rep, F, L)
    lemma_lockstep(rep, F, L)
    import c07
    panic.LOCKSTEP_PAIR_IDS = {(r[1], r[0]) for r in c07.lockstep_roles(F).values()}
    panic.LOCKSTEP_OK = L.ok["L-LOCKSTEP"]
    run_panic(rep, F, ["OPT", "MATCH", "VALIDATE"], floor=50, extra_rules=make_rules(F, L))
    rep.extra["lemmas"] = dict(L.ok)
    if rep.tier == "thorough":
        import poscontrol
        poscontrol.panics(rep)
        poscontrol.panic_forms(rep)
    rep.floor("L-IDENT", 10)
    rep.floor("L-SHAPE", 20)
    rep.floor("L-MATRIX", 25)
    rep.exhaustive = True
    rep.assumptions.append("users of the `core` feature who build Expression trees by hand are outside the property (it quantifies over rules accepted by the loader)")
    rep.assumptions.append("stack depth and allocation failure are out of scope")
    rep.trusted.append("regex/aho-corasick search calls do not panic on the inputs this crate constructs (standard match kind is checked by C07)")
