"""C01 Optimisation never changes a verdict: the structural necessary conditions.

PASS-ARMS        every arm of the five passes is an identity, a congruence (same node rebuilt, every child through exactly one recursive
                 call back to its own position) or a reviewed rewrite; an unreviewed rewrite arm is a violation
LAW              each reviewed rewrite is paired with an algebraic law that is evaluated on the *extracted* solver model (TRI):
                 group-of-one, flattening/associativity, double negation, identifier inlining, or-symmetry
ORDER-AND        an and-group's (or matrix row's) operand vector is filled in source order: the three-valued `and` is order sensitive
COUNTER-CONTEXT  a group under all()/of() is rebuilt element by element; count-changing passes are not applied to values all()/of() can name
REWRITE-CONST    the only text rewrite strips exactly a leading/trailing ".*" and falls back to the original regex
OPT-PANIC        optimising never panics (shared with C03: PANIC inventory + lemmas)
"""
import itertools
import re

import core
import facts
import q
import tri
from facts import walk, walk_with_path, peel, call_is, unblock, variant_of, strip_ref, subpat, pat_str, lit, or_pats, pat_binds
from show import show, show_fn
from tri import Child, SR, Unrecognised

PASSES = ["optimiser::coalesce", "optimiser::shake_0", "optimiser::shake_1", "optimiser::rewrite", "optimiser::matrix"]
LEAF_ARM = {"Boolean", "Cast", "Field", "Float", "Integer", "Null"}

# reviewed rewrite arms: (pass, arm pattern) -> (law / rule that owns it)
REVIEWED = {
    ("optimiser::coalesce", "Expression::Identifier($i)"): "INLINE",
    ("optimiser::shake_0", "Expression::BooleanGroup($symbol, $expressions)"): "UNWRAP1",
    ("optimiser::shake_0", "Expression::BooleanExpression($left, $symbol, $right)"): "FLATTEN",
    ("optimiser::shake_0", "Expression::Negate($expression)"): "DNEG",
    ("optimiser::shake_0", "Expression::Match($kind, $expression)"): "COUNTER-CONTEXT",
    ("optimiser::shake_1", "Expression::BooleanGroup(BoolSym::And, $expressions)"): "NESTED-MERGE-AND",
    ("optimiser::shake_1", "Expression::BooleanGroup(BoolSym::Or, $expressions)"): "OR-MERGE",
    ("optimiser::shake_1", "Expression::Match($kind, $expression)"): "COUNTER-CONTEXT",
    ("optimiser::rewrite", "Expression::Search($search, $f, $c)"): "REWRITE-CONST",
    ("optimiser::matrix", "Expression::BooleanGroup(BoolSym::Or, $expressions)"): "MATRIX-BUILD",
    ("optimiser::matrix", "Expression::Match($kind, $expression)"): "COUNTER-CONTEXT",
}


def is_box_new(n):
    n = peel(n)
    return n.get("k") == "Call" and (n.get("fn") or "").endswith("Box::<T>::new")


def congruent(F, pname, arm):
    """True iff the arm rebuilds its own variant with every child passed once through `pname` back to its position."""
    alts = or_pats(arm["pat"])
    if len(alts) != 1:
        return False
    p = strip_ref(alts[0])
    v = variant_of(p)
    if not v:
        return False
    body = arm["body"]
    # let-inlining environment: name id -> init expr
    lets = {}
    b = unblock(body)
    tail = b
    if b.get("k") == "Block":
        for s in b["stmts"]:
            if s["k"] == "Let" and s["pat"].get("k") == "Bind" and s.get("init"):
                lets[s["pat"]["id"]] = s["init"]
        tail = unblock(b["expr"]) if b.get("expr") else None
    if tail is None or tail.get("k") != "Adt" or tail["adt"] != "parser::Expression" or tail["variant"] != v[1]:
        return False
    fields = {f["name"]: f["e"] for f in tail["fields"]}

    def resolve(e):
        e = peel(e)
        if e.get("k") == "Var" and e["id"] in lets:
            return peel(lets[e["id"]])
        return e

    for sp in p["sub"]:
        sub = strip_ref(sp["p"])
        fe = fields.get(str(sp["i"]))
        if fe is None:
            return False
        if sub.get("k") == "Variant":
            # literal payload (BoolSym::And): the field must be the same literal
            fv = peel(fe)
            if not (fv.get("k") == "Adt" and (fv["adt"].split("::")[-1], fv["variant"]) == variant_of(sub)):
                return False
            continue
        if sub.get("k") != "Bind":
            return False
        ty = sub["ty"]
        if ty == "std::boxed::Box<parser::Expression>":
            x = resolve(fe)
            if is_box_new(x):
                x = resolve(x["args"][0])
            if not (x.get("k") == "Call" and x.get("fn") == pname and q.var_id(x["args"][0]) == sub["id"]):
                return False
        elif ty == "std::vec::Vec<parser::Expression>":
            sv = peel(fe)
            if sv.get("k") == "Var" and sv["id"] in lets and peel(lets[sv["id"]]).get("collected"):
                sv = peel(lets[sv["id"]])
            if sv.get("k") == "Block" and sv.get("collected"):
                # `children.into_iter().map(|x| P(x)).collect()` normalised to a loop that pushes in order
                sv = peel(sv["expr"])
            if sv.get("k") != "Var":
                return False
            # filled only by push(scratch, P(x)) inside `for x in <sub>`
            pushes = [(n, path) for n, path in walk_with_path(body) if call_is(n, "::push") and q.var_id(n["args"][0]) == sv["id"]]
            if len(pushes) != 1:
                return False
            n, path = pushes[0]
            loops = [x for x in path if x.get("k") == "For"]
            it = peel(loops[0]["iter"]) if len(loops) == 1 else {}
            if call_is(it, "IntoIterator::into_iter"):
                it = peel(it["args"][0])
            if len(loops) != 1 or q.var_id(it) != sub["id"]:
                return False
            xv = loops[0]["pat"].get("id")
            a = peel(n["args"][1])
            if a.get("k") == "Var":
                # let rewriten = P(expression); push(scratch, rewriten)
                inner = [s for blk in walk(loops[0]["body"]) if blk.get("k") == "Block" for s in blk["stmts"] if s["k"] == "Let" and s["pat"].get("id") == a["id"]]
                a = peel(inner[0]["init"]) if inner else a
            if not (a.get("k") == "Call" and a.get("fn") == pname and q.var_id(a["args"][0]) == xv):
                return False
        else:
            if q.var_id(fe) != sub["id"]:
                return False
    # no other recursive calls than one per child
    nchild = sum(1 for sp in p["sub"] if strip_ref(sp["p"]).get("k") == "Bind" and "parser::Expression" in strip_ref(sp["p"])["ty"])
    nrec = len([x for x in walk(body) if call_is(x, pname) and x.get("fn") == pname])
    return nrec == nchild


def run(rep):
    F = facts.load("A")
    rep.configs = ["A(core,json)"]
    rep.explanation = (
        "Semantic equivalence of five tree rewrites for all rules x documents x 16 switch sets is not statically decidable here.  Decided are "
        "necessary conditions visible in the shape of the optimiser: every arm of every pass is classified identity / congruence / reviewed "
        "rewrite (an unreviewed rewrite is a violation); each reviewed connective rewrite is tied to an algebraic law that is evaluated on the "
        "solver model extracted from /repo (so the law is about the real three-valued semantics, including Missing); and-operand order is "
        "preserved; groups under all()/of() are rebuilt element-wise; the text rewrite strips only '.*'; optimising never panics (PANIC "
        "inventory shared with C03).  Not decided: that merging searches into automata/regex sets, the matrix cache and '.*' stripping "
        "preserve string-level semantics."
    )
    for r, t in (("PASS-ARMS", "arm classification: identity / congruence / reviewed rewrite"), ("LAW", "algebraic law of a rewrite evaluated on the extracted solver model"),
                 ("ORDER-AND", "and-operands / row cells are emitted in source order"), ("COUNTER-CONTEXT", "nothing is merged under a counter"),
                 ("REWRITE-CONST", "only '.*' is stripped, with fallback"), ("OPT-SWITCHES", "Rule::optimise applies each pass under its own switch, in the fixed order")):
        rep.describe(r, t)
    # ---------------------------------------------------------------- PASS-ARMS
    narms = 0
    for pname in PASSES:
        f = F.fn(pname)
        if f is None:
            rep.lost("PASS-ARMS", "PASS-ARMS/anchor/" + pname, pname)
            continue
        m = unblock(f.body)
        if m.get("k") != "Match" or q.var_id(m["scrut"]) != strip_ref(f.thir["params"][0]["pat"]).get("id"):
            rep.lost("PASS-ARMS", "PASS-ARMS/shape/" + pname, "pass is a single match on its argument")
            continue
        covered = set()
        for a in m["arms"]:
            ps = pat_str(a["pat"])
            kinds = {variant_of(p)[1] for p in or_pats(a["pat"]) if variant_of(p)}
            covered |= kinds
            narms += 1
            key = "PASS-ARMS/%s/%s" % (pname.split("::")[-1], ps[:70])
            if strip_ref(a["pat"]).get("k") == "Wild" or not kinds:
                rep.bad("PASS-ARMS", key, a["sp"], "no wildcard arm (every node kind is handled explicitly)", ps)
                continue
            body = unblock(a["body"])
            if body.get("k") == "Var" and body["id"] == strip_ref(f.thir["params"][0]["pat"]).get("id"):
                # identity: allowed for leaves, for Matrix/Search/Identifier (no children this pass looks into)
                composite = kinds & {"BooleanExpression", "Match", "Negate", "Nested"}
                okid = not composite
                if "BooleanGroup" in kinds:
                    # only legal as a dead arm (a group's symbol is always And/Or and those arms come first)
                    earlier = {pat_str(x["pat"]) for x in m["arms"][:m["arms"].index(a)]}
                    okid = okid and any("BooleanGroup(BoolSym::And" in e for e in earlier) and any("BooleanGroup(BoolSym::Or" in e for e in earlier)
                rep.check(okid, "PASS-ARMS", key, a["sp"], "identity arm only for nodes this pass does not look into", "identity on %s" % sorted(kinds))
                continue
            if congruent(F, pname, a):
                rep.ok("PASS-ARMS", key, a["sp"], "congruence: node rebuilt, every child through one recursive call to its own position")
                continue
            law = next((v_ for (pn_, pp_), v_ in REVIEWED.items() if pn_ == pname and ps == pp_), None)
            rep.check(law is not None, "PASS-ARMS", key, a["sp"], "rewrite arm is in the reviewed table", "reviewed as %s" % law if law else "UNREVIEWED rewrite arm: " + show(a["body"])[:100])
        allk = {"BooleanGroup", "BooleanExpression", "Boolean", "Cast", "Field", "Float", "Identifier", "Integer", "Match", "Matrix", "Negate", "Nested", "Null", "Search"}
        rep.check(covered == allk, "PASS-ARMS", "PASS-ARMS/%s/covers-all" % pname.split("::")[-1], f.sp, "all 14 node kinds are covered", str(sorted(allk - covered)))
    rep.floor("PASS-ARMS", 40)

    # ---------------------------------------------------------------- LAW (evaluated on the extracted solver model)
    import c06
    try:
        S = c06.Solver(F)
    except Unrecognised as e:
        rep.lost("LAW", "LAW/anchor", "solver model", str(e))
        S = None
    E, SYM, kids = c06.E, c06.SYM, c06.kids
    nlaw = [0]

    def sem(shape, idents, vec):
        nlaw[0] += 1
        if isinstance(shape, Child):
            return vec[shape.i]
        v = S.call("solver::solve_expression", [shape, ("map", idents), tri.OPAQUE], lambda i: SR(vec[i]), idents)
        return v[1]

    def law(key, what, k, lhs, rhs, idents=None, site="src/optimiser.rs"):
        bad = []
        try:
            for vec in tri.vectors(k):
                a, b = sem(lhs, idents or {}, vec), sem(rhs, idents or {}, vec)
                if a != b:
                    bad.append("%s: before=%s after=%s" % (",".join(c06.NAMES[x] for x in vec), c06.NAMES[a], c06.NAMES[b]))
        except Unrecognised as e:
            rep.lost("LAW", key, "law is inside the model language", str(e)[:200])
            return
        rep.check(not bad, "LAW", key, site, what, "; ".join(bad[:4]) if bad else None)

    if S is not None:
        for s in ("And", "Or"):
            law("LAW/shake_0/group-of-one/" + s, "group(%s,[x]) == x" % s.lower(), 1, E("BooleanGroup", SYM(s), kids(1)), Child(0))
            for nl, nr in ((1, 1), (1, 2), (2, 1), (2, 2)):
                L = ("list", [Child(i) for i in range(nl)])
                R = ("list", [Child(nl + i) for i in range(nr)])
                law("LAW/shake_0/flatten/%s/group-group/%d+%d" % (s, nl, nr), "(group(l) %s group(r)) == group(l ++ r)" % s.lower(), nl + nr,
                    E("BooleanExpression", E("BooleanGroup", SYM(s), L), SYM(s), E("BooleanGroup", SYM(s), R)), E("BooleanGroup", SYM(s), kids(nl + nr)))
            for nl in (1, 2):
                L = ("list", [Child(i) for i in range(nl)])
                law("LAW/shake_0/flatten/%s/group-x/%d" % (s, nl), "(group(l) %s x) == group(l ++ [x])" % s.lower(), nl + 1,
                    E("BooleanExpression", E("BooleanGroup", SYM(s), L), SYM(s), Child(nl)), E("BooleanGroup", SYM(s), kids(nl + 1)))
                R = ("list", [Child(1 + i) for i in range(nl)])
                law("LAW/shake_0/flatten/%s/x-group/%d" % (s, nl), "(x %s group(r)) == group([x] ++ r)" % s.lower(), nl + 1,
                    E("BooleanExpression", Child(0), SYM(s), E("BooleanGroup", SYM(s), R)), E("BooleanGroup", SYM(s), kids(nl + 1)))
            law("LAW/shake_0/flatten/%s/bin-x" % s, "((x %s y) %s z) == group([x,y,z])" % (s.lower(), s.lower()), 3,
                E("BooleanExpression", E("BooleanExpression", Child(0), SYM(s), Child(1)), SYM(s), Child(2)), E("BooleanGroup", SYM(s), kids(3)))
            law("LAW/shake_0/flatten/%s/x-bin" % s, "(x %s (y %s z)) == group([x,y,z])" % (s.lower(), s.lower()), 3,
                E("BooleanExpression", Child(0), SYM(s), E("BooleanExpression", Child(1), SYM(s), Child(2))), E("BooleanGroup", SYM(s), kids(3)))
        law("LAW/shake_0/double-negation", "not(not(x)) == x  (the rewrite `Negate(Negate(x)) => x`)", 1, E("Negate", E("Negate", Child(0))), Child(0))
        law("LAW/coalesce/inline", "identifier(X) == definition of X", 2, E("Identifier", ("lit", "X")), E("BooleanGroup", SYM("And"), kids(2)), idents={"X": E("BooleanGroup", SYM("And"), kids(2))})
        law("LAW/coalesce/inline-under-match", "all(identifier(X)) == all(definition of X)", 2, E("Match", ("ctor", "Match", "All", []), E("Identifier", ("lit", "X"))),
            E("Match", ("ctor", "Match", "All", []), E("BooleanGroup", SYM("Or"), kids(2))), idents={"X": E("BooleanGroup", SYM("Or"), kids(2))})
        nested_merge_law(rep, F)
        # or is fully symmetric (so re-ordering/merging inside an or-group is harmless); and is not (so ORDER-AND is needed)
        for k in (2, 3):
            base = E("BooleanGroup", SYM("Or"), kids(k))
            bad = []
            asym = 0
            try:
                for perm in itertools.permutations(range(k)):
                    for vec in tri.vectors(k):
                        pv = tuple(vec[p] for p in perm)
                        if sem(base, {}, vec) != sem(base, {}, pv):
                            bad.append("".join(vec))
                        if sem(E("BooleanGroup", SYM("And"), kids(k)), {}, vec) != sem(E("BooleanGroup", SYM("And"), kids(k)), {}, pv):
                            asym += 1
            except tri.Unrecognised as e:
                rep.lost("LAW", "LAW/or-symmetric/k=%d" % k, "the connective arms are inside the model language", str(e)[:160])
                continue
            rep.check(not bad, "LAW", "LAW/or-symmetric/k=%d" % k, "src/solver.rs", "the result of an or-group is invariant under permutation of its operands", str(bad[:3]))
            rep.check(asym > 0, "LAW", "LAW/and-order-sensitive/k=%d" % k, "src/solver.rs", "the result of an and-group depends on operand order (false vs missing): this is why ORDER-AND is required", "%d witnesses" % asym)
        rep.extra["law_model_evaluations"] = nlaw[0]
    rep.floor("LAW", 29)

    # ---------------------------------------------------------------- shake_0 structural pieces
    s0 = F.fn("optimiser::shake_0")
    if s0 is not None:
        m = unblock(s0.body)
        for a in m["arms"]:
            ps = pat_str(a["pat"])
            if ps == "Expression::BooleanExpression($left, $symbol, $right)":
                check_flatten_order(rep, a)
            if ps == "Expression::Negate($expression)":
                s = show(a["body"])
                rep.check(negate_shape(a), "PASS-ARMS", "PASS-ARMS/shake_0/negate-shape", a["sp"], "Negate arm: shake the operand; collapse only Negate(Negate(x)); otherwise rebuild", s[:120])
            if ps == "Expression::BooleanGroup($symbol, $expressions)":
                check_group_unwrap(rep, a, "shake_0")
            if ps == "Expression::Match($kind, $expression)":
                counter_context(rep, a, "shake_0", "optimiser::shake_0")
    # ---------------------------------------------------------------- ORDER-AND in shake_1 and matrix
    s1 = F.fn("optimiser::shake_1")
    if s1 is not None:
        m = unblock(s1.body)
        for a in m["arms"]:
            ps = pat_str(a["pat"])
            if ps == "Expression::BooleanGroup(BoolSym::And, $expressions)":
                order_and(rep, a, "shake_1", "expressions", "scratch")
            if ps == "Expression::Match($kind, $expression)":
                counter_context(rep, a, "shake_1", "optimiser::shake_1")
    mx = F.fn("optimiser::matrix")
    if mx is not None:
        m = unblock(mx.body)
        for a in m["arms"]:
            ps = pat_str(a["pat"])
            if ps == "Expression::Match($kind, $expression)":
                counter_context(rep, a, "matrix", "optimiser::shake_1")
            if ps == "Expression::BooleanGroup(BoolSym::Or, $expressions)":
                # rows built from a conjunction: cells must follow the conjunction's order
                mats0 = [x for x in walk(mx.body) if x.get("k") == "Adt" and x["adt"] == "parser::Expression" and x["variant"] == "Matrix"]
                columns_id = q.var_id({f_["name"]: f_["e"] for f_ in mats0[0]["fields"]}["0"]) if len(mats0) == 1 else None
                for n, path in walk_with_path(a["body"]):
                    if n.get("k") == "For" and columns_id is not None and q.loop_over(n)[0] == columns_id and q.loop_over(n)[2] is not None:
                        uses_lookup = any(call_is(x, "::remove") and "HashMap<" in str(peel(x["args"][0]).get("ty", "")) for x in walk(n["body"]))
                        if uses_lookup:
                            rep.bad("ORDER-AND", "ORDER-AND/matrix/row-cells-in-column-order", n["sp"],
                                    "the cells of a row built from an and-group follow the and-group's own operand order",
                                    "row cells are pushed while iterating `columns` (sorted by use count), not the source conjunction: and is order sensitive (false vs missing)")
    # ---------------------------------------------------------------- COUNTER-CONTEXT at Rule::optimise
    ro = F.fn("rule::Rule::optimise")
    if ro is None:
        rep.lost("COUNTER-CONTEXT", "COUNTER-CONTEXT/anchor", "Rule::optimise")
    else:
        import optflow
        of = optflow.analyse(F)
        if of["error"]:
            rep.lost("OPT-SWITCHES", "OPT-SWITCHES/flow", "Rule::optimise inside the interpreted subset", of["error"][:200])
        else:
            runs = {sw: run for (sw, al), run in of["runs"].items() if not al}
            exp = {sw: optflow.expected(sw, False) for sw in runs}
            bad = [str(sw) for sw, run in runs.items() if run["fields"].get("detection.expression") != exp[sw]["detection.expression"]]
            rep.check(not bad, "OPT-SWITCHES", "OPT-SWITCHES/order", ro.sp, "for each of the 16 switch sets the condition is coalesce?, then shake?, then rewrite?, then matrix? of the loaded condition (each pass under its own switch, in that order)", "; ".join(bad[:4]))
            for i, (sw_name, fn) in enumerate((("coalesce", "optimiser::coalesce"), ("shake", "optimiser::shake"), ("rewrite", "optimiser::rewrite"), ("matrix", "optimiser::matrix"))):
                only = tuple(j == i for j in range(4))
                none = (False, False, False, False)
                got = runs[only]["fields"].get("detection.expression")
                ok = got == exp[only]["detection.expression"] and runs[none]["fields"].get("detection.expression") == ("init", "detection.expression")
                rep.check(ok, "OPT-SWITCHES", "OPT-SWITCHES/" + sw_name, ro.sp, "switch `%s` alone applies exactly %s to the condition; no switch, no change" % (sw_name, fn.split("::")[-1]), str(got)[:100])
            # identifier definitions: what is done to the map that all(X)/of(X, n) still read when coalesce did not inline them

            def passes_over(term):
                out_ = []
                while isinstance(term, tuple) and term[0] in ("mapv", "cleared"):
                    if term[0] == "mapv":
                        out_.append(term[1])
                        term = term[2]
                    else:
                        return out_, True
                return out_, False
            for pas in ("shake", "rewrite", "matrix"):
                live = []  # switch sets in which `pas` rewrites identifier definitions that are still referenced (map not cleared)
                for sw, run in runs.items():
                    applied, cleared = passes_over(run["fields"].get("detection.identifiers"))
                    if "optimiser::" + pas in applied and not cleared:
                        live.append(sw)
                site = ro.sp
                if pas in ("shake", "matrix"):
                    rep.check(not live, "COUNTER-CONTEXT", "COUNTER-CONTEXT/Rule::optimise/%s-on-identifiers" % pas, site,
                              "a pass that merges or-members (%s) is not applied to identifier definitions that all()/of() may still count" % pas,
                              "optimise maps %s over every identifier definition even when coalesce is off, so all(X)/of(X,n) count merged members (%d of 16 switch sets)" % (pas, len(live)))
                else:
                    rep.ok("COUNTER-CONTEXT", "COUNTER-CONTEXT/Rule::optimise/%s-on-identifiers" % pas, site, "rewrite keeps the number of members (pure congruence + leaf rewrite)")
    # ---------------------------------------------------------------- REWRITE-CONST
    rs = F.fn("optimiser::rewrite_search")
    if rs is None:
        rep.lost("REWRITE-CONST", "REWRITE-CONST/anchor", "optimiser::rewrite_search")
    else:
        lits = []
        for n in walk(rs.body):
            if n.get("k") == "Call" and (call_is(n, "strip_prefix") or call_is(n, "strip_suffix")):
                lits.append((n["fn"].split("::")[-1], lit(n["args"][1])[1] if lit(n["args"][1]) else "?"))
        rep.check(sorted(lits) == sorted([("strip_prefix", ".*"), ("strip_suffix", ".*")] * 2), "REWRITE-CONST", "REWRITE-CONST/literals", rs.sp, "only a leading and a trailing '.*' are stripped (regex and regex set alike)", str(lits))
        other = [show(n)[:40] for n in walk(rs.body) if n.get("k") == "Call" and n.get("fn") and re.search(r"::(replace|replacen|trim\w*|to_lowercase|to_uppercase|push_str|insert\w*|remove)$", n["fn"])]
        rep.check(not other, "REWRITE-CONST", "REWRITE-CONST/no-other-edit", rs.sp, "no other text transformation of a pattern", str(other))
        fb = [n for n in walk(rs.body) if n.get("k") == "Match" and "Builder::build" in show(n["scrut"])]
        okfb = len(fb) == 2 and all([pat_str(a["pat"]) for a in x["arms"]] == ["Result::Ok($rewritten)", "Result::Err(_)"] for x in fb) \
            and all(re.fullmatch(r"Search::Regex(Set)?\(regex, insensitive\)", show(x["arms"][1]["body"])) for x in fb)
        rep.check(okfb, "REWRITE-CONST", "REWRITE-CONST/fallback", rs.sp, "if the stripped pattern does not compile the original matcher is kept", "")
        # the rebuilt set has one pattern per pattern of the old set, in order (all()/of() count them)
        sloops = [n for n in walk(rs.body) if n.get("k") == "For" and any(call_is(x, "RegexSet::patterns") for x in walk(n["iter"]))]
        oksz = False
        if len(sloops) == 1:
            pushes = [x for x in walk(sloops[0]["body"]) if call_is(x, "::push")]
            oksz = len(pushes) == 1 and q.every_cycle_calls(sloops[0], lambda x: x is pushes[0]) and all(ex in ("fall", "continue") for ex, _ in q.flow(sloops[0]["body"], lambda x: False))
        rep.check(oksz, "REWRITE-CONST", "REWRITE-CONST/set-size", rs.sp, "every pattern of a regex set is rewritten and pushed exactly once (no de-duplication, no skipping)", "%d loops over RegexSet::patterns" % len(sloops))
        m = unblock(rs.body)
        last = m["arms"][-1] if m.get("k") == "Match" else None
        rep.check(last is not None and strip_ref(last["pat"]).get("k") == "Wild" and show(last["body"]) == "search", "REWRITE-CONST", "REWRITE-CONST/others-untouched", rs.sp, "every other search kind is returned unchanged", "")
    # shake() is shake_0 then shake_1
    sh = F.fn("optimiser::shake")
    okc = False
    if sh is not None:
        t = unblock(sh.body)
        while t.get("k") == "Block" and t.get("expr") is not None:
            t = unblock(t["expr"])
        inner = q.resolve(sh.body, t["args"][0]) if call_is(t, "optimiser::shake_1") and len(t["args"]) == 1 else {}
        ncalls = len([x for x in walk(sh.body) if x.get("k") == "Call" and x.get("local")])
        okc = call_is(inner, "optimiser::shake_0") and q.var_id(inner["args"][0]) == strip_ref(sh.thir["params"][0]["pat"]).get("id") and ncalls == 2
    rep.check(okc, "OPT-SWITCHES", "OPT-SWITCHES/shake-composition", sh.sp if sh else "-", "shake = shake_1 . shake_0", show(sh.body) if sh else "-")
    # ---------------------------------------------------------------- LINEAR: no operand is dropped
    rep.describe("LINEAR", "no member of a group is dropped: no Vec-shrinking call in the passes; a map that collects conjuncts never overwrites an entry")
    DROPPERS = ("::dedup", "::dedup_by", "::dedup_by_key", "::retain", "::retain_mut", "::truncate", "::remove", "::pop", "::clear", "::drain", "::swap_remove", "::split_off", "::take", "::skip", "::step_by", "::filter", "::filter_map", "::take_while", "::skip_while")
    nvec = 0
    for pname in PASSES + ["optimiser::rewrite_search", "optimiser::shake"]:
        f = F.fn(pname)
        if f is None:
            continue
        for n in walk(f.body):
            if n.get("k") == "Call" and n.get("fn") and n.get("args"):
                rty = n["args"][0].get("ty", "")
                if re.search(r"(^|&mut |&)std::vec::Vec<|vec::IntoIter<|slice::Iter<|^std::iter::\w+<", rty) and n["fn"].endswith(DROPPERS):
                    rep.bad("LINEAR", "LINEAR/%s/%s" % (pname.split("::")[-1], n["fn"].split("::")[-1]), n["sp"], "no call that can drop members of an operand vector", show(n)[:80])
                if "Vec<" in rty:
                    nvec += 1
        for cname, c in F.fns.items():
            if cname.startswith(pname + "::{closure#"):
                for n in walk(c.body):
                    if n.get("k") == "Call" and n.get("fn") and n["fn"].endswith(DROPPERS):
                        rep.bad("LINEAR", "LINEAR/%s/closure/%s" % (pname.split("::")[-1], n["fn"].split("::")[-1]), n["sp"], "no member-dropping call in a pass closure", show(n)[:80])
    rep.ok("LINEAR", "LINEAR/no-vec-shrinking", "src/optimiser.rs", "no Vec-shrinking or filtering call among %d Vec method calls of the passes" % nvec)
    if mx is not None:
        nins = 0
        for blk in walk(mx.body):
            if blk.get("k") != "Block":
                continue
            st = blk["stmts"]
            for i, x in enumerate(st):
                if x["k"] == "Expr" and call_is(peel(x["e"]), "::insert") and show(peel(x["e"])["args"][0]) == "lookup":
                    nins += 1
                    keyv = show(peel(x["e"])["args"][1])
                    prev = show(st[i - 1]["e"]) if i > 0 and st[i - 1]["k"] == "Expr" else ""
                    want = "if <K, V, S, A>::contains_key(lookup, field) {{valid = false; break}}"
                    rep.check(prev == want and keyv == "Clone::clone(field)", "LINEAR", "LINEAR/matrix/lookup-no-overwrite#%d" % nins, x["e"]["sp"],
                              "a conjunct is stored under its field only if no earlier conjunct uses that field (otherwise the row would silently lose one)", prev[:90] or "no guard before insert")
        rep.check(nins == 2, "LINEAR", "LINEAR/matrix/lookup-inserts", mx.sp, "two insert sites into lookup", str(nins))
    core.import_rules(rep, "c07", {"LOCKSTEP", "FLAG", "PLAIN-CASE"})
    # the matrix rewrite replaces an or-group by a Matrix node: the solver's three Matrix evaluators against the or-of-ands tables
    core.import_rules(rep, "c06", {"TRI-MATRIX"})
    # shake merges plain searches into one automaton: the automaton arm of search() has to answer exactly like the searches it replaces
    core.import_rules(rep, "c07", {"T-SEARCH", "T-OFFSET"})
    # ---------------------------------------------------------------- OPT-PANIC (shared with C03)
    n = core.import_rules(rep, "c03", {"PANIC", "L-IDENT", "L-SHAPE", "L-MATRIX", "L-LOCKSTEP"})
    rep.describe("PANIC", "optimise/match never panic: every reachable panic-capable site is discharged (shared with C03)")
    rep.extra["imported_from_C03"] = n
    rep.floor("ORDER-AND", 12)
    rep.floor("COUNTER-CONTEXT", 5)
    rep.floor("REWRITE-CONST", 5)
    rep.floor("LINEAR", 4)
    rep.exhaustive = False
    rep.assumptions.append("leaf predicates are oracles in the law evaluation; merging searches into automata / regex sets is covered by C07's LOCKSTEP/FLAG rules only at the alignment level")
    rep.assumptions.append("Nested-merge laws (nested(f,a) or nested(f,b) == nested(f, a or b)) are argued from the solver's nested arm (C10), not evaluated")


def nested_merge_law(rep, F):
    """shake_1 merges the and-members `f: {a}` and `f: {b}` into `f: all(group(S, [a, b]))`.  Over an array-valued f the unmerged
    form asks each member existentially (some element satisfies a, some element satisfies b); the merged form is evaluated by the
    solver's Nested/Array arm, which does the same only for the shape it special-cases.  The law evaluates that arm (extracted model,
    members x elements oracle table) with the symbol S the optimiser really emits."""
    import c10
    s1 = F.fn("optimiser::shake_1")
    syms = []
    if s1 is not None:
        for n in walk(s1.body):
            if n.get("k") == "Adt" and n["adt"] == "parser::Expression" and n["variant"] == "Match":
                fs = {f["name"]: f["e"] for f in n["fields"]}
                k0 = peel(fs["0"])
                inner = peel(fs["1"])
                inner = peel(inner["args"][0]) if is_box_new(inner) else inner
                if k0.get("k") == "Adt" and k0["variant"] == "All" and inner.get("k") == "Adt" and inner["adt"] == "parser::Expression" and inner["variant"] == "BooleanGroup":
                    sy = peel({f["name"]: f["e"] for f in inner["fields"]}["0"])
                    syms.append((sy.get("variant") if sy.get("k") == "Adt" else "?", n.get("sp")))
    arm = c10.nested_array_arm(F)
    if len(syms) != 1 or arm is None:
        rep.lost("LAW", "LAW/shake_1/nested-merge", "the all(group(..)) constructor of shake_1's nested merge and the solver's Nested/Array arm", str(syms))
        return
    sym, site = syms[0]
    run = c10.make_nested_runner(arm[0], arm[1])
    E = lambda variant, *fields: ("ctor", "Expression", variant, list(fields))
    bad = []
    soft = []
    try:
        for k in (2, 3):
            for m in (0, 1, 2):
                cells = [(i, j) for i in range(k) for j in range(m)]
                for vals in itertools.product("TFM", repeat=len(cells)):
                    table = dict(zip(cells, vals))
                    before = "T"
                    for i in range(k):
                        r = run(Child(i), 1, m, {(i, j): table[(i, j)] for j in range(m)})
                        if r != "T":
                            before = r
                            break
                    merged = E("Match", ("ctor", "Match", "All", []), E("BooleanGroup", ("ctor", "BoolSym", sym, []), ("list", [Child(i) for i in range(k)])))
                    after = run(merged, k, m, table)
                    if (before == "T") != (after == "T"):
                        bad.append("k=%d m=%d %s: before=%s after=%s" % (k, m, "".join(vals), before, after))
                    elif before != after:
                        soft.append("k=%d m=%d %s: before=%s after=%s" % (k, m, "".join(vals), before, after))
    except Unrecognised as e:
        rep.lost("LAW", "LAW/shake_1/nested-merge", "array arm inside the model language", str(e)[:200])
        return
    rep.check(not bad, "LAW", "LAW/shake_1/nested-merge", site, "f:{a} and f:{b} == f: all(group(%s,[a,b])) over arrays: true in exactly the same cases" % sym.lower(), "; ".join(bad[:4]) if bad else None)
    rep.check(not soft, "LAW", "LAW/shake_1/nested-merge-negated", site, "... and false/missing in the same cases (visible under a negation)", "; ".join(soft[:4]) if soft else None)


def negate_shape(arm):
    """{ let X = shake_0(*operand); X is Negate(inner) => shake_0(*inner); otherwise => Negate(Box::new(X)) }  (match or if-let)"""
    opid = strip_ref(subpat(arm["pat"], 0)).get("id")
    b = unblock(arm["body"])
    if b.get("k") != "Block" or len(b["stmts"]) != 1 or b["stmts"][0]["k"] != "Let" or b.get("expr") is None:
        return False
    st = b["stmts"][0]
    x = strip_ref(st["pat"])
    init = peel(st["init"])
    if x.get("k") != "Bind" or not call_is(init, "optimiser::shake_0") or q.var_id(init["args"][0]) != opid:
        return False
    scrut, brs = q.branches(b["expr"])
    if scrut is None or q.var_id(scrut) != x["id"] or len(brs) != 2:
        return False
    (p0, b0), (p1, b1) = brs
    if p0 is None or variant_of(p0) != ("Expression", "Negate") or p1 is not None or b1 is None:
        return False
    inner = strip_ref(subpat(p0, 0))
    c0 = unblock(b0)
    ok0 = call_is(c0, "optimiser::shake_0") and inner is not None and q.var_id(c0["args"][0]) == inner.get("id")
    c1 = unblock(b1)
    ok1 = c1.get("k") == "Adt" and c1["adt"] == "parser::Expression" and c1["variant"] == "Negate" and is_box_new(c1["fields"][0]["e"]) and q.var_id(peel(c1["fields"][0]["e"])["args"][0]) == x["id"]
    return ok0 and ok1


def group_tail_by_cases(arm, pname):
    """The group arm ends, for n = length of the rebuilt vector V and l = length of the incoming one:
         n != l            -> pass(Group(symbol, V))        (run again)
         n == l and n == 1 -> the single element of V       (unwrap a group of one)
         n == l and n != 1 -> Group(symbol, V)              (rebuild with the same symbol)
    whatever the spelling (if/else chain, guard clauses with return, negated tests).  Each result leaf is classified and the conditions
    it sits under are evaluated for the three cases."""
    import facts as _f
    sym_id = strip_ref(subpat(arm["pat"], 0)).get("id")
    src_id = strip_ref(subpat(arm["pat"], 1)).get("id")
    body = _f._unreturn(unblock(arm["body"])) if unblock(arm["body"]).get("k") == "Block" else arm["body"]
    leaves = q.result_leaves(body)

    def classify(leaf):
        l = peel(leaf)
        if call_is(l, "optimiser::" + pname) and len(l["args"]) == 1:
            g = peel(l["args"][0])
            if g.get("k") == "Adt" and g["variant"] == "BooleanGroup" and q.var_id({f_["name"]: f_["e"] for f_ in g["fields"]}["0"]) == sym_id:
                return "rerun", q.var_id({f_["name"]: f_["e"] for f_ in g["fields"]}["1"])
        if l.get("k") == "Adt" and l["adt"] == "parser::Expression" and l["variant"] == "BooleanGroup":
            fs = {f_["name"]: f_["e"] for f_ in l["fields"]}
            if q.var_id(fs["0"]) == sym_id:
                return "rebuild", q.var_id(fs["1"])
        if (call_is(l, "::expect") or call_is(l, "::unwrap")) and call_is(peel(l["args"][0]), "Iterator::next"):
            it = peel(peel(l["args"][0])["args"][0])
            if call_is(it, "IntoIterator::into_iter"):
                return "unwrap", q.var_id(it["args"][0])
        return None, None
    kinds = [classify(l) for l, _ in leaves]
    vecs = {v for _, v in kinds}
    if len(leaves) != 3 or sorted(k for k, _ in kinds) != ["rebuild", "rerun", "unwrap"] or len(vecs) != 1 or None in vecs:
        return False
    vid = list(vecs)[0]

    def value(e, case):
        """e under case (n_ne_l, n_is_1) -> bool or None"""
        e = q.resolve(body, e)
        if e.get("k") == "Unary" and e["op"] == "Not":
            v_ = value(e["arg"], case)
            return None if v_ is None else not v_
        if e.get("k") == "Binary" and e["op"] in ("Eq", "Ne"):
            l_, r_ = q.resolve(body, e["lhs"]), q.resolve(body, e["rhs"])
            def is_n(x):
                return call_is(x, "::len") and q.base_var(x["args"][0]) == vid
            def is_l(x):
                return call_is(x, "::len") and q.base_var(x["args"][0]) == src_id
            if (is_n(l_) and is_l(r_)) or (is_l(l_) and is_n(r_)):
                eq = not case[0]
            elif (is_n(l_) and lit(r_) == ("i", 1)) or (is_n(r_) and lit(l_) == ("i", 1)):
                eq = case[1]
            elif case[0] is False and ((is_l(l_) and lit(r_) == ("i", 1)) or (is_l(r_) and lit(l_) == ("i", 1))):
                eq = case[1]
            else:
                return None
            return eq if e["op"] == "Eq" else not eq
        return None
    want = {(True, True): "rerun", (True, False): "rerun", (False, True): "unwrap", (False, False): "rebuild"}
    for case, wk in want.items():
        reached = []
        for (leaf, path), (kind, _) in zip(leaves, kinds):
            ok_ = True
            for e in q.context(path, leaf):
                if e[0] == "if":
                    v_ = value(e[1], case)
                    if v_ is None:
                        return False
                    if v_ != e[2]:
                        ok_ = False
            if ok_:
                reached.append(kind)
        if reached != [wk]:
            return False
    return True


def check_group_unwrap(rep, arm, pname):
    s = show(q.inline_pure_lets(arm["body"], [arm["pat"]]))
    ok = group_tail_by_cases(arm, pname)
    rep.check(ok, "PASS-ARMS", "PASS-ARMS/%s/group-tail" % pname, arm["sp"], "group arm ends: re-run if the length changed, unwrap a group of one, else rebuild with the same symbol", s[-160:])
    # operands are shaken in order in both symbol branches
    src_id = strip_ref(subpat(arm["pat"], 1)).get("id")
    loops = [n for n in walk(arm["body"]) if n.get("k") == "For" and q.loop_over(n)[0] == src_id]
    def elementwise(l):
        # the loop body is exactly: push(<out>, pass(<this element>))   (the pass result possibly through a let)
        pushes = [x for x in walk(l["body"]) if call_is(x, "::push")]
        if len(pushes) != 1 or not q._unconditional(l["body"], pushes[0]):
            return False
        v = q.resolve(l["body"], pushes[0]["args"][1])
        others = [x for x in walk(l["body"]) if x.get("k") == "Call" and x is not pushes[0] and x is not v]
        return call_is(v, "optimiser::" + pname) and q.var_id(v["args"][0]) == strip_ref(l["pat"]).get("id") and not others
    # every group symbol's branch has such a loop (one loop per symbol, or one loop under an `And | Or` arm)
    syms = set()
    for n, path in walk_with_path(arm["body"]):
        if any(n is l for l in loops):
            for e in q.context(path, n):
                if e[0] == "arm":
                    syms |= {variant_of(p_)[1] for p_ in or_pats(e[1]) if variant_of(p_) and variant_of(p_)[0] == "BoolSym"}
    okl = bool(loops) and all(elementwise(l) for l in loops) and syms == {"And", "Or"} and len(loops) <= 2
    rep.check(okl, "ORDER-AND", "ORDER-AND/%s/group-elementwise" % pname, arm["sp"], "group operands are processed one by one in order", "%d loops" % len(loops))


def check_flatten_order(rep, arm):
    """The ten flatten arms of shake_0: output operand sequence == input operand sequence, same symbol everywhere."""
    ms = [n for n in walk(arm["body"]) if n.get("k") == "Match" and show(n["scrut"]) == "(left, symbol, right)"]
    if len(ms) != 1:
        rep.lost("ORDER-AND", "ORDER-AND/shake_0/flatten", "match (left, symbol, right)")
        return
    nfl = 0
    for a in ms[0]["arms"]:
        p = strip_ref(a["pat"])
        if p.get("k") != "Leaf":
            continue
        P0, PS, P2 = strip_ref(subpat(p, 0)), strip_ref(subpat(p, 1)), strip_ref(subpat(p, 2))
        ps = pat_str(a["pat"])
        if PS.get("k") == "Wild":
            s = show(a["body"])
            rep.check(s == "Expression::BooleanExpression(<T>::new(left), symbol, <T>::new(right))", "ORDER-AND", "ORDER-AND/shake_0/default", a["sp"], "otherwise the binary node is rebuilt as (left, symbol, right)", s)
            continue
        sym = variant_of(PS)[1] if variant_of(PS) else None
        env = {}
        inorder = []
        okpat = True

        def side(P):
            nonlocal okpat
            v = variant_of(P)
            if P.get("k") == "Bind":
                env[P["id"]] = [P["name"]]
                return [P["name"]]
            if v == ("Expression", "BooleanGroup"):
                if variant_of(subpat(P, 0)) != ("BoolSym", sym):
                    okpat = False
                b = strip_ref(subpat(P, 1))
                env[b["id"]] = ["*" + b["name"]]
                return ["*" + b["name"]]
            if v == ("Expression", "BooleanExpression"):
                if variant_of(subpat(P, 1)) != ("BoolSym", sym):
                    okpat = False
                x, y = strip_ref(subpat(P, 0)), strip_ref(subpat(P, 2))
                env[x["id"]] = [x["name"]]
                env[y["id"]] = [y["name"]]
                return [x["name"], y["name"]]
            okpat = False
            return []
        inorder = side(P0) + side(P2)
        # interpret the body: extend / push / vec![..] / final shake_0(Group(sym, V))
        out = None
        osym = None
        body = unblock(a["body"])
        stmts = body["stmts"] if body.get("k") == "Block" else []
        tail = unblock(body["expr"]) if body.get("k") == "Block" and body.get("expr") else body

        def seq_of(e):
            e0 = peel(e)
            vid = q.var_id(e0)
            if vid in env:
                return list(env[vid])
            arr = [x for x in walk(e) if x.get("k") == "Array"]
            if arr:
                r = []
                for el in arr[0]["fields"]:
                    r += seq_of(el)
                return r
            return ["?" + show(e)[:20]]
        for st in stmts:
            if st["k"] == "Let" and st["pat"].get("k") == "Bind" and st.get("init"):
                env[st["pat"]["id"]] = seq_of(st["init"])
            elif st["k"] == "Expr":
                c = peel(st["e"])
                if call_is(c, "::extend") or call_is(c, "::push"):
                    tgt = q.var_id(c["args"][0])
                    env[tgt] = env.get(tgt, ["?"]) + seq_of(c["args"][1])
        if call_is(tail, "optimiser::shake_0"):
            g = peel(tail["args"][0])
            if g.get("k") == "Adt" and g["variant"] == "BooleanGroup":
                fm = {f["name"]: f["e"] for f in g["fields"]}
                osym = peel(fm["0"]).get("variant")
                out = seq_of(fm["1"])
        nfl += 1
        ok = okpat and out == inorder and osym == sym
        rep.check(ok, "ORDER-AND", "ORDER-AND/shake_0/flatten/" + ps[:80], a["sp"], "flattening keeps the symbol and emits the operands in their written order",
                  "in %s -> out %s (symbol %s -> %s)" % (inorder, out, sym, osym))
    rep.check(nfl == 10, "ORDER-AND", "ORDER-AND/shake_0/flatten-arms", arm["sp"], "ten flattening arms", str(nfl))


def order_and(rep, arm, pname, src, dst):
    """All pushes into the output vector of an and-group must happen inside the loop over the source operands."""
    body = arm["body"]
    n_in = n_out = 0
    for n, path in walk_with_path(body):
        if call_is(n, "::push") and show(n["args"][0]) == dst:
            loops = [p for p in path if p.get("k") == "For"]
            if loops and show(loops[0]["iter"]) == src:
                n_in += 1
                rep.ok("ORDER-AND", "ORDER-AND/%s/in-source-loop#%d" % (pname, n_in), n["sp"], "operand emitted while iterating the source operands in order")
            else:
                n_out += 1
                it = show(loops[0]["iter"])[:40] if loops else "no loop"
                what = show(n["args"][1])[:60]
                key = "ORDER-AND/%s/%s" % (pname, "nested-reemit" if "Nested" in what else "push-outside-source-loop#%d" % n_out)
                rep.bad("ORDER-AND", key, n["sp"], "every operand of the rebuilt and-group is emitted at its source position",
                        "`%s` is pushed while iterating `%s`, after all other operands: and is order sensitive (false vs missing)" % (what, it))


def match_arm_keeps_group(arm, inner):
    """The arm `Expression::Match(K, E) => ..` of a pass keeps the group that all()/of() count:
         *E is BooleanGroup(S, V)  =>  Match(K, Box::new(BooleanGroup(S, [inner(m) for m in V])))     (member by member, in order)
         otherwise X               =>  Match(K, Box::new(inner(X)))"""
    kb, eb = strip_ref(subpat(arm["pat"], 0)), strip_ref(subpat(arm["pat"], 1))
    if kb is None or eb is None or eb.get("k") != "Bind":
        return False
    scrut, brs = q.branches(unblock(arm["body"]))
    if scrut is None or q.base_var(scrut) != eb["id"] or len(brs) != 2:
        return False
    (p0, b0), (p1, b1) = brs
    if p0 is None or variant_of(p0) != ("Expression", "BooleanGroup") or b1 is None:
        return False
    sb, vb = strip_ref(subpat(p0, 0)), strip_ref(subpat(p0, 1))
    if sb is None or vb is None or sb.get("k") != "Bind" or vb.get("k") != "Bind":
        return False

    def match_of(n):
        """n = Expression::Match(K, Box::new(X)) -> X"""
        n = unblock(n)
        while n.get("k") == "Block" and n.get("expr") is not None:
            n = unblock(n["expr"])
        if not (n.get("k") == "Adt" and n["adt"] == "parser::Expression" and n["variant"] == "Match"):
            return None
        fs = {f["name"]: f["e"] for f in n["fields"]}
        if kb.get("k") == "Bind" and q.var_id(fs["0"]) != kb["id"]:
            return None
        x = peel(fs["1"])
        return peel(x["args"][0]) if is_box_new(x) else None
    g = match_of(b0)
    if g is None or not (g.get("k") == "Adt" and g["adt"] == "parser::Expression" and g["variant"] == "BooleanGroup"):
        return False
    gf = {f["name"]: f["e"] for f in g["fields"]}
    if q.var_id(gf["0"]) != sb["id"]:
        return False
    out_id = q.var_id(gf["1"])
    loops = [n for n in walk(b0) if n.get("k") == "For" and q.loop_over(n)[0] == vb["id"]]
    if out_id is None or len(loops) != 1:
        return False
    l = loops[0]
    pushes = [x for x in walk(b0) if call_is(x, "::push") and q.base_var(x["args"][0], b0) == out_id]
    if len(pushes) != 1 or not q.contains(l["body"], pushes[0]) or not q._unconditional(l["body"], pushes[0]):
        return False
    v = q.resolve(l["body"], pushes[0]["args"][1])
    if not (call_is(v, inner) and q.var_id(v["args"][0]) == strip_ref(q.loop_over(l)[1]).get("id")):
        return False
    # otherwise-branch: the binder of the catch-all arm (or the scrutinee itself) goes through `inner`
    x = match_of(b1)
    if x is None or not call_is(x, inner):
        return False
    xb = strip_ref(p1) if p1 is not None else None
    arg = q.var_id(x["args"][0])
    return (xb is not None and xb.get("k") == "Bind" and arg == xb["id"]) or q.base_var(x["args"][0]) == eb["id"]


def counter_context(rep, arm, pname, inner):
    s = show(arm["body"])
    rep.check(match_arm_keeps_group(arm, inner), "COUNTER-CONTEXT", "COUNTER-CONTEXT/%s/match-arm" % pname, arm["sp"], "a group under all()/of() is rebuilt member by member with the same symbol (no merging or unwrapping of what is counted)", s[:160])
