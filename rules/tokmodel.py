"""TOK-MODEL: `String::tokenise` evaluated over a list of probe condition strings.

The typed tree of tokenise and of the local functions it calls (consume_while, match_ahead, any helper a refactoring adds) is
interpreted with the evaluator of findmodel/keymodel/identmodel extended with characters, peekable character iterators and calls
of local functions and closures.  The token vector (or the error) is compared with the token grammar written down here from the
documentation in src/tokeniser.rs: numbers, identifiers (alphanumerics and `_ . # [ ]`), the ten keywords with their terminating
character left in place, `== < <= > >=`, `, ( )`, white space skipped, anything else an error.  A probe on which the evaluation does
not finish within its step budget, or meets a construct outside the interpreted subset, makes the model not applicable and the
callers fall back to their structural rules (fail closed)."""
import re
import unicodedata

from facts import peel, strip_ref, or_pats, lit
from identmodel import IdentModel, parse_i64, parse_f64
from findmodel import It, _s
from tri import Ret, Unrecognised, Brk, Cont

KEYWORDS = [("flt(", ("Modifier", ("ModSym", "Flt"))), ("int(", ("Modifier", ("ModSym", "Int"))), ("string(", ("Modifier", ("ModSym", "Str"))),
            ("str(", ("Modifier", ("ModSym", "Str"))), ("and ", ("Operator", ("BoolSym", "And"))), ("or ", ("Operator", ("BoolSym", "Or"))),
            ("not ", ("Miscellaneous", ("MiscSym", "Not"))), ("not(", ("Modifier", ("ModSym", "Not"))), ("all(", ("Match", ("MatchSym", "All"))),
            ("of(", ("Match", ("MatchSym", "Of")))]

PROBES = [
    "", " ", "   ", "\t\n", "a", "A", "abc", "a b", "a  b", " a ", "a_b", "a.b", "a.b[0]", "a#b", "#a", "a]", "[a", "a1", "1a", "aé", "é", "a-b", "a$", "$", "a\"", "'a'",
    "and", "and ", "and b", "a and b", "a and(b)", "android", "a android b", "band ", "or", "or ", "a or b", "order", "a or(b)", "oro ", "not", "not ", "not a", "not(a)", "nothing",
    "not  a", "notx(a)", "all", "all(", "all(a)", "allow", "all (a)", "of", "of(", "of(a, 1)", "offline", "of (a)", "int", "int(", "int(a)", "int (a)", "integer", "flt(a)", "flt",
    "float(a)", "str(a)", "str", "string(a)", "string", "strings(a)", "stringx", "str(a) == str(b)", "int(a) >= 5", "flt(x)<1.5",
    "5", "55", "5.5", ".5", "5.", "1.2.3", "-5", "-", ".", "5a", "5 5", "0", "9223372036854775807", "9223372036854775808", "1e3", "\u0663",
    "=", "==", "a==b", "a == b", "a=b", "a= =b", "===", "<", "<=", "a<b", "a<=b", "a< =b", ">", ">=", "a>b", "a>=b", "=<", "=>", "<>", "<<", "a<", "a>=",
    ",", "(", ")", "()", "(a)", "((a))", "a,b", "(a or b) and c", "a and (b or not c)", "of(a,2) or all(b)", "a and b or c and d", "not not a",
    "A and B", "AND ", "a AND b", "Not a", "a;b", "a|b", "a&b", "a!b", "a*", "*", "a:b", "a/b", "a\\b", "a{b}", "a@b", "a%b", "a+b", "a~b", "a`b", "a?b",
]


def T(variant, *payload):
    return ("ctor", "Token", variant, list(payload))


def _is_numeric(ch):
    return unicodedata.category(ch) in ("Nd", "Nl", "No")


def _is_ident(ch):
    return ch.isalpha() or _is_numeric(ch) or ch in "_.#[]"


def spec(text):
    """-> ("ok", [tokens]) | "err" """
    out = []
    i = 0
    n = len(text)
    while i < n:
        c = text[i]
        if c in ".-" or "0" <= c <= "9":
            j = i
            while j < n and (_is_numeric(text[j]) or text[j] == "."):
                j += 1
            num = text[i:j]
            if "." in num:
                v = parse_f64(num)
                if v is None:
                    return "err"
                out.append(T("Float", v))
            else:
                v = parse_i64(num)
                if v is None:
                    return "err"
                out.append(T("Integer", v))
            i = j
        elif "a" <= c <= "z" or "A" <= c <= "Z" or c == "#":
            for kw, (variant, (adt, sym)) in KEYWORDS:
                if text.startswith(kw, i):
                    out.append(T(variant, ("ctor", adt, sym, [])))
                    i += len(kw) - 1
                    break
            else:
                j = i
                while j < n and _is_ident(text[j]):
                    j += 1
                out.append(T("Identifier", text[i:j]))
                i = j
        elif c == " " or "\t" <= c <= "\r":
            i += 1
        elif c == "=":
            if text[i + 1:i + 2] == "=":
                out.append(T("Operator", ("ctor", "BoolSym", "Equal", [])))
                i += 2
            else:
                return "err"
        elif c in "<>":
            names = ("LessThan", "LessThanOrEqual") if c == "<" else ("GreaterThan", "GreaterThanOrEqual")
            if text[i + 1:i + 2] == "=":
                out.append(T("Operator", ("ctor", "BoolSym", names[1], [])))
                i += 2
            else:
                out.append(T("Operator", ("ctor", "BoolSym", names[0], [])))
                i += 1
        elif c in ",()":
            out.append(T("Delimiter", ("ctor", "DelSym", {",": "Comma", "(": "LeftParenthesis", ")": "RightParenthesis"}[c], [])))
            i += 1
        else:
            return "err"
    return ("ok", out)


def _chars_of(pat):
    """the char set of a char pattern as a predicate"""
    alts = []
    for p in or_pats(pat):
        p = strip_ref(p)
        k = p.get("k")
        if k in ("Wild", "Bind"):
            return lambda ch: True
        v = p.get("v", "")
        if k == "Const":
            alts.append(("c", _unquote(v)))
        elif k == "Range":
            m = re.fullmatch(r"('(?:\\.|[^'])+')\.\.(=?)('(?:\\.|[^'])+')", v)
            if not m:
                raise Unrecognised("char range " + v)
            alts.append(("r", _unquote(m.group(1)), _unquote(m.group(3)), m.group(2) == "="))
        else:
            raise Unrecognised("char pattern " + str(k))

    def pred(ch):
        for a in alts:
            if a[0] == "c" and ch == a[1]:
                return True
            if a[0] == "r" and (a[1] <= ch <= a[2] if a[3] else a[1] <= ch < a[2]):
                return True
        return False
    return pred


def _unquote(v):
    if not (len(v) >= 3 and v[0] == "'" and v[-1] == "'"):
        raise Unrecognised("char literal " + v)
    body = v[1:-1]
    esc = {"\\t": "\t", "\\n": "\n", "\\r": "\r", "\\\\": "\\", "\\'": "'", "\\\"": "\"", "\\0": "\0"}
    if body in esc:
        return esc[body]
    m = re.fullmatch(r"\\x([0-9a-fA-F]{2})", body)
    if m:
        return chr(int(m.group(1), 16))
    m = re.fullmatch(r"\\u\{([0-9a-fA-F]+)\}", body)
    if m:
        return chr(int(m.group(1), 16))
    if len(body) == 1:
        return body
    raise Unrecognised("char literal " + v)


class TokModel(IdentModel):
    def __init__(self, F):
        super().__init__(F)
        self.steps = 60000
        self.depth = 0

    # ---- patterns over chars
    def bind(self, pat, val, env):
        p = strip_ref(pat)
        if p.get("k") == "Deref" and isinstance(p.get("sub"), dict):
            return self.bind(p["sub"], val, env)
        if isinstance(val, str) and len(val) == 1 and str(p.get("ty")) == "char" and p.get("k") in ("Or", "Const", "Range"):
            return _chars_of(p)(val)
        return super().bind(pat, val, env)

    def ev(self, n, env):
        n0 = peel(n)
        k = n0.get("k")
        if k == "Closure":
            return ("closure", n0.get("def"), env)
        if k == "Zst" and n0.get("fn"):
            return ("fnitem", n0["fn"])
        if k == "Adt" and str(n0.get("adt", "")).startswith("tokeniser::"):
            return ("ctor", n0["adt"].split("::")[-1], n0["variant"], [self.ev(f["e"], env) for f in n0["fields"]])
        if k == "Binary" and n0["op"] in ("Eq", "Ne", "Lt", "Le", "Gt", "Ge"):
            a, b = self.ev(n0["lhs"], env), self.ev(n0["rhs"], env)
            if isinstance(a, str) and isinstance(b, str) and len(a) == 1 and len(b) == 1:
                return {"Eq": a == b, "Ne": a != b, "Lt": a < b, "Le": a <= b, "Gt": a > b, "Ge": a >= b}[n0["op"]]
        return super().ev(n, env)

    def call_local(self, fn, argvals):
        f = self.F.fns.get(fn)
        if f is None or f.thir is None:
            raise Unrecognised("local function " + fn)
        ps = [p for p in f.thir["params"] if p.get("pat") is not None]
        if len(ps) != len(argvals) or self.depth > 6:
            raise Unrecognised("call of " + fn)
        env2 = {}
        for p, a in zip(ps, argvals):
            if not self.bind(p["pat"], a, env2):
                raise Unrecognised("parameter pattern of " + fn)
        self.depth += 1
        try:
            try:
                return self.ev(f.body, env2)
            except Ret as r:
                return r.v
        finally:
            self.depth -= 1

    def closure(self, n, args, env):
        n0 = peel(n)
        if n0.get("k") in ("Var", "Upvar"):
            v = env.get(n0["id"])
            if isinstance(v, tuple) and v and v[0] in ("closure", "fnitem"):
                return self.call_closure(v, args)
        return super().closure(n, args, env)

    def apply_path(self, fn, args):
        if "tokeniser::Token::" in fn and len(args) == 1:
            return T(fn.split("::")[-1], args[0])
        if fn in self.F.fns:
            return self.call_local(fn, list(args))
        parts = fn.split("::")
        if len(parts) >= 2 and parts[-1][:1].isupper() and parts[-2][:1].isupper() and "Pattern" not in parts[-2]:
            return ("ctor", parts[-2], parts[-1], list(args))  # the constructor of a local enum variant used as a function
        return super().apply_path(fn, args)

    def call_closure(self, cv, args):
        if cv[0] == "fnitem":
            return self.apply_path(cv[1], list(args))
        clo = self.F.fns.get(cv[1])
        if clo is None or clo.thir is None:
            raise Unrecognised("closure body")
        ps = [p for p in clo.thir["params"] if p.get("pat") is not None]
        if len(ps) != len(args):
            raise Unrecognised("closure arity")
        e2 = dict(cv[2]) if len(cv) > 2 and isinstance(cv[2], dict) else {}
        for p, a in zip(ps, args):
            if not self.bind(p["pat"], a, e2):
                raise Unrecognised("closure parameter pattern")
        try:
            return self.ev(clo.body, e2)
        except Ret as r:
            return r.v

    def call(self, n, env):
        fn = n.get("fn") or ""
        args = n["args"]
        last = fn.split("::")[-1]
        A_ = lambda i: self.arg(n, i, env)
        # chars
        if args and last in ("is_numeric", "is_alphanumeric", "is_alphabetic", "is_ascii_digit", "is_ascii_alphabetic", "is_ascii_alphanumeric", "is_whitespace", "is_ascii_whitespace",
                             "is_ascii_punctuation", "is_ascii_lowercase", "is_ascii_uppercase", "is_digit", "len_utf8", "to_ascii_lowercase") and "char" in fn:
            ch = A_(0)
            if isinstance(ch, str) and len(ch) == 1:
                o = ord(ch)
                table = {
                    "is_numeric": lambda: _is_numeric(ch), "is_alphanumeric": lambda: ch.isalpha() or _is_numeric(ch), "is_alphabetic": lambda: ch.isalpha(),
                    "is_ascii_digit": lambda: 48 <= o <= 57, "is_ascii_alphabetic": lambda: 65 <= o <= 90 or 97 <= o <= 122,
                    "is_ascii_alphanumeric": lambda: 48 <= o <= 57 or 65 <= o <= 90 or 97 <= o <= 122,
                    "is_whitespace": lambda: ch.isspace() and o not in (0x1c, 0x1d, 0x1e, 0x1f), "is_ascii_whitespace": lambda: o in (0x20, 0x09, 0x0A, 0x0C, 0x0D),
                    "is_ascii_punctuation": lambda: 33 <= o <= 47 or 58 <= o <= 64 or 91 <= o <= 96 or 123 <= o <= 126,
                    "is_ascii_lowercase": lambda: 97 <= o <= 122, "is_ascii_uppercase": lambda: 65 <= o <= 90,
                    "len_utf8": lambda: len(ch.encode()), "to_ascii_lowercase": lambda: ch.lower() if 65 <= o <= 90 else ch,
                }
                if last == "is_digit" and len(args) == 2:
                    return 48 <= o <= 57 if A_(1) == 10 else NotImplemented
                return table[last]()
        # character iterators
        if last == "chars" and len(args) == 1:
            return It(list(_s(A_(0))))
        if last == "char_indices" and len(args) == 1:
            t = _s(A_(0))
            out, off = [], 0
            for ch in t:
                out.append((off, ch))
                off += len(ch.encode())
            return It(out)
        if last == "clone" and len(args) == 1:
            v = A_(0)
            if isinstance(v, It):
                return It(list(v.items))
        if last == "next_if_eq" and len(args) == 2:
            it, x = A_(0), A_(1)
            if isinstance(it, It):
                if it.items and it.items[0] == x:
                    return ("some", it.items.pop(0))
                return None
        if last == "collect" and len(args) == 1:
            v = A_(0)
            items = v.items if isinstance(v, It) else (v[1] if isinstance(v, tuple) and v and v[0] in ("vec", "list") else None)
            if items is not None:
                if str(n.get("ty")) == "std::string::String" or (n.get("gen") or [None, None])[1:2] == ["std::string::String"]:
                    return "".join(_s(x) for x in items)
                return ("vec", list(items))
        if last in ("from_iter",) and len(args) == 1 and "String" in fn:
            v = A_(0)
            items = v.items if isinstance(v, It) else (v[1] if isinstance(v, tuple) and v and v[0] in ("vec", "list") else None)
            if items is not None:
                return "".join(_s(x) for x in items)
        if last in ("push", "push_str") and len(args) == 2 and ("String" in fn or "string" in fn):
            tgt = peel(args[0])
            if tgt.get("k") in ("Var", "Upvar") and isinstance(env.get(tgt["id"]), str):
                env[tgt["id"]] = env[tgt["id"]] + _s(A_(1))
                return ()
        if last in ("find", "position", "any", "all", "find_map") and len(args) == 2 and "Iterator" in fn:
            it = A_(0)
            if isinstance(it, tuple) and it and it[0] in ("list", "vec", "seq"):
                it = It(it[1])
            if isinstance(it, It):
                f = self.ev(args[1], env)
                if isinstance(f, tuple) and f and f[0] in ("closure", "fnitem"):
                    idx_ = 0
                    while it.items:
                        x = it.items.pop(0)
                        r_ = self.call_closure(f, [x])
                        if last == "find_map":
                            if r_ is not None:
                                return r_
                        elif last == "all":
                            if not self.truth(r_):
                                return False
                        elif self.truth(r_):
                            return {"find": ("some", x), "position": ("some", idx_), "any": True}[last]
                        idx_ += 1
                    return {"find": None, "position": None, "any": False, "all": True, "find_map": None}[last]
        if last == "as_str" and len(args) == 1:
            v = A_(0)
            if isinstance(v, It) and all(isinstance(x, str) for x in v.items):
                return "".join(v.items)
        if not fn and isinstance(n.get("fun"), dict):
            f = self.ev(n["fun"], env)
            if isinstance(f, tuple) and f and f[0] in ("closure", "fnitem"):
                return self.call_closure(f, [self.arg(n, i_, env) for i_ in range(len(args))])
        if fn.endswith(("Fn::call", "FnMut::call_mut", "FnOnce::call_once")) and len(args) == 2:
            f, t = A_(0), A_(1)
            if isinstance(f, tuple) and f and f[0] in ("closure", "fnitem") and isinstance(t, tuple):
                return self.call_closure(f, list(t))
        r = super().call(n, env)
        if r is NotImplemented and n.get("local") and fn in self.F.fns and not fn.startswith("error::"):
            return self.call_local(fn, [self.ev(a, env) for a in args])
        return r


def evaluate(F):
    f = F.fn("<std::string::String as tokeniser::Tokeniser>::tokenise")
    if f is None:
        return None, "anchor missing"
    ps = [strip_ref(p["pat"]) for p in f.thir["params"] if p.get("pat")]
    if len(ps) != 1 or ps[0].get("k") != "Bind":
        return None, "parameters"
    rows = []
    for text in PROBES:
        want = spec(text)
        m = TokModel(F)
        env = {ps[0]["id"]: text}
        try:
            try:
                got = m.ev(f.body, env)
            except Ret as r:
                got = r.v
        except Unrecognised as e:
            return None, "%s (probe %r)" % (str(e)[:160], text)
        except (KeyError, IndexError, TypeError, AttributeError, ValueError, RecursionError) as e:
            return None, "evaluator error %r (probe %r)" % (e, text)
        if isinstance(got, tuple) and got and got[0] == "err":
            g = "err"
        elif isinstance(got, tuple) and len(got) == 2 and got[0] == "ok" and isinstance(got[1], tuple) and got[1] and got[1][0] in ("vec", "list"):
            g = ("ok", list(got[1][1]))
        else:
            g = got
        rows.append((text, want, g, g == want))
    return rows, None
