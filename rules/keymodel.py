"""KEY-MODEL: the part of parse_mapping that turns the tokens of a mapping key back into one identifier per run of words, evaluated
over all short token vectors.

`"Event ID"` is tokenised as two identifiers; the loader joins consecutive identifiers with one space before parsing the key.  The
statements between `s.tokenise()?` and `parse(&tokens)` are interpreted (findmodel's evaluator: vectors, strings, iterators) with
the tokeniser answered from a list of model tokens, and the vector handed to `parse` is compared with the specification.
Anything outside the interpreted subset raises Unrecognised and the caller falls back to its structural rule (fail closed)."""
import itertools

from facts import walk, peel, call_is, strip_ref
from findmodel import FindModel, It, _s
from tri import Ret, Unrecognised, Brk, Cont

ID = lambda t: ("ctor", "Token", "Identifier", [t])
MOD = ("ctor", "Token", "Modifier", [("ctor", "ModSym", "Int", [])])
DEL = ("ctor", "Token", "Delimiter", [("ctor", "DelSym", "RightParenthesis", [])])
ALPHABET = [ID("a"), ID("b"), MOD, DEL]


def spec_merge(tokens):
    out = []
    run = []
    for t in tokens:
        if t[2] == "Identifier":
            run.append(t[3][0])
        else:
            if run:
                out.append(ID(" ".join(run)))
                run = []
            out.append(t)
    if run:
        out.append(ID(" ".join(run)))
    return out


class KeyModel(FindModel):
    def __init__(self, F, tokens):
        super().__init__(F)
        self.tokens = tokens

    def ev(self, n, env):
        n0 = peel(n)
        if n0.get("k") == "Loop":
            for _ in range(200):
                try:
                    self.ev(n0["body"], env)
                except Brk:
                    return ()
                except Cont:
                    continue
            raise Unrecognised("loop does not finish on a model input (no progress?)")
        return super().ev(n, env)

    def call(self, n, env):
        fn = n.get("fn") or ""
        args = n["args"]
        last = fn.split("::")[-1]
        A_ = lambda i: self.ev(args[i], env)
        if fn.endswith("Tokeniser::tokenise"):
            return ("ok", ("vec", [t for t in self.tokens]))
        if last == "join" and len(args) == 2:
            v, sep = A_(0), _s(A_(1))
            if isinstance(v, tuple) and v and v[0] in ("vec", "list"):
                return sep.join(_s(x) for x in v[1])
        if last == "concat" and len(args) == 1:
            v = A_(0)
            if isinstance(v, tuple) and v and v[0] in ("vec", "list"):
                return "".join(_s(x) for x in v[1])
        if last in ("is_empty", "len", "clear", "pop", "last", "first") and len(args) == 1:
            v = A_(0)
            if isinstance(v, tuple) and v and v[0] in ("vec", "list"):
                if last == "is_empty":
                    return not v[1]
                if last == "len":
                    return len(v[1])
                if last == "clear":
                    del v[1][:]
                    return ()
                if last == "pop":
                    return ("some", v[1].pop()) if v[1] else None
                if last == "last":
                    return ("some", v[1][-1]) if v[1] else None
                return ("some", v[1][0]) if v[1] else None
        if fn.endswith(("mem::take",)) and len(args) == 1:
            tgt = peel(args[0])
            if tgt.get("k") in ("Var", "Upvar"):
                old = env[tgt["id"]]
                if isinstance(old, tuple) and old and old[0] == "vec":
                    env[tgt["id"]] = ("vec", [])
                    return old
                if isinstance(old, str):
                    env[tgt["id"]] = ""
                    return old
        if last in ("push_str", "push") and len(args) == 2 and ("String" in fn or "string" in fn):
            tgt = peel(args[0])
            if tgt.get("k") in ("Var", "Upvar") and isinstance(env.get(tgt["id"]), str):
                env[tgt["id"]] = env[tgt["id"]] + _s(A_(1))
                return ()
        if last in ("new", "default") and ("String" in fn or str(n.get("ty")) == "std::string::String"):
            return ""
        if fn.endswith(("Iterator::peekable", "IntoIterator::into_iter")) and len(args) == 1:
            v = A_(0)
            if isinstance(v, tuple) and v and v[0] == "vec" and fn.endswith("peekable"):
                return It(v[1])
        if last == "next_if" and len(args) == 2:
            it = A_(0)
            if isinstance(it, It):
                if it.items and self.truth(self.closure(args[1], [it.items[0]], env)):
                    return ("some", it.items.pop(0))
                return None
        if last in ("extend", "append") and len(args) == 2:
            v, w = A_(0), A_(1)
            if isinstance(v, tuple) and v and v[0] == "vec":
                items = w.items if isinstance(w, It) else (w[1] if isinstance(w, tuple) and w and w[0] in ("vec", "list") else None)
                if items is not None:
                    v[1].extend(items)
                    if isinstance(w, tuple) and last == "append":
                        del w[1][:]
                    return ()
        return super().call(n, env)


def region(pm):
    """-> (statements to run, the expression handed to parse) of the block that tokenises a key and parses the merged tokens"""
    best = None
    for b in walk(pm.body):
        if b.get("k") != "Block":
            continue
        tok_i = parse_i = None
        parse_call = None
        items = [(st.get("init") if st["k"] == "Let" else st.get("e")) for st in b["stmts"]] + ([b["expr"]] if b.get("expr") is not None else [])
        for i, e in enumerate(items):
            if e is None:
                continue
            if tok_i is None and any(call_is(x, "Tokeniser::tokenise") for x in walk(e)):
                tok_i = i
            if parse_i is None:
                pcs = [x for x in walk(e) if call_is(x, "parser::parse") and len(x["args"]) == 1]
                if pcs:
                    parse_i, parse_call = i, pcs[0]
        if tok_i is not None and parse_i is not None and tok_i <= parse_i:
            best = (b["stmts"][:parse_i] if parse_i <= len(b["stmts"]) else b["stmts"], parse_call["args"][0], tok_i == parse_i)
    return best


def evaluate(F, pm, maxlen=4):
    r = region(pm)
    if r is None:
        return None, "no block that tokenises a key and parses the result"
    stmts, arg, same = r
    rows = []
    for ln in range(0, maxlen + 1):
        for vec in itertools.product(ALPHABET, repeat=ln):
            want = spec_merge(list(vec))
            m = KeyModel(F, list(vec))
            env = {}
            try:
                blk = {"k": "Block", "ty": "?", "sp": "-", "unsafe": False, "stmts": stmts, "expr": arg}
                try:
                    got = m.ev(blk, env)
                except Ret as rr:
                    return None, "the region returns early on a model input: %r" % (rr.v,)
            except Unrecognised as e:
                return None, str(e)[:200]
            except (KeyError, IndexError, TypeError, AttributeError, ValueError) as e:
                return None, "evaluator error %r" % (e,)
            if isinstance(got, It):
                got = ("vec", got.items)
            if not (isinstance(got, tuple) and got and got[0] in ("vec", "list")):
                return None, "the value handed to parse is not a vector: %r" % (got,)
            rows.append((vec, want, list(got[1]), list(got[1]) == want))
    return rows, None
