"""KEY-MODEL: the part of parse_mapping that turns the tokens of a mapping key back into one identifier per run of words, evaluated
over all short token vectors.

`"Event ID"` is tokenised as two identifiers; the loader joins consecutive identifiers with one space before parsing the key.  The
statements between `s.tokenise()?` and `parse(&tokens)` are interpreted (findmodel's evaluator: vectors, strings, iterators) with
the tokeniser answered from a list of model tokens, and the vector handed to `parse` is compared with the specification.
Anything outside the interpreted subset raises Unrecognised and the caller falls back to its structural rule (fail closed)."""
import itertools

from facts import walk, peel, call_is, strip_ref
from findmodel import FindModel, It, _s
from tri import Ret, Unrecognised, Brk, Cont

ID = lambda t: ("ctor", "Token", "Identifier", [t])
MOD = ("ctor", "Token", "Modifier", [("ctor", "ModSym", "Int", [])])
DEL = ("ctor", "Token", "Delimiter", [("ctor", "DelSym", "RightParenthesis", [])])
ALPHABET = [ID("a"), ID("b"), MOD, DEL]


def spec_merge(tokens):
    out = []
    run = []
    for t in tokens:
        if t[2] == "Identifier":
            run.append(t[3][0])
        else:
            if run:
                out.append(ID(" ".join(run)))
                run = []
            out.append(t)
    if run:
        out.append(ID(" ".join(run)))
    return out


class KeyModel(FindModel):
    def __init__(self, F, tokens):
        super().__init__(F)
        self.tokens = tokens

    def ev(self, n, env):
        n0 = peel(n)
        if n0.get("k") == "Loop":
            for _ in range(200):
                try:
                    self.ev(n0["body"], env)
                except Brk:
                    return ()
                except Cont:
                    continue
            raise Unrecognised("loop does not finish on a model input (no progress?)")
        return super().ev(n, env)

    def call(self, n, env):
        fn = n.get("fn") or ""
        args = n["args"]
        last = fn.split("::")[-1]
        A_ = lambda i: self.arg(n, i, env)
        if fn.endswith("Tokeniser::tokenise"):
            return ("ok", ("vec", [t for t in self.tokens]))
        if last == "join" and len(args) == 2:
            v, sep = A_(0), _s(A_(1))
            if isinstance(v, tuple) and v and v[0] in ("vec", "list"):
                return sep.join(_s(x) for x in v[1])
        if last == "concat" and len(args) == 1:
            v = A_(0)
            if isinstance(v, tuple) and v and v[0] in ("vec", "list"):
                return "".join(_s(x) for x in v[1])
        if last in ("is_empty", "len", "clear", "pop", "last", "first") and len(args) == 1:
            v = A_(0)
            if isinstance(v, tuple) and v and v[0] in ("vec", "list"):
                if last == "is_empty":
                    return not v[1]
                if last == "len":
                    return len(v[1])
                if last == "clear":
                    del v[1][:]
                    return ()
                if last == "pop":
                    return ("some", v[1].pop()) if v[1] else None
                if last == "last":
                    return ("some", v[1][-1]) if v[1] else None
                return ("some", v[1][0]) if v[1] else None
        if fn.endswith(("mem::take",)) and len(args) == 1:
            tgt = peel(args[0])
            if tgt.get("k") in ("Var", "Upvar"):
                old = env[tgt["id"]]
                if isinstance(old, tuple) and old and old[0] == "vec":
                    env[tgt["id"]] = ("vec", [])
                    return old
                if isinstance(old, str):
                    env[tgt["id"]] = ""
                    return old
        if last in ("push_str", "push") and len(args) == 2 and ("String" in fn or "string" in fn):
            tgt = peel(args[0])
            if tgt.get("k") in ("Var", "Upvar") and isinstance(env.get(tgt["id"]), str):
                env[tgt["id"]] = env[tgt["id"]] + _s(A_(1))
                return ()
        if last in ("new", "default") and ("String" in fn or str(n.get("ty")) == "std::string::String"):
            return ""
        if fn.endswith(("Iterator::peekable", "IntoIterator::into_iter")) and len(args) == 1:
            v = A_(0)
            if isinstance(v, tuple) and v and v[0] == "vec" and fn.endswith("peekable"):
                return It(v[1])
        if last == "next_if" and len(args) == 2:
            it = A_(0)
            if isinstance(it, It):
                if it.items and self.truth(self.closure(args[1], [it.items[0]], env)):
                    return ("some", it.items.pop(0))
                return None
        if last in ("extend", "append") and len(args) == 2:
            v, w = A_(0), A_(1)
            if isinstance(v, tuple) and v and v[0] == "vec":
                items = w.items if isinstance(w, It) else (w[1] if isinstance(w, tuple) and w and w[0] in ("vec", "list") else None)
                if items is not None:
                    v[1].extend(items)
                    if isinstance(w, tuple) and last == "append":
                        del w[1][:]
                    return ()
        return super().call(n, env)


def region(pm):
    """-> (statements to run, the expression handed to parse) of the block that tokenises a key and parses the merged tokens"""
    best = None
    for b in walk(pm.body):
        if b.get("k") != "Block":
            continue
        tok_i = parse_i = None
        parse_call = None
        items = [(st.get("init") if st["k"] == "Let" else st.get("e")) for st in b["stmts"]] + ([b["expr"]] if b.get("expr") is not None else [])
        for i, e in enumerate(items):
            if e is None:
                continue
            if tok_i is None and any(call_is(x, "Tokeniser::tokenise") for x in walk(e)):
                tok_i = i
            if parse_i is None:
                pcs = [x for x in walk(e) if call_is(x, "parser::parse") and len(x["args"]) == 1]
                if pcs:
                    parse_i, parse_call = i, pcs[0]
        if tok_i is not None and parse_i is not None and tok_i <= parse_i:
            best = (b["stmts"][:parse_i] if parse_i <= len(b["stmts"]) else b["stmts"], parse_call["args"][0], tok_i == parse_i)
    return best


def evaluate(F, pm, maxlen=4):
    r = region(pm)
    if r is None:
        return None, "no block that tokenises a key and parses the result"
    stmts, arg, same = r
    rows = []
    for ln in range(0, maxlen + 1):
        for vec in itertools.product(ALPHABET, repeat=ln):
            want = spec_merge(list(vec))
            m = KeyModel(F, list(vec))
            env = {}
            try:
                blk = {"k": "Block", "ty": "?", "sp": "-", "unsafe": False, "stmts": stmts, "expr": arg}
                try:
                    got = m.ev(blk, env)
                except Ret as rr:
                    return None, "the region returns early on a model input: %r" % (rr.v,)
            except Unrecognised as e:
                return None, str(e)[:200]
            except (KeyError, IndexError, TypeError, AttributeError, ValueError) as e:
                return None, "evaluator error %r" % (e,)
            if isinstance(got, It):
                got = ("vec", got.items)
            if not (isinstance(got, tuple) and got and got[0] in ("vec", "list")):
                return None, "the value handed to parse is not a vector: %r" % (got,)
            rows.append((vec, want, list(got[1]), list(got[1]) == want))
    return rows, None


# ----------------------------------------------------------------------------------------------- parse_identifier: sequence arm

class SeqModel(KeyModel):
    """parse_identifier over a model YAML value; parse_mapping is answered from a table"""

    def __init__(self, F, failing):
        super().__init__(F, [])
        self.failing = failing

    def ev(self, n, env):
        n0 = peel(n)
        if n0.get("k") == "Adt" and str(n0.get("adt", "")).endswith("result::Result") and n0["fields"]:
            return ("ok" if n0["variant"] == "Ok" else "err", self.ev(n0["fields"][0]["e"], env))
        if n0.get("k") == "Array":
            return ("list", [self.ev(x, env) for x in n0["fields"]])
        return super().ev(n, env)

    def call(self, n, env):
        fn = n.get("fn") or ""
        args = n["args"]
        last = fn.split("::")[-1]
        A_ = lambda i: self.arg(n, i, env)
        if fn.startswith("error::") or "::error::" in fn:
            return ("error",)
        if fn.endswith("parser::parse_mapping") and len(args) == 1:
            m = A_(0)
            if isinstance(m, tuple) and m and m[0] == "map":
                return ("err", ("error",)) if m[1] in self.failing else ("ok", ("pm", m[1]))
            raise Unrecognised("parse_mapping on %r" % (m,))
        if last in ("into_vec", "box_assume_init_into_vec_unsafe", "to_vec") and len(args) == 1:
            v = A_(0)
            if isinstance(v, tuple) and v and v[0] in ("list", "vec"):
                return ("vec", list(v[1]))
        if last == "new" and "Box" in fn and len(args) == 1:
            return A_(0)
        if last == "write_box_via_move" and len(args) == 2:
            return A_(1)  # `vec![a, b]`: the array literal on its way into a Vec
        if last in ("iter", "into_iter") and len(args) == 1:
            v = A_(0)
            if isinstance(v, tuple) and v and v[0] == "seq":
                return It(v[1])
        if last in ("split_first", "split_last", "first", "last", "is_empty", "len", "get") and args:
            v = A_(0)
            if isinstance(v, tuple) and v and v[0] == "seq":
                xs = v[1]
                if last == "split_first":
                    return ("some", (xs[0], ("seq", xs[1:]))) if xs else None
                if last == "split_last":
                    return ("some", (xs[-1], ("seq", xs[:-1]))) if xs else None
                if last == "first":
                    return ("some", xs[0]) if xs else None
                if last == "last":
                    return ("some", xs[-1]) if xs else None
                if last == "is_empty":
                    return not xs
                if last == "len":
                    return len(xs)
                if last == "get" and len(args) == 2:
                    i = A_(1)
                    if isinstance(i, int):
                        return ("some", xs[i]) if 0 <= i < len(xs) else None
        if last == "skip" and len(args) == 2:
            v, c = A_(0), A_(1)
            if isinstance(v, It) and isinstance(c, int):
                return It(v.items[c:])
        return super().call(n, env)

    def index(self, base, idx):
        if isinstance(base, tuple) and base and base[0] == "seq":
            xs = base[1]
            if isinstance(idx, int) and 0 <= idx < len(xs):
                return xs[idx]
            if isinstance(idx, tuple) and idx and idx[0] == "ctor" and idx[1] == "RangeFrom" and isinstance(idx[3][0], int) and 0 <= idx[3][0] <= len(xs):
                return ("seq", xs[idx[3][0]:])
            raise Unrecognised("slice index (a panic in the model) %r[%r]" % (base, idx))
        return super().index(base, idx)


def evaluate_sequence(F, pi, maxlen=3):
    """parse_identifier(Sequence(xs)) for all xs up to maxlen over {mapping, non-mapping}, with every subset of one failing mapping
    -> (rows, unrecognised); expected: Ok(or-group of parse_mapping(x) in order) iff xs is non-empty, all mappings, none failing"""
    ps = [strip_ref(p["pat"]) for p in pi.thir["params"] if p.get("pat")]
    if len(ps) != 1 or ps[0].get("k") != "Bind":
        return None, "parameters"
    rows = []
    for ln in range(0, maxlen + 1):
        for shape in itertools.product((True, False), repeat=ln):
            for failing in [set()] + [{i} for i in range(ln) if shape[i]]:
                xs = [("ctor", "Value", "Mapping", [("map", i)]) if shape[i] else ("ctor", "Value", "String", ["x"]) for i in range(ln)]
                doc = ("ctor", "Value", "Sequence", [("seq", xs)])
                good = ln > 0 and all(shape) and not failing
                want = ("ok", ("ctor", "Expression", "BooleanGroup", [("ctor", "BoolSym", "Or", []), [("pm", i) for i in range(ln)]])) if good else "err"
                m = SeqModel(F, failing)
                env = {ps[0]["id"]: doc}
                try:
                    try:
                        got = m.ev(pi.body, env)
                    except Ret as rr:
                        got = rr.v
                except Unrecognised as e:
                    return None, str(e)[:200]
                except (KeyError, IndexError, TypeError, AttributeError, ValueError) as e:
                    return None, "evaluator error %r" % (e,)
                if isinstance(got, tuple) and got and got[0] == "err":
                    g = "err"
                elif isinstance(got, tuple) and got and got[0] == "ok" and isinstance(got[1], tuple) and got[1][0] == "ctor" and got[1][2] == "BooleanGroup" \
                        and isinstance(got[1][3][1], tuple) and got[1][3][1][0] in ("vec", "list"):
                    g = ("ok", ("ctor", "Expression", "BooleanGroup", [got[1][3][0], list(got[1][3][1][1])]))
                else:
                    g = got
                rows.append(((shape, tuple(sorted(failing))), want, g, g == want))
    return rows, None
