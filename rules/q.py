"""Query helpers over normalised THIR trees: contexts, guards, arms."""
from facts import walk, walk_with_path, peel, unblock, children, strip_ref, variant_of, pat_binds, call_is, lit
from show import show


def contains(root, node):
    return any(x is node for x in walk(root))


def context(path, node):
    """Facts that hold at `node` given its ancestor chain `path`:
    list of ('if', cond, polarity) / ('guard', cond) / ('arm', pat, scrut) / ('for', pat, iter) entries, outermost first."""
    out = []
    chain = list(path) + [node]
    for i, anc in enumerate(path):
        nxt = chain[i + 1]
        k = anc.get("k")
        if k == "Block":
            # guard clauses: after `if c { <always leaves> }` (no else) the rest of the block runs under !c
            for s in anc["stmts"]:
                e = s.get("e") if s["k"] == "Expr" else s.get("init")
                if e is not None and (e is nxt or contains(e, nxt)):
                    break
                if s["k"] == "Let" and s.get("else") is not None and (s["else"] is nxt or contains(s["else"], nxt)):
                    break
                g = peel(s["e"]) if s["k"] == "Expr" else None
                if g is not None and g.get("k") == "If" and g.get("else") is None and not any(ex == "fall" for ex, _ in flow(g["then"], lambda x: False)):
                    out.append(("if", g["cond"], False))
        if k == "If":
            if nxt is anc.get("then") or contains(anc["then"], nxt) and not (anc.get("else") and contains(anc["else"], nxt)):
                if nxt is not anc["cond"] and not contains(anc["cond"], nxt):
                    out.append(("if", anc["cond"], True))
            elif anc.get("else") and (nxt is anc["else"] or contains(anc["else"], nxt)):
                out.append(("if", anc["cond"], False))
        elif k == "Match":
            for a in anc["arms"]:
                if nxt is a["body"] or contains(a["body"], nxt):
                    out.append(("arm", a["pat"], anc["scrut"]))
                    if a.get("guard"):
                        out.append(("guard", a["guard"]))
                elif a.get("guard") and (nxt is a["guard"] or contains(a["guard"], nxt)):
                    out.append(("arm", a["pat"], anc["scrut"]))
        elif k == "For":
            if nxt is anc["body"] or contains(anc["body"], nxt):
                out.append(("for", anc["pat"], anc["iter"]))
        elif k == "Logical" and anc["op"] == "And":
            if nxt is anc["rhs"] or contains(anc["rhs"], nxt):
                out.append(("if", anc["lhs"], True))
        elif k == "Logical" and anc["op"] == "Or":
            if nxt is anc["rhs"] or contains(anc["rhs"], nxt):
                out.append(("if", anc["lhs"], False))
    return out


def conj(cond):
    """Split a condition into its && conjuncts."""
    c = peel(cond)
    if c.get("k") == "Logical" and c["op"] == "And":
        return conj(c["lhs"]) + conj(c["rhs"])
    return [cond]


def true_facts(ctx):
    """All condition nodes known true at the site (if-then conds and guards, split on &&)."""
    out = []
    for e in ctx:
        if e[0] == "if" and e[2]:
            out.extend(conj(e[1]))
        elif e[0] == "guard":
            out.extend(conj(e[1]))
    return out


def var_id(n):
    n = peel(n)
    if isinstance(n, dict) and n.get("k") in ("Var", "Upvar"):
        return n["id"]
    return None


def place(n):
    """a storage place that rules can compare: the id of a variable, or (id, field name) for a field of a struct variable; else None"""
    n = peel(n)
    while isinstance(n, dict) and (call_is(n, "Deref::deref") or call_is(n, "DerefMut::deref_mut")) and len(n["args"]) == 1:
        n = peel(n["args"][0])
    if isinstance(n, dict) and n.get("k") in ("Var", "Upvar"):
        return n["id"]
    if isinstance(n, dict) and n.get("k") == "Field" and peel(n["arg"]).get("k") in ("Var", "Upvar") and not str(n.get("name", "")).isdigit():
        return (peel(n["arg"])["id"], n["name"])
    return None


def find_arm(match, adt, variant):
    for a in match["arms"]:
        for p in _alts(a["pat"]):
            if variant_of(p) == (adt, variant):
                return a
    return None


def _alts(p):
    p = strip_ref(p)
    if p.get("k") == "Or":
        out = []
        for q in p["pats"]:
            out.extend(_alts(q))
        return out
    return [p]


def calls(root, suffix):
    return [n for n in walk(root) if call_is(n, suffix)]


def returns(root):
    return [n for n in walk(root) if n.get("k") == "Return"]


def is_sr(n, which):
    n = peel(n)
    return isinstance(n, dict) and n.get("k") == "Adt" and n["adt"].endswith("SolverResult") and n["variant"] == which


def returns_sr(n, which):
    """n is `return SolverResult::<which>` possibly inside a block with only debug statements."""
    from show import is_debug_stmt
    n = peel(n)
    if n.get("k") == "Block":
        real = [s for s in n["stmts"] if not (s["k"] == "Expr" and is_debug_stmt(s["e"]))]
        if len(real) == 1 and real[0]["k"] == "Expr" and not n.get("expr"):
            return returns_sr(real[0]["e"], which)
        if not real and n.get("expr"):
            return returns_sr(n["expr"], which)
        return False
    return n.get("k") == "Return" and n.get("value") is not None and is_sr(n["value"], which)


def failure_branch(root, call, variant=("Option", "None")):
    """How is the failing case (None / Err) of the value produced by `call` handled?  Supports
       match CALL {Some(v) => .., None => BODY}    -> BODY
       let Some(v) = CALL else { BODY };           -> BODY
       if let Some(v) = CALL {..} else { BODY }    -> BODY (None if there is no else)
       CALL?                                       -> "try"
    Returns None if the value is used in some other way."""
    for n, path in walk_with_path(root):
        k = n.get("k")
        if k == "Match" and peel(n["scrut"]) is call:
            for a in n["arms"]:
                for p in _alts(a["pat"]):
                    if variant_of(p) == variant or (strip_ref(p).get("k") == "Wild" and a is n["arms"][-1]):
                        return a["body"]
            return None
        if k == "Block":
            for s in n["stmts"]:
                if s["k"] == "Let" and s.get("init") is not None and peel(s["init"]) is call and s.get("else") is not None:
                    return s["else"]
        if k == "If" and peel(n["cond"]).get("k") == "LetCond" and peel(peel(n["cond"])["arg"]) is call:
            return n.get("else")
        if k == "Try" and peel(n["arg"]) is call:
            return "try"
    return None


def branches(n):
    """[(pattern or None for 'otherwise', body)] of a Match or of an `if let P = e {..} else {..}` (else may be absent)."""
    n = peel(n)
    if n.get("k") == "Match":
        return peel(n["scrut"]), [(a["pat"] if strip_ref(a["pat"]).get("k") != "Wild" else None, a["body"]) for a in n["arms"]]
    if n.get("k") == "If" and peel(n["cond"]).get("k") == "LetCond":
        c = peel(n["cond"])
        return peel(c["arg"]), [(c["pat"], n["then"]), (None, n.get("else"))]
    return None, []


def let_init(root, vid):
    """The initialiser of the (unique) `let` that binds variable id `vid` directly, or None."""
    found = None
    for n in walk(root):
        if n.get("k") == "Block":
            for s in n["stmts"]:
                if s["k"] == "Let" and strip_ref(s["pat"]).get("k") == "Bind" and strip_ref(s["pat"])["id"] == vid and s.get("init") is not None:
                    if found is not None:
                        return None
                    found = s["init"]
    return found


def resolve(root, n, depth=3):
    """Follow `let x = <expr>` for a plain variable use (single binding), a few steps."""
    n = peel(n)
    while depth > 0 and isinstance(n, dict) and n.get("k") == "Var":
        init = let_init(root, n["id"])
        if init is None:
            break
        n = peel(init)
        depth -= 1
    return n


def _pat_wild(p):
    p = strip_ref(p)
    if p.get("k") == "Wild":
        return True
    return p.get("k") == "Leaf" and all(_pat_wild(x["p"]) for x in p["sub"])


def _has_err_return(n):
    from facts import adt_is
    return n is not None and any(x.get("k") == "Return" and x.get("value") is not None and adt_is(peel(x["value"]), "Result", "Err") for x in walk(n))


def _bool_match(n):
    """`matches!(X, P)` = match X { P => true, _ => false }: returns (X, [P arms' patterns]) or None."""
    from facts import unblock
    n = unblock(n)
    if n.get("k") != "Match":
        return None
    yes = []
    for a in n["arms"]:
        v = lit(peel(a["body"]))
        if v is None or v[0] != "bool" or a.get("guard"):
            return None
        if v[1]:
            yes.append(a["pat"])
        # an arm that answers false only takes shapes away (a superset of the accepted shapes is what callers need)
    return n["scrut"], yes


def filters(root):
    """Operand filters `only these shapes of X continue, anything else returns Err`, in the forms
         match X { P.. => .., _ => return Err(..) }
         if !matches!(X, P..) { return Err(..) }      /   if matches!(X, P..) {..} else { return Err(..) }
         let P = X else { return Err(..) };           /   if let P = X {..} else { return Err(..) }
    -> [(X, [allowed patterns], node)]"""
    out = []
    for n in walk(root):
        k = n.get("k")
        if k == "Match":
            wild = [a for a in n["arms"] if _pat_wild(a["pat"]) and not a.get("guard")]
            if wild and _has_err_return(wild[-1]["body"]) and wild[-1] is n["arms"][-1]:
                out.append((n["scrut"], [a["pat"] for a in n["arms"] if a is not wild[-1]], n))
        elif k == "If":
            c = peel(n["cond"])
            if c.get("k") == "Unary" and c["op"] == "Not" and _bool_match(c["arg"]) and _has_err_return(n["then"]):
                x, pats = _bool_match(c["arg"])
                out.append((x, pats, n))
            elif _bool_match(c) and _has_err_return(n.get("else")):
                x, pats = _bool_match(c)
                out.append((x, pats, n))
            elif c.get("k") == "LetCond" and _has_err_return(n.get("else")):
                out.append((c["arg"], [c["pat"]], n))
        elif k == "Block":
            for s in n["stmts"]:
                if s["k"] == "Let" and s.get("else") is not None and s.get("init") is not None and _has_err_return(s["else"]):
                    out.append((s["init"], [s["pat"]], s))
    return out


def result_leaves(body):
    """[(leaf, path)] of every value a function body can produce: the tail expression's leaves (through blocks, ifs,
    matches) and the leaves of every `return` value (closures excluded)."""
    out = []

    def leaves(n, path):
        m = n
        k = m.get("k")
        if k == "Block":
            if m.get("expr"):
                leaves(m["expr"], path + [m])
            elif m["stmts"] and m["stmts"][-1]["k"] == "Expr":
                leaves(m["stmts"][-1]["e"], path + [m])
            return
        if k == "If":
            leaves(m["then"], path + [m])
            if m.get("else"):
                leaves(m["else"], path + [m])
            return
        if k == "Match":
            for a in m["arms"]:
                leaves(a["body"], path + [m])
            return
        if k == "Return":
            return
        out.append((m, path))

    leaves(body, [])
    for n, path in walk_with_path(body):
        if n.get("k") == "Return" and n.get("value") is not None and not any(p.get("k") == "Closure" for p in path):
            leaves(n["value"], list(path) + [n])
    return out


def delegates(f, target="Object::find", via=None):
    """Every value `f` produces is `target(<self or the payload of self matched as `via`>, <2nd parameter unchanged>)`;
    when `via` is given the only other result is None, produced where self did not match `via`.  -> (ok, detail)"""
    params = [strip_ref(p["pat"]) for p in f.thir["params"]]
    sid, kid = params[0].get("id"), params[1].get("id")
    ls = result_leaves(f.body)
    nfind = nnone = 0
    for leaf, path in ls:
        l = peel(leaf)
        if call_is(l, target) and len(l["args"]) == 2 and var_id(l["args"][1]) == kid:
            recv = var_id(l["args"][0])
            if via is None:
                if recv != sid:
                    return False, "receiver is not self: " + show(l)
            else:
                ok = False
                for e in context(path, leaf):
                    pat, scrut = (e[1], e[2]) if e[0] == "arm" else (None, None)
                    if e[0] == "if" and e[2] and peel(e[1]).get("k") == "LetCond":
                        pat, scrut = peel(e[1])["pat"], peel(e[1])["arg"]
                    if pat is not None and var_id(scrut) == sid and variant_of(pat) and variant_of(pat)[1] == via and any(b[1] == recv for b in pat_binds(pat)):
                        ok = True
                if not ok:
                    # let-else form: `let Value::Object(o) = self else { return None }`
                    for n in walk(f.body):
                        if n.get("k") == "Block":
                            for s in n["stmts"]:
                                if s["k"] == "Let" and s.get("else") is not None and var_id(s.get("init")) == sid and variant_of(s["pat"]) and variant_of(s["pat"])[1] == via and any(b[1] == recv for b in pat_binds(s["pat"])):
                                    ok = True
                if not ok:
                    return False, "receiver is not the %s payload of self: %s" % (via, show(l))
            nfind += 1
        elif via is not None and call_is(l, "::and_then") and len(l["args"]) == 2 and peel(l["args"][1]).get("k") == "Closure" \
                and call_is(peel(l["args"][0]), "::as_" + via.lower()) and var_id(peel(l["args"][0])["args"][0]) == sid and getattr(f, "facts", None) is not None:
            # `self.as_object().and_then(|o| target(o, key))`: the payload when self is a `via`, None otherwise
            clo = f.facts.fns.get(peel(l["args"][1])["def"])
            cps = [strip_ref(p["pat"]) for p in clo.thir["params"] if p.get("pat") is not None] if clo is not None and clo.thir is not None else []
            cb = unblock(clo.body) if cps else {}
            if len(cps) == 1 and cps[0].get("k") == "Bind" and call_is(cb, target) and len(cb["args"]) == 2 and var_id(cb["args"][0]) == cps[0]["id"] and var_id(cb["args"][1]) == kid:
                nfind += 1
                nnone += 1
            else:
                return False, "other result: " + show(l)[:80]
        elif via is not None and l.get("k") == "Adt" and l["adt"].endswith("Option") and l["variant"] == "None":
            # must not be reachable when self matched `via`
            for e in context(path, leaf):
                if e[0] == "arm" and var_id(e[2]) == sid and variant_of(e[1]) and variant_of(e[1])[1] == via:
                    return False, "None produced for an object"
                if e[0] == "if" and e[2] and peel(e[1]).get("k") == "LetCond" and var_id(peel(e[1])["arg"]) == sid:
                    return False, "None produced for an object"
            nnone += 1
        else:
            return False, "other result: " + show(l)[:80]
    if nfind != 1 or (via is not None and nnone != 1) or (via is None and nnone):
        return False, "%d delegating results, %d None results" % (nfind, nnone)
    return True, "%d results" % len(ls)


def option_cases(e, F):
    """An Option-consuming expression as its two cases: -> (scrutinee, id bound to the payload, value when Some, value when None), for
    `X.map(|v| S).unwrap_or(D)`, `X.map_or(D, |v| S)`, `match X { Some(v) => S, None => D }` and `if let Some(v) = X { S } else { D }`; else None"""
    e = unblock(e)

    def clo(n):
        n = peel(n)
        if n.get("k") != "Closure":
            return None
        c = F.fns.get(n["def"])
        ps = [strip_ref(p["pat"]) for p in c.thir["params"] if p.get("pat") is not None] if c is not None and c.thir is not None else []
        return (ps[0]["id"], c.body) if len(ps) == 1 and ps[0].get("k") == "Bind" else None
    if call_is(e, "::unwrap_or") and len(e["args"]) == 2 and call_is(peel(e["args"][0]), "::map") and len(peel(e["args"][0])["args"]) == 2:
        m = peel(e["args"][0])
        c = clo(m["args"][1])
        if c:
            return m["args"][0], c[0], c[1], e["args"][1]
    if call_is(e, "::map_or") and len(e["args"]) == 3:
        c = clo(e["args"][2])
        if c:
            return e["args"][0], c[0], c[1], e["args"][1]
    sc, brs = branches(e)
    if sc is not None and len(brs) == 2:
        some = [(p, x) for p, x in brs if p is not None and variant_of(p) == ("Option", "Some")]
        none = [(p, x) for p, x in brs if p is None or variant_of(p) == ("Option", "None") or strip_ref(p).get("k") == "Wild"]
        if len(some) == 1 and len(none) == 1 and none[0][1] is not None:
            from facts import subpat
            inner = strip_ref(subpat(some[0][0], 0))
            if inner is not None and inner.get("k") == "Bind":
                return sc, inner["id"], some[0][1], none[0][1]
    return None


def loop_over(loop):
    """A `for` over the elements of a vector/slice variable, optionally through .iter() and .enumerate():
    -> (id of the vector variable or None, element pattern, id of the enumerate index or None)"""
    it = peel(loop["iter"])
    pat = loop["pat"]
    idx = None
    if call_is(it, "Iterator::enumerate"):
        it = peel(it["args"][0])
        p = strip_ref(pat)
        if p.get("k") == "Leaf" and len(p["sub"]) == 2 and strip_ref(p["sub"][0]["p"]).get("k") == "Bind":
            idx = strip_ref(p["sub"][0]["p"])["id"]
            pat = p["sub"][1]["p"]
        else:
            return None, pat, None
    while call_is(it, "::iter") or call_is(it, "IntoIterator::into_iter") or call_is(it, "Deref::deref"):
        it = peel(it["args"][0])
    return var_id(it), pat, idx


def _unblock_block(n):
    n = peel(n)
    while n.get("k") == "Block" and not n["stmts"] and n.get("expr") and peel(n["expr"]).get("k") == "Block":
        n = peel(n["expr"])
    return n


def counter_of(fn_body, loop, ivar=None, exact=True):
    """The variable that holds the number of completed iterations of `loop`:
       - the index bound by `.enumerate()`, or
       - a variable initialised `let mut i = 0` (outside the loop), written only by `i += 1` inside this loop, where every
         increment is the last statement of the loop body or is directly followed by `continue` (at most one per iteration);
         with exact=True additionally every `continue` is directly preceded by an increment and the body ends with one
         (exactly one per iteration).
    -> {"kind", "id", "continues"} or None"""
    _, _, eidx = loop_over(loop)
    nconts = len([x for x in walk(loop["body"]) if x.get("k") == "Continue"])
    if eidx is not None and (ivar is None or ivar == eidx):
        written = [x for x in walk(fn_body) if x.get("k") in ("Assign", "AssignOp") and var_id(x["lhs"]) == eidx]
        return None if written else {"kind": "enumerate", "id": eidx, "continues": nconts}
    cands = []
    for x in walk(fn_body):
        if x.get("k") == "Block":
            for st in x["stmts"]:
                if st["k"] == "Let" and st["pat"].get("k") == "Bind" and lit(st.get("init")) == ("i", 0) and not contains(loop, st):
                    if ivar is None or st["pat"]["id"] == ivar:
                        cands.append(st["pat"]["id"])
    for cid in cands:
        if len([1 for x in walk(fn_body) if x.get("k") == "Block" for st in x["stmts"] if st["k"] == "Let" and any(b[1] == cid for b in pat_binds(st["pat"]))]) != 1:
            continue
        mods = [x for x in walk(fn_body) if x.get("k") in ("Assign", "AssignOp") and var_id(x["lhs"]) == cid]
        if not mods or not all(x.get("k") == "AssignOp" and x["op"] == "AddAssign" and lit(x["rhs"]) == ("i", 1) and contains(loop["body"], x) for x in mods):
            continue
        # no increment inside a nested loop or closure
        nested = False
        for n, path in walk_with_path(loop["body"]):
            if any(n is m for m in mods) and any(p.get("k") in ("For", "Loop", "Closure") for p in path):
                nested = True
        if nested:
            continue
        ok = True
        top = _unblock_block(loop["body"])
        is_mod = lambda e: e is not None and any(peel(e) is m for m in mods)
        for blk in walk(loop["body"]):
            if blk.get("k") != "Block":
                continue
            st = blk["stmts"]
            for i, x in enumerate(st):
                if x["k"] == "Expr" and is_mod(x["e"]):
                    last_of_loop = blk is top and i == len(st) - 1 and not blk.get("expr")
                    nxt = st[i + 1]["e"] if i + 1 < len(st) and st[i + 1]["k"] == "Expr" else blk.get("expr") if i + 1 == len(st) else None
                    if not (last_of_loop or (nxt is not None and peel(nxt).get("k") == "Continue")):
                        ok = False
            if exact:
                for i, x in enumerate(st):
                    if x["k"] == "Expr" and peel(x["e"]).get("k") == "Continue":
                        if not (i > 0 and st[i - 1]["k"] == "Expr" and is_mod(st[i - 1]["e"])):
                            ok = False
                if blk.get("expr") is not None and peel(blk["expr"]).get("k") == "Continue":
                    if not (st and st[-1]["k"] == "Expr" and is_mod(st[-1]["e"])):
                        ok = False
        if exact:
            if not (top.get("k") == "Block" and top["stmts"] and not top.get("expr") and top["stmts"][-1]["k"] == "Expr" and is_mod(top["stmts"][-1]["e"])):
                ok = False
            # every continue sits in a block position examined above (not e.g. as a match arm expression)
            seen = 0
            for blk in walk(loop["body"]):
                if blk.get("k") == "Block":
                    seen += len([1 for x in blk["stmts"] if x["k"] == "Expr" and peel(x["e"]).get("k") == "Continue"])
                    seen += 1 if blk.get("expr") is not None and peel(blk["expr"]).get("k") == "Continue" else 0
            if seen != nconts or len(mods) != nconts + 1:
                ok = False
        if ok:
            return {"kind": "manual", "id": cid, "continues": nconts}
    return None


def base_var(n, root=None):
    """id of the variable behind `&v`, `&*v`, `v.deref()`, `v.as_slice()`; with `root`, also through `let w = <such a view of v>`"""
    n = peel(n)
    for _ in range(6):
        while isinstance(n, dict) and (call_is(n, "Deref::deref") or call_is(n, "::as_slice") or call_is(n, "::as_ref")):
            n = peel(n["args"][0])
        if root is None or not isinstance(n, dict) or n.get("k") != "Var":
            break
        init = let_init(root, n["id"])
        if init is None or not (call_is(peel(init), "Deref::deref") or call_is(peel(init), "::as_slice") or call_is(peel(init), "::as_ref") or peel(init).get("k") == "Var"):
            break
        n = peel(init)
    return var_id(n)


def _range_upto(it, root):
    """`0..N` -> resolved N, else None"""
    it = peel(it)
    if call_is(it, "IntoIterator::into_iter"):
        it = peel(it["args"][0])
    if it.get("k") == "Adt" and it["adt"].endswith("Range") and it.get("variant") in ("Range", None):
        fm = {f["name"]: f["e"] for f in it["fields"]}
        if lit(fm.get("start")) == ("i", 0) and "end" in fm:
            return resolve(root, fm["end"])
    return None


def _len_term(n, root):
    n = resolve(root, n)
    if call_is(n, "::len") and len(n["args"]) == 1:
        b = base_var(n["args"][0])
        if b is not None:
            return ("len", b)
    return None


def sym_len(root, vid, _depth=0):
    """Symbolic length of the Vec variable `vid` in function body `root`, when it is visibly fixed at construction:
         let mut v = Vec::with_capacity(_) | Vec::new();  for _ in 0..N { v.push(X) }      (the only push, unconditional)
         let v = (0..N).map(|_| X).collect()   /   let v = vec![X; N]   /   let v = { ..; w } with w such a vector
       and `v` is afterwards mutably borrowed only for element assignment (v[i] = ..).
       -> ("len", id of the vector whose length N is, the element expression X) or None"""
    lets = [(s, blk) for blk in walk(root) if blk.get("k") == "Block" for s in blk["stmts"] if s["k"] == "Let" and strip_ref(s["pat"]).get("k") == "Bind" and strip_ref(s["pat"])["id"] == vid]
    if len(lets) != 1 or lets[0][0].get("init") is None or _depth > 3:
        return None
    let, blk = lets[0]
    init = peel(let["init"])
    term = None
    init_pushes = []
    chain = []
    b = init
    while b.get("k") == "Block" and b.get("expr") is not None:
        chain.append(b)
        b = peel(b["expr"])
    if chain and var_id(b) is not None:
        # a block that builds the vector and yields it (normalised `.collect()`, inlined constructor helper)
        inner = var_id(b)
        if any(s["k"] == "Let" and strip_ref(s["pat"]).get("k") == "Bind" and strip_ref(s["pat"])["id"] == inner for blk2 in chain for s in blk2["stmts"]):
            term = sym_len(root, inner, _depth + 1)
    elif call_is(init, "::from_elem") and len(init["args"]) == 2:
        t = _len_term(init["args"][1], root)
        term = t + (init["args"][0],) if t else None
    elif call_is(init, "::with_capacity") or call_is(init, "::new"):
        pushes = [(x, p) for x, p in walk_with_path(root) if call_is(x, "::push") and base_var(x["args"][0]) == vid]
        if len(pushes) == 1:
            x, p = pushes[0]
            fors = [a for a in p if a.get("k") in ("For", "Loop", "Closure")]
            if fors and fors[-1].get("k") == "For" and _unconditional(fors[-1]["body"], x) and not contains(fors[-1], let):
                n = _range_upto(fors[-1]["iter"], root)
                t = _len_term(n, root) if n is not None else None
                if t is None and n is None:
                    src, _, _ = loop_over(fors[-1])
                    t = ("len", src) if src is not None else None
                # the loop itself runs once: it is not nested in another loop after the let
                outer = [a for a in fors[:-1] if not contains(a, let)]
                if t is not None and not outer:
                    term = t + (x["args"][1],)
                    init_pushes = [x]
    if term is None:
        return None
    # later mutable uses: element assignment only
    for n, path in walk_with_path(root):
        if n.get("k") == "Borrow" and n.get("mut") and var_id(n["arg"]) == vid:
            par = path[-1] if path else None
            if par is not None and (call_is(par, "IndexMut::index_mut") or any(par is x for x in init_pushes)):
                continue
            return None
        if n.get("k") == "Assign" and var_id(n["lhs"]) == vid:
            return None
    return term


def _unconditional(body, node):
    """`node` is evaluated exactly once whenever `body` runs to its end: it sits in the top-level statement list (or tail)
    of `body`, not under an if/match/loop/closure, and no statement before it can leave the body early."""
    b = peel(body)
    while b.get("k") == "Block" and not b["stmts"] and b.get("expr") is not None and peel(b["expr"]).get("k") == "Block":
        b = peel(b["expr"])
    items = [s["e"] if s["k"] == "Expr" else s.get("init") for s in b["stmts"]] + ([b["expr"]] if b.get("expr") is not None else []) if b.get("k") == "Block" else [b]
    for e in items:
        if e is None:
            continue
        if peel(e) is node:
            return True
        if any(x.get("k") in ("Return", "Break", "Continue", "Try") for x in walk(e)):
            return False
    return False


def all_patterns(root):
    """every pattern in a body: match arms, `if let`/`while let` conditions, let statements, for loops"""
    out = []
    for n in walk(root):
        k = n.get("k")
        if k == "Match":
            out.extend(a["pat"] for a in n["arms"])
        elif k == "LetCond":
            out.append(n["pat"])
        elif k == "For":
            out.append(n["pat"])
        elif k == "Block":
            out.extend(s["pat"] for s in n["stmts"] if s["k"] == "Let")
    return out


PURE_SUFFIX = ("Deref::deref", "Index::index", "::as_slice", "::as_str", "::len", "Match::pattern", "Match::start", "Match::end", "::is_empty", "PatternID::as_u64", "PatternID::as_usize")


def inline_pure_lets(body, params=()):
    """A copy of `body` in which every `let x = E;` with x immutable and E a *pure* expression over immutable variables
    (E built from len()/is_empty()/Match::{pattern,start,end}/as_u64, shared borrows, literals and immutable bindings not of
    `&mut` type) is removed and x replaced by E.  Hoisting or un-hoisting such a let does not change behaviour, so rules that
    compare the shape of conditions look at this form."""
    import facts as _f
    modes = {}
    for p in list(params) + all_patterns(body):
        for pp in _walk_pat(p):
            if pp.get("k") == "Bind":
                modes[pp["id"]] = (pp.get("mode", ""), pp.get("ty", ""))
    written = {var_id(x["lhs"]) for x in walk(body) if x.get("k") in ("Assign", "AssignOp")}

    def immut(vid):
        m = modes.get(vid)
        return m is not None and m[0].endswith("Not)") and not m[1].startswith("&mut") and vid not in written

    def pure(e):
        k = e.get("k")
        if k in ("Var", "Upvar"):
            return immut(e["id"])
        if k in ("Borrow",):
            return not e.get("mut") and pure(e["arg"])
        if k in ("Deref", "Coerce", "Cast", "ByUse"):
            return pure(e["arg"])
        if k == "Lit":
            return True
        if k == "Call":
            return any((e.get("fn") or "").endswith(s) for s in PURE_SUFFIX) and all(pure(a) for a in e["args"])
        return False

    def go(n):
        if isinstance(n, list):
            return [go(x) for x in n]
        if not isinstance(n, dict):
            return n
        if n.get("k") == "Block":
            stmts = []
            m = {}
            rest = {"stmts": list(n["stmts"]), "expr": n.get("expr")}
            out_stmts = []
            for s in n["stmts"]:
                s2 = _f._subst(s, m) if m else s
                p = strip_ref(s2["pat"]) if s2["k"] == "Let" else None
                if s2["k"] == "Let" and p.get("k") == "Bind" and not p.get("sub") and s2.get("else") is None and s2.get("init") is not None \
                        and p.get("mode", "").endswith("Not)") and p["id"] not in written and pure(s2["init"]):
                    m[p["id"]] = s2["init"]
                    continue
                out_stmts.append(s2)
            out = dict(n)
            out["stmts"] = [go(s) for s in out_stmts]
            out["expr"] = go(_f._subst(n["expr"], m)) if n.get("expr") is not None else None
            return out
        return {k: (v if k == "pat" else go(v)) for k, v in n.items()}

    return go(body)


def _walk_pat(p):
    p0 = strip_ref(p)
    yield p0
    for s in p0.get("sub") or [] if isinstance(p0.get("sub"), list) else []:
        if isinstance(s, dict) and "p" in s:
            yield from _walk_pat(s["p"])
    if isinstance(p0.get("sub"), dict):
        yield from _walk_pat(p0["sub"])
    for s in p0.get("pats") or []:
        yield from _walk_pat(s)


def flow(n, pred, called=False):
    """Abstract run of expression `n`: the set of (exit, called) pairs it can end in, where exit is one of
    'fall' (completes normally), 'break', 'continue', 'return', and `called` tells whether a node satisfying `pred`
    has been evaluated on the way.  Conditions are not interpreted (both branches possible); nested loops may run zero
    times; closures are not entered."""
    if n is None:
        return {("fall", called)}
    if isinstance(n, list):
        states = {("fall", called)}
        for x in n:
            nxt = set()
            for ex, c in states:
                if ex != "fall":
                    nxt.add((ex, c))
                else:
                    nxt |= flow(x, pred, c)
            states = nxt
        return states
    if not isinstance(n, dict):
        return {("fall", called)}
    k = n.get("k")
    if k == "Closure":
        return {("fall", called)}
    if k == "Break":
        return {("break", c) for ex, c in flow(n.get("value"), pred, called) if ex == "fall"} | {(ex, c) for ex, c in flow(n.get("value"), pred, called) if ex != "fall"}
    if k == "Continue":
        return {("continue", called)}
    if k == "Return":
        r = flow(n.get("value"), pred, called)
        return {("return", c) if ex == "fall" else (ex, c) for ex, c in r}
    if k == "Try":
        r = flow(n["arg"], pred, called)
        out = set()
        for ex, c in r:
            out.add((ex, c))
            if ex == "fall":
                out.add(("return", c))
        return out
    if k == "Block":
        items = []
        for s in n["stmts"]:
            if s["k"] == "Expr":
                items.append(s["e"])
            else:
                items.append(s.get("init"))
                if s.get("else") is not None:
                    items.append({"k": "_Maybe", "e": s["else"]})
        items.append(n.get("expr"))
        return flow(items, pred, called)
    if k == "_Maybe":
        return {("fall", called)} | flow(n["e"], pred, called)
    if k == "If":
        out = set()
        for ex, c in flow(n["cond"], pred, called):
            if ex != "fall":
                out.add((ex, c))
                continue
            out |= flow(n["then"], pred, c)
            out |= flow(n.get("else"), pred, c) if n.get("else") is not None else {("fall", c)}
        return out
    if k == "Match":
        out = set()
        for ex, c in flow(n["scrut"], pred, called):
            if ex != "fall":
                out.add((ex, c))
                continue
            for a in n["arms"]:
                for ex2, c2 in flow(a.get("guard"), pred, c):
                    if ex2 != "fall":
                        out.add((ex2, c2))
                    else:
                        out |= flow(a["body"], pred, c2)
        return out
    if k in ("Loop", "For"):
        out = set()
        start = flow(n.get("iter"), pred, called) if k == "For" else {("fall", called)}
        for ex, c in start:
            if ex != "fall":
                out.add((ex, c))
                continue
            out.add(("fall", c))  # zero iterations / left by break
            for ex2, c2 in flow(n["body"], pred, c):
                if ex2 in ("fall", "break", "continue"):
                    out.add(("fall", c2))
                else:
                    out.add((ex2, c2))
        return out
    if k == "Logical":
        out = set()
        for ex, c in flow(n["lhs"], pred, called):
            if ex != "fall":
                out.add((ex, c))
            else:
                out.add(("fall", c))
                out |= flow(n["rhs"], pred, c)
        return out
    # generic expression: children in evaluation order, then the node itself
    kids = [v for key, v in n.items() if key not in ("pat",) and isinstance(v, (dict, list))]
    out = set()
    for ex, c in flow(kids, pred, called):
        if ex == "fall" and pred(n):
            c = True
        out.add((ex, c))
    return out


def every_cycle_calls(loop, pred):
    """every way of starting another iteration of `loop` (falling off the end of its body, or `continue`) has evaluated a
    node satisfying pred"""
    body = loop["body"]
    return all(c for ex, c in flow(body, pred) if ex in ("fall", "continue"))


def matrix_roles_solver(f):
    """In a solver function: ids bound by `Expression::Matrix(columns, rows)` patterns -> (set of columns ids, set of rows ids),
    and the ids of variables bound by `for row in rows`."""
    cols, rows = set(), set()
    for pat in all_patterns(f.body):
        for alt in _alts(pat):
            for pp in _walk_pat(alt):
                v = variant_of(pp)
                if v and v[0] == "Expression" and v[1] == "Matrix":
                    for i, acc in ((0, cols), (1, rows)):
                        from facts import subpat
                        b = strip_ref(subpat(pp, i))
                        if b is not None and b.get("k") == "Bind":
                            acc.add(b["id"])
    rowvars = set()
    for n in walk(f.body):
        if n.get("k") == "For":
            src, pat, idx = loop_over(n)
            if src in rows and idx is None and strip_ref(pat).get("k") == "Bind":
                rowvars.add(strip_ref(pat)["id"])
    return cols, rows, rowvars


def row_cell_loops(f):
    """`for (i, cell) in row.iter().enumerate()` loops over a matrix row -> [(loop node, index id)]"""
    _, _, rowvars = matrix_roles_solver(f)
    out = []
    for n in walk(f.body):
        if n.get("k") == "For":
            src, pat, idx = loop_over(n)
            if src in rowvars and idx is not None:
                out.append((n, idx))
    return out


def cache_decode(cf):
    """Cache::find(&self, key): clone of self.0[(first char of key as u32) as usize], the first char taken with
    chars().nth(0) or chars().next() and unwrapped.  -> (ok, detail)"""
    params = [strip_ref(p["pat"]) for p in cf.thir["params"] if p.get("pat")]
    if len(params) != 2:
        return False, "parameters"
    self_id, key_id = params[0].get("id"), params[1].get("id")
    body = cf.body
    leaves = result_leaves(body)
    if len(leaves) != 1:
        return False, "%d results" % len(leaves)
    v = peel(leaves[0][0])
    if not call_is(v, "Clone::clone"):
        return False, "result is not a clone of the slot"
    ix = peel(v["args"][0])
    if not (call_is(ix, "Index::index") and len(ix["args"]) == 2):
        return False, "not an indexed slot"
    recv = peel(ix["args"][0])
    if not (recv.get("k") == "Field" and var_id(recv["arg"]) == self_id):
        return False, "slot vector is not self.0"
    i1 = resolve(body, ix["args"][1])
    if not (i1.get("k") == "Cast" and i1.get("ty") == "usize"):
        return False, "index is not `.. as usize`"
    i2 = resolve(body, i1["arg"])
    if i2.get("k") == "Cast" and i2.get("from") == "char" and i2.get("ty") == "u32":
        i2 = resolve(body, i2["arg"])
    else:
        return False, "index is not the char as u32"
    if not (call_is(i2, "::expect") or call_is(i2, "::unwrap")):
        return False, "first char is not unwrapped"
    first = peel(i2["args"][0])
    okfirst = (call_is(first, "Iterator::nth") and lit(first["args"][1]) == ("i", 0)) or call_is(first, "Iterator::next")
    ch = peel(first["args"][0]) if okfirst else {}
    if not (okfirst and call_is(ch, "::chars") and base_var(ch["args"][0], body) == key_id):
        return False, "not the first char of the key"
    return True, "self.0[key.chars().first as u32 as usize]"


def alias_sources(root, vid, depth=4):
    """Variables whose value `vid` is a plain copy of, through lets, tuple packing/unpacking, `Some(..)`/`Ok(..)` wrapping and `?`:
         let (k, i) = { ..; Some((key, index)) }?;      ->  k is key, i is index
         let k = key;                                    ->  k is key
    -> set of variable ids (always contains vid)"""
    out = {vid}
    if depth <= 0:
        return out
    for blk in walk(root):
        if blk.get("k") != "Block":
            continue
        for s in blk["stmts"]:
            if s["k"] != "Let" or s.get("init") is None:
                continue
            path = _bind_path(s["pat"], vid)
            if path is None:
                continue
            for leaf in _value_leaves(s["init"]):
                src = _project(leaf, path)
                sid = var_id(src) if src is not None else None
                if sid is not None and sid not in out:
                    out |= alias_sources(root, sid, depth - 1)
    return out


def _bind_path(pat, vid, path=()):
    """position of the binding `vid` inside a (tuple) pattern: () for a plain binding, (0,), (1, 0) .. ; None if absent"""
    p = strip_ref(pat)
    if p.get("k") == "Bind" and p.get("id") == vid and not p.get("sub"):
        return path
    if p.get("k") == "Leaf" and str(p.get("ty", "")).startswith("("):
        for s in p["sub"]:
            r = _bind_path(s["p"], vid, path + (s["i"],))
            if r is not None:
                return r
    return None


def _value_leaves(e):
    """the expressions a value can come from, through blocks/ifs/matches, `?`, and Some/Ok wrappers"""
    e = peel(e)
    k = e.get("k")
    if k == "Try":
        return _value_leaves(e["arg"])
    if k == "Block":
        if e.get("expr") is not None:
            return _value_leaves(e["expr"])
        return []
    if k == "If":
        return _value_leaves(e["then"]) + (_value_leaves(e["else"]) if e.get("else") is not None else [])
    if k == "Match":
        out = []
        for a in e["arms"]:
            out += _value_leaves(a["body"])
        return out
    if k == "Adt" and e.get("variant") in ("Some", "Ok") and e.get("fields"):
        return _value_leaves(e["fields"][0]["e"])
    return [e]


def _project(e, path):
    e = peel(e)
    for i in path:
        if e.get("k") != "Tuple" or i >= len(e["fields"]):
            return None
        e = peel(e["fields"][i])
    return e
