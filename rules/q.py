"""Query helpers over normalised THIR trees: contexts, guards, arms."""
from facts import walk, walk_with_path, peel, children, strip_ref, variant_of, pat_binds, call_is, lit
from show import show


def contains(root, node):
    return any(x is node for x in walk(root))


def context(path, node):
    """Facts that hold at `node` given its ancestor chain `path`:
    list of ('if', cond, polarity) / ('guard', cond) / ('arm', pat, scrut) / ('for', pat, iter) entries, outermost first."""
    out = []
    chain = list(path) + [node]
    for i, anc in enumerate(path):
        nxt = chain[i + 1]
        k = anc.get("k")
        if k == "If":
            if nxt is anc.get("then") or contains(anc["then"], nxt) and not (anc.get("else") and contains(anc["else"], nxt)):
                if nxt is not anc["cond"] and not contains(anc["cond"], nxt):
                    out.append(("if", anc["cond"], True))
            elif anc.get("else") and (nxt is anc["else"] or contains(anc["else"], nxt)):
                out.append(("if", anc["cond"], False))
        elif k == "Match":
            for a in anc["arms"]:
                if nxt is a["body"] or contains(a["body"], nxt):
                    out.append(("arm", a["pat"], anc["scrut"]))
                    if a.get("guard"):
                        out.append(("guard", a["guard"]))
                elif a.get("guard") and (nxt is a["guard"] or contains(a["guard"], nxt)):
                    out.append(("arm", a["pat"], anc["scrut"]))
        elif k == "For":
            if nxt is anc["body"] or contains(anc["body"], nxt):
                out.append(("for", anc["pat"], anc["iter"]))
        elif k == "Logical" and anc["op"] == "And":
            if nxt is anc["rhs"] or contains(anc["rhs"], nxt):
                out.append(("if", anc["lhs"], True))
        elif k == "Logical" and anc["op"] == "Or":
            if nxt is anc["rhs"] or contains(anc["rhs"], nxt):
                out.append(("if", anc["lhs"], False))
    return out


def conj(cond):
    """Split a condition into its && conjuncts."""
    c = peel(cond)
    if c.get("k") == "Logical" and c["op"] == "And":
        return conj(c["lhs"]) + conj(c["rhs"])
    return [cond]


def true_facts(ctx):
    """All condition nodes known true at the site (if-then conds and guards, split on &&)."""
    out = []
    for e in ctx:
        if e[0] == "if" and e[2]:
            out.extend(conj(e[1]))
        elif e[0] == "guard":
            out.extend(conj(e[1]))
    return out


def var_id(n):
    n = peel(n)
    if isinstance(n, dict) and n.get("k") in ("Var", "Upvar"):
        return n["id"]
    return None


def find_arm(match, adt, variant):
    for a in match["arms"]:
        for p in _alts(a["pat"]):
            if variant_of(p) == (adt, variant):
                return a
    return None


def _alts(p):
    p = strip_ref(p)
    if p.get("k") == "Or":
        out = []
        for q in p["pats"]:
            out.extend(_alts(q))
        return out
    return [p]


def calls(root, suffix):
    return [n for n in walk(root) if call_is(n, suffix)]


def returns(root):
    return [n for n in walk(root) if n.get("k") == "Return"]


def is_sr(n, which):
    n = peel(n)
    return isinstance(n, dict) and n.get("k") == "Adt" and n["adt"].endswith("SolverResult") and n["variant"] == which


def returns_sr(n, which):
    """n is `return SolverResult::<which>` possibly inside a block with only debug statements."""
    from show import is_debug_stmt
    n = peel(n)
    if n.get("k") == "Block":
        real = [s for s in n["stmts"] if not (s["k"] == "Expr" and is_debug_stmt(s["e"]))]
        if len(real) == 1 and real[0]["k"] == "Expr" and not n.get("expr"):
            return returns_sr(real[0]["e"], which)
        if not real and n.get("expr"):
            return returns_sr(n["expr"], which)
        return False
    return n.get("k") == "Return" and n.get("value") is not None and is_sr(n["value"], which)


def failure_branch(root, call, variant=("Option", "None")):
    """How is the failing case (None / Err) of the value produced by `call` handled?  Supports
       match CALL {Some(v) => .., None => BODY}    -> BODY
       let Some(v) = CALL else { BODY };           -> BODY
       if let Some(v) = CALL {..} else { BODY }    -> BODY (None if there is no else)
       CALL?                                       -> "try"
    Returns None if the value is used in some other way."""
    for n, path in walk_with_path(root):
        k = n.get("k")
        if k == "Match" and peel(n["scrut"]) is call:
            for a in n["arms"]:
                for p in _alts(a["pat"]):
                    if variant_of(p) == variant or (strip_ref(p).get("k") == "Wild" and a is n["arms"][-1]):
                        return a["body"]
            return None
        if k == "Block":
            for s in n["stmts"]:
                if s["k"] == "Let" and s.get("init") is not None and peel(s["init"]) is call and s.get("else") is not None:
                    return s["else"]
        if k == "If" and peel(n["cond"]).get("k") == "LetCond" and peel(peel(n["cond"])["arg"]) is call:
            return n.get("else")
        if k == "Try" and peel(n["arg"]) is call:
            return "try"
    return None


def branches(n):
    """[(pattern or None for 'otherwise', body)] of a Match or of an `if let P = e {..} else {..}` (else may be absent)."""
    n = peel(n)
    if n.get("k") == "Match":
        return peel(n["scrut"]), [(a["pat"] if strip_ref(a["pat"]).get("k") != "Wild" else None, a["body"]) for a in n["arms"]]
    if n.get("k") == "If" and peel(n["cond"]).get("k") == "LetCond":
        c = peel(n["cond"])
        return peel(c["arg"]), [(c["pat"], n["then"]), (None, n.get("else"))]
    return None, []


def let_init(root, vid):
    """The initialiser of the (unique) `let` that binds variable id `vid` directly, or None."""
    found = None
    for n in walk(root):
        if n.get("k") == "Block":
            for s in n["stmts"]:
                if s["k"] == "Let" and strip_ref(s["pat"]).get("k") == "Bind" and strip_ref(s["pat"])["id"] == vid and s.get("init") is not None:
                    if found is not None:
                        return None
                    found = s["init"]
    return found


def resolve(root, n, depth=3):
    """Follow `let x = <expr>` for a plain variable use (single binding), a few steps."""
    n = peel(n)
    while depth > 0 and isinstance(n, dict) and n.get("k") == "Var":
        init = let_init(root, n["id"])
        if init is None:
            break
        n = peel(init)
        depth -= 1
    return n
