"""C02 Verdicts follow the documented rule language: the lowering tables that define the language in the code.

T-LOWER   Pattern -> expression: numeric patterns become (key <op> literal) with the operator and literal kind of the pattern; string
          patterns become a Search of the same kind; single-value arm and list arm agree (siblings)
OPERAND   the compared operand is the key expression itself: `e` in the single-value arms (where it is Field/Cast), the unwrapped
          `unmatched_e` everywhere in the list arm (never the Match wrapper)
T-YAML    YAML value kind x key modifier -> expression form (bool, number, null, string, mapping, sequence, tagged), single vs list
K-MOD     key syntax: not(k) => Negate, int/flt/str(k) => Cast, plain => Field, all()/of() => Match over a field, only on lists
T-CONJ    a mapping is the and-group of its entries in written order; a sequence of mappings is the or-group of its entries
MISSING   an absent field makes its predicate Missing (never true/false) at every lookup site of the solver
shared    connective truth tables (C06), pattern syntax / search dispatch / flags (C07)
"""
import re

import core
import facts
import q
from facts import walk, walk_with_path, peel, call_is, unblock, variant_of, strip_ref, subpat, pat_str, lit, or_pats
from show import show

NUM = {"Equal": ("Equal", "Integer"), "GreaterThan": ("GreaterThan", "Integer"), "GreaterThanOrEqual": ("GreaterThanOrEqual", "Integer"), "LessThan": ("LessThan", "Integer"),
       "LessThanOrEqual": ("LessThanOrEqual", "Integer"), "FEqual": ("Equal", "Float"), "FGreaterThan": ("GreaterThan", "Float"), "FGreaterThanOrEqual": ("GreaterThanOrEqual", "Float"),
       "FLessThan": ("LessThan", "Float"), "FLessThanOrEqual": ("LessThanOrEqual", "Float")}


def cmp_node(n):
    """(left operand text, BoolSym, literal kind, literal payload text) of an Expression::BooleanExpression constructor."""
    n = unblock(n)
    if not (n.get("k") == "Adt" and n["adt"] == "parser::Expression" and n["variant"] == "BooleanExpression"):
        return None
    fm = {f["name"]: f["e"] for f in n["fields"]}

    def unbox(e):
        e = peel(e)
        if e.get("k") == "Call" and (e.get("fn") or "").endswith("Box::<T>::new"):
            return peel(e["args"][0])
        return e
    l, op, r = unbox(fm["0"]), peel(fm["1"]), unbox(fm["2"])
    if not (op.get("k") == "Adt" and r.get("k") == "Adt"):
        return None
    return (show(l), op["variant"], r["variant"], show(r["fields"][0]["e"]) if r["fields"] else "")


def mismatch_siblings(rep, F):
    """A string predicate over a value that is neither a string nor a list (and has no str() cast) is answered in five sibling
    places (the Search arm of solve_expression, the automaton and regex-set arms of match_all and match_of).  They must agree:
    if one says missing and another false, `not` and all()/of() see different rule languages."""
    rep.describe("T-MISMATCH", "the catch-all arms of the five value-kind matches of string predicates give the same answer")
    got = []
    for fname in ("solver::solve_expression", "solver::match_all", "solver::match_of"):
        f = F.fn(fname)
        if f is None:
            rep.lost("T-MISMATCH", "T-MISMATCH/anchor/" + fname, fname)
            continue
        for n in walk(f.body):
            if n.get("k") != "Match" or len(n["arms"]) < 3:
                continue
            strs = [a for a in n["arms"] if any(variant_of(pp) and variant_of(pp)[0] == "Value" and variant_of(pp)[1] == "String" for alt in or_pats(a["pat"]) for pp in q._walk_pat(alt))]
            last = n["arms"][-1]
            if not strs or not q._pat_wild(last["pat"]) or last.get("guard"):
                continue
            # only the matches of string predicates: some arm calls search()/slow_aho()/RegexSet::matches
            if not any(call_is(x, "solver::search") or call_is(x, "solver::slow_aho") or call_is(x, "RegexSet::matches") for x in walk(n)):
                continue
            outs = set()
            for x in walk(last["body"]):
                if x.get("k") == "Return" and x.get("value") is not None and peel(x["value"]).get("k") == "Adt" and peel(x["value"])["adt"].endswith("SolverResult"):
                    outs.add(peel(x["value"])["variant"])
            for leaf, _ in q.result_leaves(last["body"]):
                l = peel(leaf)
                if l.get("k") == "Adt" and l["adt"].endswith("SolverResult"):
                    outs.add(l["variant"])
            got.append((fname.split("::")[-1], n.get("sp"), tuple(sorted(outs))))
    answers = {o for _, _, o in got}
    rep.check(len(got) >= 5, "T-MISMATCH", "T-MISMATCH/sites", "src/solver.rs", "five value-kind matches of string predicates found", str(len(got)))
    for i, (fn, sp, o) in enumerate(got):
        rep.check(len(answers) == 1 and len(o) == 1, "T-MISMATCH", "T-MISMATCH/%s#%d" % (fn, i), sp, "a value of the wrong kind is answered like in the sibling arms (%s)" % "/".join(sorted({x for a in answers for x in a})), "this arm: %s" % "/".join(o))
    rep.floor("T-MISMATCH", 6)


def sequence_is_or(pi):
    """parse_identifier, Sequence arm: Ok(BooleanGroup(Or, V)) where V = [parse_mapping(first)?] followed by one
    parse_mapping(entry)? per remaining entry, pushed in iteration order over the sequence's own iterator; any non-mapping => Err."""
    m = unblock(pi.body)
    if m.get("k") != "Match":
        return False
    arm = [a for a in m["arms"] if variant_of(a["pat"]) and variant_of(a["pat"])[1] == "Sequence"]
    if len(arm) != 1:
        return False
    body = arm[0]["body"]
    sid = strip_ref(subpat(arm[0]["pat"], 0)).get("id")
    leaves = q.result_leaves(body)
    oks = [l for l, _ in leaves if facts.adt_is(peel(l), "Result", "Ok")]
    if len(oks) != 1 or not all(facts.adt_is(peel(l), "Result", "Err") for l, _ in leaves if l is not oks[0]):
        return False
    g = peel(peel(oks[0])["fields"][0]["e"])
    if not (g.get("k") == "Adt" and g["adt"] == "parser::Expression" and g["variant"] == "BooleanGroup"):
        return False
    fs = {f["name"]: f["e"] for f in g["fields"]}
    if not (peel(fs["0"]).get("k") == "Adt" and peel(fs["0"])["variant"] == "Or"):
        return False
    vid = q.var_id(fs["1"])
    vinit = q.let_init(body, vid) if vid is not None else None
    if vinit is None:
        return False
    vb = unblock(vinit)
    if vb.get("k") == "Block" and vb.get("expr") is not None and q.var_id(vb["expr"]) is not None and q.let_init(vb, q.var_id(vb["expr"])) is not None:
        # `let v = { let mut c = Vec::new(); for .. { c.push(..) }; c }` (a collect): c is the vector
        vid = q.var_id(vb["expr"])
        vinit = q.let_init(vb, vid)
    def mapping_payload(arg):
        aid = q.base_var(arg, body)
        for pat in q.all_patterns(body):
            for alt in or_pats(pat):
                for pp in q._walk_pat(alt):
                    v = variant_of(pp)
                    if v and v[1] == "Mapping" and any(b[1] == aid for b in facts.pat_binds(pp)):
                        return True
        return False
    # the iterator over the sequence
    its = [s for x in walk(body) if x.get("k") == "Block" for s in x["stmts"] if s["k"] == "Let" and s.get("init") is not None and call_is(peel(s["init"]), "::iter") and q.base_var(peel(s["init"])["args"][0]) == sid]
    if not its:
        # single-loop form: `if s.is_empty() { return Err }; let mut v = vec![]; for entry in s { let Mapping(m) = entry else { return Err }; v.push(parse_mapping(m)?) }`
        loops = [x for x in walk(body) if x.get("k") == "For" and q.loop_over(x)[0] == sid]
        pms = [x for x in walk(body) if call_is(x, "parser::parse_mapping")]
        pushes = [x for x in walk(body) if call_is(x, "::push") and q.base_var(x["args"][0]) == vid]
        init0 = peel(vinit)
        empty_start = call_is(init0, "::new") or call_is(init0, "::with_capacity") or (init0.get("k") in ("Array",) and not init0.get("fields"))
        guards = [e_ for e_ in q.context(oks and leaves[[l for l, _ in leaves].index(oks[0])][1] or [], oks[0]) if e_[0] == "if" and not e_[2] and call_is(peel(e_[1]), "::is_empty") and q.base_var(peel(e_[1])["args"][0]) == sid]
        if len(loops) == 1 and len(pms) == 1 and len(pushes) == 1 and empty_start and guards:
            l0 = loops[0]
            val = q.resolve(l0["body"], pushes[0]["args"][1]) if peel(pushes[0]["args"][1]).get("k") == "Var" else pushes[0]["args"][1]
            return q.contains(l0["body"], pushes[0]) and any(y is pms[0] for y in walk(val)) and q.every_cycle_calls(l0, lambda x: x is pushes[0]) and mapping_payload(pms[0]["args"][0])
        return False
    if len(its) != 1:
        return False
    itid = strip_ref(its[0]["pat"]).get("id")
    firsts = [x for x in walk(body) if call_is(x, "Iterator::next") and q.base_var(x["args"][0]) == itid]
    loops = [x for x in walk(body) if x.get("k") == "For" and q.base_var(x["iter"]) == itid]
    if len(firsts) != 1 or len(loops) != 1:
        return False
    pms = [x for x in walk(body) if call_is(x, "parser::parse_mapping")]
    if len(pms) != 2:
        return False
    # first element: vec![parse_mapping(m)?] with m the Mapping payload of next()
    in_init = [x for x in pms if q.contains(vinit, x)]
    in_loop = [x for x in pms if q.contains(loops[0]["body"], x)]
    if len(in_init) != 1 or len(in_loop) != 1:
        return False
    pushes = [x for x in walk(body) if call_is(x, "::push") and q.base_var(x["args"][0]) == vid]
    if len(pushes) != 1 or not q.contains(loops[0]["body"], pushes[0]) or not any(y is in_loop[0] for y in walk(q.resolve(loops[0]["body"], pushes[0]["args"][1]) if peel(pushes[0]["args"][1]).get("k") == "Var" else pushes[0]["args"][1])):
        return False
    if not q.every_cycle_calls(loops[0], lambda x: x is pushes[0]):
        return False

    def mapping_payload_of(arg, src_pred):
        """arg is bound by a Value::Mapping(..) pattern matched against something satisfying src_pred"""
        aid = q.base_var(arg, body)
        for pat in q.all_patterns(body):
            for alt in or_pats(pat):
                for pp in q._walk_pat(alt):
                    v = variant_of(pp)
                    if v and v[1] == "Mapping" and any(b[1] == aid for b in facts.pat_binds(pp)):
                        return True
        return False
    return mapping_payload_of(in_init[0]["args"][0], None) and mapping_payload_of(in_loop[0]["args"][0], None)


def run(rep):
    F = facts.load("A")
    rep.configs = ["A(core,json)"]
    rep.explanation = (
        "Agreement with an independent interpreter of the rule language is not statically decidable; what is decided are the finite lowering "
        "tables through which the loader *defines* the language: pattern kind -> expression form, YAML kind x key modifier -> expression form, "
        "key syntax -> Field/Cast/Negate/Match, mapping -> conjunction in written order, sequence -> disjunction, and the rule that an absent "
        "field yields Missing at every lookup.  The single-value arm and the list arm of parse_mapping are cross-checked as siblings.  The "
        "connective tables, pattern syntax, search dispatch and numeric tables are shared with C06, C07 and C09.  Composition of constructs "
        "beyond these tables is not decided."
    )
    for r, t in (("T-LOWER", "pattern kind -> expression"), ("OPERAND", "compared operand is the (unwrapped) key expression"), ("T-YAML", "YAML kind x modifier -> expression"),
                 ("K-MOD", "key modifiers"), ("T-CONJ", "mapping = and in order, sequence = or"), ("MISSING", "absent field => Missing")):
        rep.describe(r, t)
    pm = F.fn("parser::parse_mapping")
    if pm is None:
        rep.lost("T-LOWER", "T-LOWER/anchor", "parser::parse_mapping")
        return
    vmatch = [n for n in walk(pm.body) if n.get("k") == "Match" and show(n["scrut"]) == "v" and len([a for a in n["arms"] if variant_of(a["pat"])]) >= 4]  # (not a `matches!(v, ..)` test)
    if len(vmatch) != 1:
        rep.lost("T-YAML", "T-YAML/anchor", "match on the YAML value")
        return
    arms = {variant_of(a["pat"])[1]: a for a in vmatch[0]["arms"] if variant_of(a["pat"])}
    rep.check(set(arms) == {"Bool", "Number", "Null", "String", "Mapping", "Sequence", "Tagged"}, "T-YAML", "T-YAML/kinds", vmatch[0]["sp"], "all seven YAML value kinds have an arm", str(sorted(arms)))
    seq = arms.get("Sequence")
    # ---------------------------------------------------------------- OPERAND
    nsingle = nlist = 0
    for kind, a in arms.items():
        for n in walk(a["body"]):
            if n.get("k") != "Adt":
                continue
            c = cmp_node(n)
            if c is None:
                continue
            if kind == "Sequence":
                nlist += 1
                rep.check(c[0] == "Clone::clone(unmatched_e)", "OPERAND", "OPERAND/list/%s-%s#%d" % (c[1], c[2], nlist), n["sp"], "a comparison built in the list arm compares the unwrapped key expression", c[0])
            else:
                nsingle += 1
                rep.check(c[0] == "Clone::clone(e)", "OPERAND", "OPERAND/single/%s/%s-%s#%d" % (kind, c[1], c[2], nsingle), n["sp"], "a comparison built for a single value compares the key expression", c[0])
    rep.check(nsingle == 15 and nlist == 15, "OPERAND", "OPERAND/sites", pm.sp, "15 single-value and 15 list comparison constructors", "%d / %d" % (nsingle, nlist))
    # unmatched_e is e without its Match wrapper
    ul = [s for x in walk(pm.body) if x.get("k") == "Block" for s in x["stmts"] if s["k"] == "Let" and s["pat"].get("name") == "unmatched_e"]
    oku = len(ul) == 1 and show(ul[0]["init"]) == "if let &Expression::Match(_, $e) = e {Clone::clone(e)} else {Clone::clone(e)}"
    rep.check(oku, "OPERAND", "OPERAND/unmatched_e", ul[0]["sp"] if ul else pm.sp, "unmatched_e is the key expression with an all()/of() wrapper removed", show(ul[0]["init"])[:120] if ul else "-")
    # the single-value arms can only see Field/Cast keys: a Match key is accepted only `if let Yaml::Sequence(_) = v`
    def seq_test(c):
        """+1 / -1 when the condition says `v is a Sequence` / `v is not a Sequence`, else 0"""
        c = unblock(c)
        if c.get("k") == "Unary" and c["op"] == "Not":
            return -seq_test(c["arg"])
        if c.get("k") == "LetCond" and variant_of(c["pat"]) and variant_of(c["pat"])[1] == "Sequence" and show(c["arg"]) == "v":
            return 1
        if c.get("k") == "Match" and show(c["scrut"]) == "v" and len(c["arms"]) == 2 and variant_of(c["arms"][0]["pat"]) and variant_of(c["arms"][0]["pat"])[1] == "Sequence" \
                and lit(c["arms"][0]["body"]) == ("bool", True) and lit(c["arms"][1]["body"]) == ("bool", False):
            return 1
        return 0
    okk = False
    ksite = pm.sp
    for _n, p in walk_with_path(pm.body):
        # the place where a Match key is turned into the entry's (expression, field) pair
        if _n.get("k") == "Adt" and _n["adt"] == "parser::Expression" and _n["variant"] == "Match" and any(e[0] == "arm" and pat_str(e[1]).startswith("Expression::Match(") for e in q.context(p, _n)):
            ksite = _n["sp"]
            okk = any(e[0] == "if" and seq_test(e[1]) == (1 if e[2] else -1) for e in q.context(p, _n))
    rep.check(okk, "K-MOD", "K-MOD/match-only-on-lists", ksite, "all()/of() keys are accepted only when the value is a list (so single-value arms see Field/Cast keys)", "")

    # ---------------------------------------------------------------- T-LOWER numeric tables (single and list)
    def numeric_rows(root, tag):
        rows = {}
        for n in walk(root):
            if n.get("k") == "Match" and show(n["scrut"]) == "identifier.pattern":
                for a in n["arms"]:
                    v = variant_of(a["pat"])
                    if v and v[1] in NUM:
                        cs = [cmp_node(x) for x in walk(a["body"]) if x.get("k") == "Adt"]
                        cs = [c for c in cs if c]
                        b = strip_ref(subpat(a["pat"], 0))
                        if len(cs) == 1:
                            rows[v[1]] = (cs[0][1], cs[0][2], cs[0][3] == b.get("name"))
        for pk, (op, litk) in NUM.items():
            got = rows.get(pk)
            rep.check(got == (op, litk, True), "T-LOWER", "T-LOWER/%s/%s" % (tag, pk), root["sp"], "Pattern::%s(n) => key %s %s(n)" % (pk, op, litk), str(got))
        return rows
    s_rows = numeric_rows(arms["String"]["body"], "single") if "String" in arms else {}
    l_rows = numeric_rows(seq["body"], "list") if seq else {}
    rep.check(s_rows == l_rows and len(s_rows) == 10, "T-LOWER", "T-LOWER/sibling-numeric", pm.sp, "single-value and list arms lower numeric patterns identically", "")
    # string kinds in the single arm
    if "String" in arms:
        for n in walk(arms["String"]["body"]):
            if n.get("k") == "Match" and show(n["scrut"]) == "identifier.pattern":
                for a in n["arms"]:
                    v = variant_of(a["pat"])
                    if not v or v[1] in NUM:
                        continue
                    kinds = sorted({x["variant"] for x in walk(a["body"]) if x.get("k") == "Adt" and x["adt"] == "parser::Search"})
                    want = {"Any": ["Any"], "Regex": ["Regex"], "Contains": ["AhoCorasick", "Contains"], "EndsWith": ["AhoCorasick", "EndsWith"], "Exact": ["AhoCorasick", "Exact"], "StartsWith": ["AhoCorasick", "StartsWith"]}.get(v[1])
                    rep.check(kinds == want, "T-LOWER", "T-LOWER/single/" + v[1], a["sp"], "Pattern::%s => Search of the same kind (an ASCII-insensitive automaton when the flag is set)" % v[1], str(kinds))
                    outer = unblock(a["body"])
                    okf = outer.get("k") == "Adt" and outer["variant"] == "Search" and show([f for f in outer["fields"] if f["name"] == "1"][0]["e"]) == "ToOwned::to_owned(f)" and show([f for f in outer["fields"] if f["name"] == "2"][0]["e"]) == "cast"
                    rep.check(okf, "T-LOWER", "T-LOWER/single/%s/field-cast" % v[1], a["sp"], "the search is on the entry's own field with cast = (modifier is str)", show(outer)[-60:])
    # list arm: pattern kind -> bucket
    if seq:
        for n in walk(seq["body"]):
            if n.get("k") == "Match" and show(n["scrut"]) == "identifier.pattern":
                for a in n["arms"]:
                    v = variant_of(a["pat"])
                    if not v or v[1] in NUM:
                        continue
                    want = {"Exact": "exact", "StartsWith": "starts_with", "EndsWith": "ends_with", "Contains": "contains", "Regex": "regex", "Any": "rest"}.get(v[1])
                    pushes = [show(x["args"][0]) for x in walk(a["body"]) if call_is(x, "::push")]
                    rep.check(pushes == [want], "T-LOWER", "T-LOWER/list/" + v[1], a["sp"], "a %s member goes to bucket `%s`" % (v[1], want), str(pushes))
        cl = [s for x in walk(pm.body) if x.get("k") == "Block" for s in x["stmts"] if s["k"] == "Let" and s["pat"].get("name") == "cast"]
    # cast flag: true iff the modifier is str
    casts = [show(n) for n in walk(pm.body) if n.get("k") == "Assign" and show(n["lhs"]) == "cast"]
    ctxok = True
    for n, p in walk_with_path(pm.body):
        if n.get("k") == "Assign" and show(n["lhs"]) == "cast":
            cond = [show(e[1]) for e in q.context(p, n) if e[0] == "if" and e[2]]
            ctxok = ctxok and lit(n["rhs"]) == ("bool", True) and any("ModSym::Str" in c for c in cond)
    rep.check(ctxok and len(casts) == 2, "T-LOWER", "T-LOWER/cast-flag", pm.sp, "cast is set to true only under the str() modifier (single and list arm)", str(casts))

    # ---------------------------------------------------------------- T-YAML rows
    def yaml_rows(root, varname, tag, operand):
        """Rows for Bool / Number / Null inside `root`: {(kind, modifier): description}."""
        return show(root)
    sb = show(arms["Bool"]["body"]) if "Bool" in arms else ""
    want_bool = ("if let Option::Some(ModSym::Int) = misc {Expression::BooleanExpression(<T>::new(Clone::clone(e)), BoolSym::Equal, <T>::new(Expression::Integer(if b {1} else {0})))} else "
                 "{if let Option::Some(ModSym::Str) = misc {Expression::Search(Search::Exact(ToString::to_string(b)), ToOwned::to_owned(f), true)} else "
                 "{Expression::BooleanExpression(<T>::new(Clone::clone(e)), BoolSym::Equal, <T>::new(Expression::Boolean(b)))}}")
    rep.check(sb == want_bool, "T-YAML", "T-YAML/single/Bool", arms["Bool"]["sp"], "bool: int(k) => k == 1/0; str(k) => exact text; otherwise k == bool", sb[:160])
    sn = show(arms["Number"]["body"]) if "Number" in arms else ""
    want_num = ("if let Option::Some($i) = Number::as_i64(n) {if let Option::Some(ModSym::Str) = misc {Expression::Search(Search::Exact(ToString::to_string(i)), ToOwned::to_owned(f), true)} else "
                "{Expression::BooleanExpression(<T>::new(Clone::clone(e)), BoolSym::Equal, <T>::new(Expression::Integer(i)))}} else {if let Option::Some($i) = Number::as_f64(n) "
                "{if let Option::Some(ModSym::Int) = misc {return Result::Err(")
    rep.check(sn.startswith(want_num) and "Expression::BooleanExpression(<T>::new(Clone::clone(e)), BoolSym::Equal, <T>::new(Expression::Float(i)))" in sn and sn.rstrip("}").endswith(")))") or sn.startswith(want_num),
              "T-YAML", "T-YAML/single/Number", arms["Number"]["sp"], "number: i64 => k == Integer (str: exact text); f64 => k == Float (int: Err, str: exact text); else Err", sn[:160])
    rep.check("Expression::Float(i)" in sn and sn.count("return Result::Err") == 2, "T-YAML", "T-YAML/single/Number-float", arms["Number"]["sp"], "float literal compares as Float; float under int() and non-i64/f64 numbers are errors", "")
    snull = show(arms["Null"]["body"]) if "Null" in arms else ""
    rep.check(snull == "Expression::BooleanExpression(<T>::new(Clone::clone(e)), BoolSym::Equal, <T>::new(Expression::Null))", "T-YAML", "T-YAML/single/Null", arms["Null"]["sp"], "null => k == Null", snull)
    smap = show(arms["Mapping"]["body"]) if "Mapping" in arms else ""
    rep.check(smap.startswith("{if <T>::is_some(misc) {return Result::Err(") and smap.endswith("Expression::Nested(ToOwned::to_owned(f), <T>::new(parser::parse_mapping(m)?))}"), "T-YAML", "T-YAML/single/Mapping", arms["Mapping"]["sp"],
              "mapping => Nested(field, conjunction of the inner mapping); not allowed under a cast/not modifier", smap[-90:])
    stag = show(arms["Tagged"]["body"]) if "Tagged" in arms else ""
    rep.check(stag.startswith("return Result::Err("), "T-YAML", "T-YAML/Tagged", arms["Tagged"]["sp"], "tagged values are rejected", stag[:60])
    if seq:
        ml = [n for n in walk(seq["body"]) if n.get("k") == "Match" and show(n["scrut"]) == "value"]
        if len(ml) == 1:
            la = {variant_of(a["pat"])[1] if variant_of(a["pat"]) else "_": a for a in ml[0]["arms"]}
            rep.check(set(la) == {"Bool", "Null", "Number", "String", "Mapping", "_"}, "T-YAML", "T-YAML/list/kinds", ml[0]["sp"], "list members: bool, null, number, string, mapping; anything else is an error", str(sorted(la)))
            lb = show(la["Bool"]["body"]) if "Bool" in la else ""
            okb = ("if let Option::Some(ModSym::Int) = misc {{number = true; <T, A>::push(rest, Expression::BooleanExpression(<T>::new(Clone::clone(unmatched_e)), BoolSym::Equal, <T>::new(Expression::Integer(if b {1} else {0}))))}}" in lb
                   and "exact, Identifier::Identifier{ignore_case: false, pattern: Pattern::Exact(ToString::to_string(b))}" in lb
                   and "Expression::BooleanExpression(<T>::new(Clone::clone(unmatched_e)), BoolSym::Equal, <T>::new(Expression::Boolean(b)))" in lb)
            rep.check(okb, "T-YAML", "T-YAML/list/Bool", la["Bool"]["sp"], "bool member: same three rows as the single value (str => exact bucket, case-sensitive)", lb[:120])
            ln = show(la["Number"]["body"]) if "Number" in la else ""
            okn = ("Expression::Integer(i)" in ln and "Expression::Float(i)" in ln and ln.count("Pattern::Exact(ToString::to_string(i))") == 2 and ln.count("return Result::Err") == 2)
            rep.check(okn, "T-YAML", "T-YAML/list/Number", la["Number"]["sp"], "number member: same rows as the single value", ln[:120])
            lnull = show(la["Null"]["body"]) if "Null" in la else ""
            rep.check("<T, A>::push(rest, Expression::BooleanExpression(<T>::new(Clone::clone(unmatched_e)), BoolSym::Equal, <T>::new(Expression::Null)))" in lnull, "T-YAML", "T-YAML/list/Null", la["Null"]["sp"], "null member => k == Null", lnull[:100])
            lm = show(la["Mapping"]["body"]) if "Mapping" in la else ""
            rep.check("<T, A>::push(rest, Expression::Nested(ToOwned::to_owned(f), <T>::new(parser::parse_mapping(m)?)))" in lm and lm.startswith("{if <T>::is_some(misc) {return Result::Err("), "T-YAML", "T-YAML/list/Mapping", la["Mapping"]["sp"],
                      "mapping member => Nested on the same field", lm[-100:])
            rep.check(show(la["String"]["body"]) == "IdentifierParser::into_identifier(Clone::clone(s))?", "T-YAML", "T-YAML/list/String", la["String"]["sp"], "string member is parsed as a pattern", show(la["String"]["body"]))
    # the single String arm parses the value as a pattern too
    if "String" in arms:
        s = show(arms["String"]["body"])
        rep.check(s.startswith("{let $identifier = IdentifierParser::into_identifier(ToOwned::to_owned(s))?;"), "T-YAML", "T-YAML/single/String", arms["String"]["sp"], "string value is parsed as a pattern", s[:90])

    # ---------------------------------------------------------------- K-MOD
    def _is_parsed_key(sc):
        r = q.resolve(pm.body, sc) if peel(sc).get("k") == "Var" else sc
        return r is not None and any(call_is(x, "parser::parse") for x in walk(r))
    km = [n for n in walk(pm.body) if n.get("k") == "Match" and _is_parsed_key(n["scrut"]) and any(pat_str(a["pat"]).startswith("Expression::Cast(") for a in n["arms"])]
    if len(km) != 1:
        rep.lost("K-MOD", "K-MOD/anchor", "match on the parsed key")
    else:
        rows = {pat_str(a["pat"]): a for a in km[0]["arms"]}
        ca = rows.get("Expression::Cast($f, $s)")
        if ca is None:
            rep.bad("K-MOD", "K-MOD/cast-arm", km[0]["sp"], "Cast arm", str(list(rows)))
        else:
            s = show(ca["body"])
            fid = strip_ref(subpat(ca["pat"], 0)).get("id")
            sid = strip_ref(subpat(ca["pat"], 1)).get("id")
            mrows = {}
            for mm in walk(ca["body"]):
                if mm.get("k") == "Match" and q.var_id(mm["scrut"]) == sid:
                    for arm in mm["arms"]:
                        t = unblock(arm["body"])
                        desc = None
                        if t.get("k") == "Tuple" and len(t["fields"]) == 2 and q.var_id(t["fields"][1]) == fid:
                            a0 = peel(t["fields"][0])
                            if a0.get("k") == "Adt" and a0["adt"] == "parser::Expression":
                                fm0 = {x["name"]: x["e"] for x in a0["fields"]}
                                keyf = peel(fm0.get("0", {}))
                                okkey = call_is(keyf, "Clone::clone") and q.var_id(keyf["args"][0]) == fid
                                if a0["variant"] == "Cast" and okkey and q.var_id(fm0.get("1", {})) == sid:
                                    desc = "Cast"
                                elif a0["variant"] == "Field" and okkey:
                                    desc = "Field"
                        for alt in or_pats(arm["pat"]):
                            vv = variant_of(alt)
                            if vv:
                                mrows[vv[1]] = desc
            okmisc = any(x.get("k") == "Assign" and show(x["lhs"]) == "misc" and "Option::Some(Clone::clone(" in show(x["rhs"]) and q.var_id(peel(peel(x["rhs"])["fields"][0]["e"])["args"][0]) == sid for x in walk(ca["body"]) if x.get("k") == "Assign" and peel(x["rhs"]).get("k") == "Adt")
            ok = okmisc and mrows == {"Flt": "Cast", "Int": "Cast", "Str": "Cast", "Not": "Field"}
            rep.check(ok, "K-MOD", "K-MOD/cast", ca["sp"], "int/flt/str(k) keep the cast on the key; not(k) compares the plain field and remembers the negation", "%s misc-recorded=%s" % (mrows, okmisc))
        ia = rows.get("Expression::Identifier($s)")
        rep.check(ia is not None and show(ia["body"]) == "(Expression::Field(Clone::clone(s)), s)", "K-MOD", "K-MOD/plain", ia["sp"] if ia else km[0]["sp"], "a plain key is Field(k)", show(ia["body"]) if ia else "-")
        ma = rows.get("Expression::Match($m, $i)")
        okm = ma is not None and "Expression::Identifier($s) => (Expression::Match(m, <T>::new(Expression::Field(Clone::clone(s)))), s)" in show(ma["body"])
        rep.check(okm, "K-MOD", "K-MOD/match", ma["sp"] if ma else km[0]["sp"], "all(k)/of(k,n) wrap Field(k) in the same quantifier", show(ma["body"])[:120] if ma else "-")
        other = [p for p in rows if p not in ("Expression::Cast($f, $s)", "Expression::Identifier($s)", "Expression::Match($m, $i)")]
        rep.check(other == ["_"] and any(x.get("k") == "Return" for x in walk(rows["_"]["body"])), "K-MOD", "K-MOD/others-rejected", km[0]["sp"], "any other key form is an error", str(other))
    okt = False
    tsite = pm.sp
    for n, npath in walk_with_path(pm.body):
        sc, brs = q.branches(n)
        eqform = False
        if n.get("k") == "If" and n.get("else") is not None and unblock(n["cond"]).get("k") in ("Call", "Binary"):
            c_ = unblock(n["cond"])
            ops = c_["args"] if c_.get("k") == "Call" and (c_.get("fn") or "").endswith("PartialEq::eq") and len(c_["args"]) == 2 else ([c_["lhs"], c_["rhs"]] if c_.get("k") == "Binary" and c_.get("op") == "Eq" else [])
            if len(ops) == 2 and any("Option<tokeniser::ModSym>" in str(peel(o).get("ty", "")) and peel(o).get("k") in ("Var", "Upvar") for o in ops) and any(show(o) == "Option::Some(ModSym::Not)" for o in ops):
                eqform = True
                brs = [(None, n["then"]), (None, n["else"])]
        if not eqform and (sc is None or "Option<tokeniser::ModSym>" not in str(sc.get("ty", "")) or len(brs) != 2):
            continue
        (p0, b0), (p1, b1) = brs
        if (eqform or (p0 is not None and pat_str(p0) == "Option::Some(ModSym::Not)" and (p1 is None or variant_of(p1) == ("Option", "None")))) and b1 is not None:
            tsite = n["sp"]
            # what reaches the entry vector in each branch: the branch pushes it, or the branch is the pushed value
            def pushed(b_):
                b_ = unblock(b_)
                c_ = b_
                while c_.get("k") == "Block" and len(c_["stmts"]) + (1 if c_.get("expr") is not None else 0) == 1:
                    c_ = unblock(c_["stmts"][0]["e"] if c_["stmts"] else c_["expr"])
                if call_is(c_, "::push"):
                    return peel(c_["args"][1]), q.base_var(c_["args"][0])
                par = npath[-1] if npath else {}
                if call_is(par, "::push") and peel(par["args"][1]) is n:
                    return peel(b_), q.base_var(par["args"][0])
                return None, None
            v0, t0 = pushed(b0)
            v1, t1 = pushed(b1)
            if v0 is not None and v1 is not None and t0 == t1 and t0 is not None:
                inner = peel(v0["fields"][0]["e"]) if v0.get("k") == "Adt" and v0["adt"] == "parser::Expression" and v0["variant"] == "Negate" else {}
                inner = peel(inner["args"][0]) if inner.get("k") == "Call" and (inner.get("fn") or "").endswith("Box::<T>::new") else {}
                okt = inner.get("k") == "Var" and v1.get("k") == "Var" and inner["id"] == v1["id"]
    rep.check(okt, "K-MOD", "K-MOD/not-negates-entry", tsite, "not(k): the whole entry is negated; otherwise it is used as is", "")
    # keys with spaces are re-joined
    joins = [x for x in walk(pm.body) if x.get("k") == "Adt" and x["adt"].endswith("tokeniser::Token") and x["variant"] == "Identifier"
             and call_is(peel(x["fields"][0]["e"]), "::join") and lit(peel(x["fields"][0]["e"])["args"][1]) == ("s", " ")]
    import keymodel
    krows, kun = keymodel.evaluate(F, pm)
    if krows is None:
        # outside the evaluator's subset: the structural form (a `join(" ")` feeding an Identifier token) decides
        rep.note("key-merging model not applicable (%s); structural rule decides" % kun)
        rep.check(len(joins) >= 1, "K-MOD", "K-MOD/keys-with-spaces", pm.sp, "identifier tokens split at spaces are joined back with a space", "%d join sites; model: %s" % (len(joins), kun))
    else:
        kbad = [r for r in krows if not r[3]]
        rep.check(not kbad, "K-MOD", "K-MOD/keys-with-spaces", pm.sp, "the tokens handed to the key parser are the key's tokens with every run of identifiers joined by single spaces (all %d token vectors up to length 4)" % len(krows),
                  None if not kbad else "tokens %s -> %s, expected %s" % (list(kbad[0][0]), kbad[0][2], kbad[0][1]))
        rep.extra["key_model_vectors"] = len(krows)

    # ---------------------------------------------------------------- T-IDENT-CLASS: which characters make up a field name
    rep.describe("T-IDENT-CLASS", "an identifier token is a maximal run of alphanumerics, '_', '.', '#', '[' and ']' (so a key such as a.b[0] or ticket#id is one name)")
    tkf = F.fn("<std::string::String as tokeniser::Tokeniser>::tokenise")
    if tkf is None:
        rep.lost("T-IDENT-CLASS", "T-IDENT-CLASS/anchor", "String::tokenise")
    else:
        import c04 as _c04
        nid = 0
        for n_ in walk(tkf.body):
            if not (call_is(n_, "tokeniser::consume_while") and len(n_["args"]) == 2 and peel(n_["args"][1]).get("k") == "Closure"):
                continue
            # the run that becomes Token::Identifier (directly or through a let)
            feeds = False
            for x in walk(tkf.body):
                if x.get("k") == "Adt" and x.get("adt", "").endswith("tokeniser::Token") and x.get("variant") == "Identifier":
                    src = x["fields"][0]["e"]
                    r_ = q.resolve(tkf.body, src) if peel(src).get("k") == "Var" else src
                    if r_ is not None and any(y is n_ for y in walk(r_)):
                        feeds = True
            if not feeds:
                continue
            nid += 1
            try:
                pred = _c04.char_pred(F, peel(n_["args"][1])["def"])
                acc = "aZq09_.#[]" + "\u00e9"
                rej = " ()=<>-*?'\",:;/\\!@$%^&+|~`{}\t\n"
                wrong = [c for c in acc if not pred(c)] + [c for c in rej if pred(c)]
                rep.check(not wrong, "T-IDENT-CLASS", "T-IDENT-CLASS/run#%d" % nid, n_["sp"], "the identifier run takes exactly the name characters", "misclassified: %r" % wrong if wrong else None)
            except (ValueError, TypeError) as e:
                rep.lost("T-IDENT-CLASS", "T-IDENT-CLASS/run#%d" % nid, "identifier predicate is a char-class expression", str(e)[:120])
        rep.check(nid >= 1, "T-IDENT-CLASS", "T-IDENT-CLASS/sites", tkf.sp, "the consume_while run that becomes Token::Identifier", str(nid))

    # the identifier character class is part of the token grammar: when the tokeniser model (C05) covers it, it decides
    core.import_rules(rep, "c05", {"TOK-MODEL"})
    _tm = [i for i in rep.instances if i.rule == "TOK-MODEL"]
    core.model_decides(rep, len(_tm) >= 140 and all(i.status == "discharged" for i in _tm), {"T-IDENT-CLASS"}, "identifier characters decided by the tokeniser model")

    # ---------------------------------------------------------------- T-CONJ
    # the entry vector: the one the and-group result is built from
    evs = {q.var_id(f["e"]) for n in walk(pm.body) if n.get("k") == "Adt" and n["adt"] == "parser::Expression" and n["variant"] == "BooleanGroup" and any(peel(g["e"]).get("variant") == "And" for g in n["fields"])
           for f in n["fields"] if f["name"] == "1" and not any(p_.get("k") in ("For", "Loop") for nn, pp in walk_with_path(pm.body) if nn is n for p_ in pp)} - {None}
    ev = sorted(evs)[-1] if evs else None

    def one_left(n, path):
        """the entry vector is known to hold exactly one entry here"""
        for e in q.context(path, n):
            if e[0] == "arm" and call_is(peel(e[2]), "::len") and q.base_var(peel(e[2])["args"][0]) == ev and strip_ref(e[1]).get("k") == "Const" and strip_ref(e[1])["v"].split("_")[0] == "1":
                return True
            if e[0] == "if" and e[2] and any(peel(c).get("k") == "Binary" and peel(c)["op"] == "Eq" and call_is(peel(peel(c)["lhs"]), "::len") and q.base_var(peel(peel(c)["lhs"])["args"][0]) == ev and lit(peel(c)["rhs"]) == ("i", 1) for c in q.conj(e[1])):
                return True
        return False
    uses = []
    for n, path in walk_with_path(pm.body):
        if n.get("k") == "Call" and n.get("args") and q.base_var(n["args"][0]) == ev and ev is not None and n.get("fn"):
            nm = n["fn"].split("::")[-1]
            uses.append("pop(the only entry)" if nm == "pop" and one_left(n, path) else nm)
    rep.check(set(uses) <= {"push", "is_empty", "len", "into_iter", "pop(the only entry)"} and uses.count("push") >= 1, "T-CONJ", "T-CONJ/mapping-vector", pm.sp, "the entry vector is only appended to (no reordering, no removal)", str(sorted(set(uses))))
    map_id = strip_ref(pm.thir["params"][0]["pat"]).get("id")
    fl = [n for n in walk(pm.body) if n.get("k") == "For" and q.base_var(n["iter"]) == map_id]
    okf = len(fl) == 1 and all(any(l is fl[0] for l in p) for n, p in walk_with_path(pm.body) if call_is(n, "::push") and q.base_var(n["args"][0]) == ev)
    rep.check(okf, "T-CONJ", "T-CONJ/in-order", fl[0]["sp"] if fl else pm.sp, "entries are appended while iterating the mapping in its own order", "")
    # results of parse_mapping: Ok(and-group of the entries) in general, Ok(the entry) for exactly one entry
    oks = [n for n in walk(pm.body) if n.get("k") == "Adt" and n["adt"].endswith("result::Result") and n["variant"] == "Ok" and not any(p for p in ())]
    tails = []
    for n, path in walk_with_path(pm.body):
        if n.get("k") == "Adt" and n["adt"].endswith("result::Result") and n["variant"] == "Ok" and not any(p.get("k") in ("For", "Loop", "Closure") for p in path):
            tails.append((n, path))
    def _is_group(n):
        g = peel(n["fields"][0]["e"])
        return g.get("k") == "Adt" and g.get("adt") == "parser::Expression" and g.get("variant") == "BooleanGroup" and show(g["fields"][0]["e"]) == "BoolSym::And" and q.var_id(g["fields"][1]["e"]) == ev

    def _is_single(n):
        x = peel(n["fields"][0]["e"])
        if not (x.get("k") == "Call" and (x.get("fn") or "").endswith(("::expect", "::unwrap")) and x["args"]):
            return False
        y = peel(x["args"][0])
        if call_is(y, "Iterator::next") and call_is(peel(y["args"][0]), "IntoIterator::into_iter"):
            return q.base_var(peel(y["args"][0])["args"][0]) == ev
        return call_is(y, "::pop") and q.base_var(y["args"][0]) == ev
    grp = [n for n, _ in tails if _is_group(n)]
    one = [(n, p) for n, p in tails if _is_single(n)]
    rep.check(len(grp) == 1 and len(tails) == 2, "T-CONJ", "T-CONJ/mapping-is-and", pm.sp, "a mapping with several entries is the and-group of them (the only other Ok result is the single entry)", "; ".join(show(n)[:70] for n, _ in tails))
    ok1 = False
    if len(one) == 1:
        n1, p1 = one[0]
        ctx1 = q.context(p1, n1)
        ok1 = one_left(n1, p1)
    rep.check(ok1, "T-CONJ", "T-CONJ/single-entry", pm.sp, "a one-entry mapping is that entry (taken only when the length is 1)", "")
    pi = F.fn("parser::parse_identifier")
    if pi is None:
        rep.lost("T-CONJ", "T-CONJ/parse_identifier", "parser::parse_identifier")
    else:
        s = show(pi.body)
        import keymodel as _km
        srows, sun = _km.evaluate_sequence(F, pi)
        if srows is None:
            rep.note("sequence model not applicable (%s); structural rule decides" % sun)
            rep.check(sequence_is_or(pi), "T-CONJ", "T-CONJ/sequence-is-or", pi.sp, "a sequence of mappings is the or-group of its entries in order", "model: %s" % sun)
        else:
            sbad = [r for r in srows if not r[3]]
            rep.check(not sbad, "T-CONJ", "T-CONJ/sequence-is-or", pi.sp,
                      "a sequence is Ok(or-group of its parsed entries in order) iff it is non-empty, holds only mappings and every entry parses (%d model sequences)" % len(srows),
                      None if not sbad else "entries %s failing %s -> %s, expected %s" % (["mapping" if x else "other" for x in sbad[0][0][0]], list(sbad[0][0][1]), str(sbad[0][2])[:80], str(sbad[0][1])[:80]))
        m = unblock(pi.body)
        top = [pat_str(a["pat"]) for a in m["arms"]] if m.get("k") == "Match" else []
        rep.check(top == ["&Value::Mapping($m)", "&Value::Sequence($s)", "_"], "T-CONJ", "T-CONJ/identifier-kinds", pi.sp, "an identifier is a mapping or a sequence of mappings; anything else is an error", str(top))

    # ---------------------------------------------------------------- MISSING
    nf = 0
    for fname in ("solver::solve_expression", "solver::match_all", "solver::match_of"):
        f = F.fn(fname)
        if f is None:
            rep.lost("MISSING", "MISSING/anchor/" + fname, fname)
            continue
        for n, path in walk_with_path(f.body):
            if n.get("k") == "Call" and n.get("fn") and (n["fn"].endswith("Document::find") or n["fn"].endswith("Object::find")) and not n.get("exp"):
                nf += 1
                fb = q.failure_branch(f.body, n)
                key = "MISSING/%s#%d" % (fname.split("::")[-1], nf)
                if fb is None:
                    # handed on unchanged (Passthrough(value)): its own find site is one of the others
                    ok = any(p.get("k") == "Block" for p in path) and any(x.get("k") == "Adt" and x["adt"] == "solver::Passthrough" for x in walk([p for p in path if p.get("k") == "Block"][-1]))
                    rep.check(ok, "MISSING", key, n["sp"], "the lookup result is passed on unchanged to the private Passthrough document", show(n)[:60])
                    continue
                b = show(fb) if isinstance(fb, dict) else str(fb)
                fbb = facts.only(fb) if isinstance(fb, dict) else {}
                row_missing = False
                from show import is_debug_stmt
                real = [st for st in fbb.get("stmts", []) if not (st["k"] == "Expr" and is_debug_stmt(st["e"]))] if fbb.get("k") == "Block" else []
                if isinstance(fb, dict) and len(real) == 2:
                    a0, a1 = peel(real[0].get("e") or {}), peel(real[1].get("e") or {})
                    row_missing = a0.get("k") == "Assign" and q.is_sr(a0["rhs"], "Missing") and a1.get("k") == "Break"
                ok = isinstance(fb, dict) and (q.returns_sr(fb, "Missing") or row_missing)
                rep.check(ok, "MISSING", key, n["sp"], "absent field => Missing (or a Missing row in a matrix)", b[:80])
    rep.check(nf >= 20, "MISSING", "MISSING/sites", "src/solver.rs", "at least twenty lookup sites", str(nf))
    mismatch_siblings(rep, F)
    core.import_rules(rep, "c06", {"TRI-AND", "TRI-OR", "TRI-NOT", "TRI-ALL", "TRI-OF", "TRI-VERDICT"})
    core.import_rules(rep, "c10", {"T-FIND", "STEP-TOTAL", "INDEX", "T-NESTED", "NESTED-MODEL"})
    core.import_rules(rep, "c10", {"NO-OVERRIDE"})
    core.import_rules(rep, "c07", {"T-PATTERN", "T-SEARCH", "FLAG", "PLAIN-CASE", "AHO-OVERLAP", "T-OFFSET", "LOCKSTEP", "LOWERCASE", "IDENT-MODEL"})
    rep.floor("T-LOWER", 40)
    rep.floor("OPERAND", 30)
    rep.floor("T-YAML", 14)
    rep.floor("K-MOD", 7)
    rep.floor("T-CONJ", 6)
    rep.floor("MISSING", 20)
    rep.exhaustive = True
    rep.assumptions.append("text-equality rows of T-YAML/K-MOD are on small constructor expressions; a behaviour-preserving rewrite of one of them is reported for re-review")
    rep.assumptions.append("composition of constructs beyond these tables, and everything owned by C05-C10, is decided there, not here")
