"""Canonical, compact text rendering of (normalised) THIR nodes.

Borrow/Deref/Coerce adjustments are transparent by default; paths are shortened to their last two
segments; variables print as their source name.  Used for samples, for sibling comparison (two
renderings equal modulo a declared renaming) and for the configuration diff.
"""
from facts import pat_str

TRANSPARENT = ("Borrow", "Deref", "Coerce", "ByUse", "RawBorrow")


def short(path):
    if not path:
        return "?"
    # strip generic arguments inside <...> for readability but keep impl self types
    parts = []
    depth = 0
    cur = ""
    for ch in path:
        if ch == "<":
            depth += 1
        if ch == ">":
            depth -= 1
        if ch == ":" and depth == 0:
            if cur:
                parts.append(cur)
            cur = ""
            continue
        cur += ch
    if cur:
        parts.append(cur)
    parts = [p for p in parts if p]
    return "::".join(parts[-2:])


def is_debug_stmt(n):
    """A statement produced by tracing's debug!/event! macros."""
    for e in (n.get("exp") or []):
        if "macro:Bang:debug" in e or "macro:Bang:$crate::event" in e or "macro:Bang:tracing::" in e:
            return True
    return False


def show(n, ren=None, keep_adjust=False, skip_debug=True):
    ren = ren or {}

    def nm(x):
        return ren.get(x, x)

    def go(n):
        if n is None:
            return "∅"
        if isinstance(n, list):
            return ", ".join(go(x) for x in n)
        k = n.get("k")
        if k in TRANSPARENT:
            if keep_adjust:
                return {"Borrow": "&", "Deref": "*", "Coerce": "", "ByUse": "", "RawBorrow": "&raw "}[k] + go(n["arg"])
            return go(n["arg"])
        if k in ("Var", "Upvar"):
            return nm(n["name"])
        if k == "Lit":
            v = n["v"]
            tag, _, rest = v.partition(":")
            if tag == "s":
                return '"' + rest.replace("\\", "\\\\").replace('"', '\\"') + '"'
            if tag == "c":
                return "'" + rest + "'"
            return ("-" if n.get("neg") else "") + rest if rest or tag in ("i", "f", "bool") else v
        if k == "Call":
            fn = n.get("fn") or ""
            if any("macro:Bang:format" in e or "macro:Bang:$crate::format" in e or "format_args" in e for e in (n.get("exp") or [])) and not keep_adjust:
                return "format!(..)"
            if "panicking::panic" in fn or fn.endswith(("::begin_panic", "rt::panic_fmt", "rt::panic_display")):
                return "panic!()"
            f = short(fn) if fn else "(" + go(n.get("fun")) + ")"
            if fn.endswith(("::expect", "::expect_err")) and len(n["args"]) == 2:
                return f + "(" + go(n["args"][0]) + ', "..")'
            return f + "(" + ", ".join(go(a) for a in n["args"]) + ")"
        if k == "Adt":
            name = n["adt"].split("::")[-1] + "::" + n["variant"]
            if not n["fields"]:
                return name
            if all(f["name"].isdigit() for f in n["fields"]):
                fs = sorted(n["fields"], key=lambda f: int(f["name"]))
                return name + "(" + ", ".join(go(f["e"]) for f in fs) + ")"
            return name + "{" + ", ".join("%s: %s" % (f["name"], go(f["e"])) for f in n["fields"]) + "}"
        if k == "Block":
            parts = []
            for s in n["stmts"]:
                if s["k"] == "Expr":
                    if skip_debug and is_debug_stmt(s["e"]):
                        continue
                    parts.append(go(s["e"]))
                else:
                    t = "let " + pat_str(s["pat"])
                    if s.get("init"):
                        t += " = " + go(s["init"])
                    if s.get("else"):
                        t += " else " + go(s["else"])
                    parts.append(t)
            if n.get("expr"):
                parts.append(go(n["expr"]))
            if len(parts) == 1:
                return parts[0]
            return "{" + "; ".join(parts) + "}"
        if k == "Match":
            arms = []
            for a in n["arms"]:
                t = pat_str(a["pat"])
                if a.get("guard"):
                    t += " if " + go(a["guard"])
                arms.append(t + " => " + go(a["body"]))
            return "match " + go(n["scrut"]) + " {" + ", ".join(arms) + "}"
        if k == "If":
            t = "if " + go(n["cond"]) + " {" + go(n["then"]) + "}"
            if n.get("else"):
                t += " else {" + go(n["else"]) + "}"
            return t
        if k == "LetCond":
            return "let " + pat_str(n["pat"]) + " = " + go(n["arg"])
        if k == "Logical":
            return "(" + go(n["lhs"]) + {"And": " && ", "Or": " || "}[n["op"]] + go(n["rhs"]) + ")"
        if k == "Binary":
            return "(" + go(n["lhs"]) + " " + n["op"] + " " + go(n["rhs"]) + ")"
        if k == "Unary":
            return n["op"] + "(" + go(n["arg"]) + ")"
        if k == "Cast":
            return "(" + go(n["arg"]) + " as " + n["ty"] + ")"
        if k == "Assign":
            return go(n["lhs"]) + " = " + go(n["rhs"])
        if k == "AssignOp":
            return go(n["lhs"]) + " " + n["op"] + " " + go(n["rhs"])
        if k == "Field":
            return go(n["arg"]) + "." + n["name"]
        if k == "Index":
            return go(n["arg"]) + "[" + go(n["index"]) + "]"
        if k == "Return":
            return "return " + (go(n["value"]) if n.get("value") else "")
        if k == "Break":
            return "break" + (" " + go(n["value"]) if n.get("value") else "")
        if k == "Continue":
            return "continue"
        if k == "Loop":
            return "loop " + go(n["body"])
        if k == "For":
            return "for " + pat_str(n["pat"]) + " in " + go(n["iter"]) + " {" + go(n["body"]) + "}"
        if k == "Try":
            return go(n["arg"]) + "?"
        if k in ("Tuple", "Array"):
            b = "()" if k == "Tuple" else "[]"
            return b[0] + ", ".join(go(f) for f in n["fields"]) + b[1]
        if k == "Closure":
            return "|closure " + n["def"].split("::")[-1] + "|"
        if k == "Zst":
            return short(n.get("fn")) if n.get("fn") else "zst"
        if k in ("Const", "Static", "ConstParam"):
            return short(n["path"])
        if k == "Repeat":
            return "[" + go(n["value"]) + "; " + n["count"] + "]"
        return "<" + str(k) + ">"

    import alpha
    return alpha.S(go(n))


def show_fn(fn, **kw):
    """Whole function: parameters are listed as binders so that renaming a parameter is a consistent renaming."""
    ps = []
    for p in fn.thir["params"]:
        pt = p.get("pat")
        ps.append(pat_str(pt) if pt else "_")
    import alpha
    return alpha.S("fn(" + ", ".join(ps) + ") " + str(show(fn.body, **kw)))
