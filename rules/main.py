"""CLI: check <Cxx> [--tier quick|thorough] [--replay FILE]"""
import importlib
import json
import os
import sys
import traceback

sys.path.insert(0, os.path.dirname(os.path.abspath(__file__)))
import core
import facts


def main(argv):
    if not argv:
        print("usage: check Cxx [--tier quick|thorough] [--replay FILE]")
        return 2
    pid = argv[0]
    tier = os.environ.get("VERIF_TIER", "quick")
    replay = None
    i = 1
    while i < len(argv):
        if argv[i] == "--tier":
            tier = argv[i + 1]
            i += 2
        elif argv[i] == "--replay":
            replay = argv[i + 1]
            i += 2
        else:
            i += 1
    if tier not in ("quick", "thorough"):
        tier = "quick"
    try:
        mod = importlib.import_module(pid.lower())
    except ImportError:
        print("no check for", pid)
        return 2
    rep = core.Report(pid, tier)
    rep.trusted = list(core.COMMON_TRUST)
    rep.assumptions = list(core.COMMON_ASSUME)
    try:
        mod.run(rep)
    except facts.BuildError as e:
        # nothing could be analysed: not a verdict
        print("BUILD-ERROR: %s" % e)
        return 2
    except Exception:
        traceback.print_exc()
        rep.lost("INTERNAL", "INTERNAL/" + pid, "checker crashed (fail closed)", traceback.format_exc()[-1500:])
    key = None
    if replay:
        with open(replay) as f:
            key = json.load(f)["instance"]["key"]
    rc = rep.finish(replay_key=key)
    n = len(rep.instances)
    d = sum(1 for x in rep.instances if x.status == "discharged")
    print("%s tier=%s: %d rule instances, %d discharged, exit %d (%.1fs)" % (pid, tier, n, d, rc, rep.t0 and (__import__('time').time() - rep.t0)))
    return rc


if __name__ == "__main__":
    sys.exit(main(sys.argv[1:]))
