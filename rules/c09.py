"""C09 Numeric comparisons and casts.

T-CMP   the comparison table of solve_expression, arm by arm, against the spec (operator named by the
        BoolSym, operands in order, mixed signed/unsigned arms guarded, one `=> false` catch-all per operator)
LOSSY   every numeric `as` cast in the crate is lossless, precision-only, constant, or dominated by a range guard
T-CAST  operand extraction blocks: absent => Missing, inconvertible => False, string parsed at the cast's type;
        left and right blocks are siblings (equal modulo renaming)
T-NUM   numeric pattern syntax in into_identifier: contains('.') => f64 else i64, parse errors mapped to Err
T-STR   str() == str() compares Value::to_string of both sides
"""
import re

import facts
import q
from facts import unblock, walk, walk_with_path, peel, call_is, variant_of, strip_ref, pat_str, subpat, lit, or_pats
from show import show

OPS = {"Equal": "Eq", "GreaterThan": "Gt", "GreaterThanOrEqual": "Ge", "LessThan": "Lt", "LessThanOrEqual": "Le"}
INTS = {"u8": (0, 8), "u16": (0, 16), "u32": (0, 32), "u64": (0, 64), "usize": (0, 64), "i8": (1, 8), "i16": (1, 16), "i32": (1, 32), "i64": (1, 64), "isize": (1, 64)}
FLOATS = {"f32": 32, "f64": 64}
# the files that implement matching and value conversion (the optimiser's index casts belong to C01/C03)
LOSSY_FILES = ("src/solver.rs", "src/value.rs", "src/json.rs", "src/yaml.rs", "src/document.rs", "src/identifier.rs", "src/lib.rs")


def is_const_expr(n):
    n = peel(n)
    return n.get("k") in ("Const", "Lit") or (n.get("k") == "Cast" and is_const_expr(n["arg"])) or (n.get("k") == "Unary" and is_const_expr(n["arg"]))


def same_value(a, b):
    """Both are the same variable (possibly through derefs)."""
    ia, ib = q.var_id(a), q.var_id(b)
    return ia is not None and ia == ib


def const_cast(n, path_suffix, to):
    n = peel(n)
    return n.get("k") == "Cast" and n.get("ty") == to and peel(n["arg"]).get("k") == "Const" and peel(n["arg"])["path"].endswith(path_suffix)


def classify_cast(n, ctx):
    """Returns (ok, category, detail)."""
    frm, to = n["from"], n["ty"]
    arg = n["arg"]
    if is_const_expr(arg):
        return True, "constant", ""
    if frm == to:
        return True, "identity", ""
    if frm == "bool" and to in INTS:
        return True, "bool->int", ""
    if frm == "char" and to in ("u32", "u64", "i64", "usize"):
        return True, "char->int", ""
    if frm in FLOATS and to in FLOATS:
        return (FLOATS[to] >= FLOATS[frm]), "float widening" if FLOATS[to] >= FLOATS[frm] else "float narrowing", ""
    if frm in INTS and to in FLOATS:
        return True, "int->float (precision only)", ""
    facts_true = q.true_facts(ctx)
    if frm in INTS and to in INTS:
        (s1, w1), (s2, w2) = INTS[frm], INTS[to]
        if s1 == s2 and w2 >= w1:
            return True, "widening", ""
        if s1 == 0 and s2 == 1 and w2 > w1:
            return True, "widening", ""
        if s1 == 0 and s2 == 1 and w2 == w1:
            # unsigned -> signed of the same width: needs v <= iN::MAX as uN
            for f in facts_true:
                f = peel(f)
                if f.get("k") == "Binary" and f["op"] in ("Le", "Lt") and same_value(f["lhs"], arg) and const_cast(f["rhs"], "<impl %s>::MAX" % to, frm):
                    return True, "guarded u->i", show(f)
            return False, "unguarded unsigned->signed", "no dominating `v <= %s::MAX as %s`" % (to, frm)
        if s1 == 1 and s2 == 0:
            for f in facts_true:
                f = peel(f)
                if f.get("k") == "Binary" and f["op"] in ("Ge", "Gt") and same_value(f["lhs"], arg) and lit(f["rhs"]) in (("i", 0), ("i", -1)):
                    return True, "guarded i->u", show(f)
            return False, "unguarded signed->unsigned", "no dominating `v >= 0`"
        return False, "narrowing", "%s -> %s" % (frm, to)
    if frm in FLOATS and to in INTS:
        lo = hi = None
        for f in facts_true:
            f = peel(f)
            if f.get("k") != "Binary" or not same_value(f["lhs"], arg):
                continue
            if f["op"] in ("Ge",) and const_cast(f["rhs"], "<impl %s>::MIN" % to, frm):
                lo = f
            if f["op"] in ("Lt",) and const_cast(f["rhs"], "<impl %s>::MAX" % to, frm):
                hi = f
        if lo is not None and hi is not None:
            return True, "guarded float->int", show(lo) + " && " + show(hi)
        return False, "unguarded float->int", "NaN / out-of-range values saturate silently; needs `v >= %s::MIN as %s && v < %s::MAX as %s`" % (to, frm, to, frm)
    return False, "unclassified cast", "%s -> %s" % (frm, to)


def run(rep):
    F = facts.load("A")
    rep.configs = ["A(core,json)"]
    rep.explanation = (
        "The numeric semantics live in three finite tables of solve_expression (operand extraction per cast kind x value kind, the "
        "comparison table per operator x value-kind pair) and in the `as` casts of the crate.  The check extracts the tables from the "
        "typed tree and compares every arm with the specification (Rust operator named by the BoolSym applied to the operands in order; "
        "mixed signed/unsigned arms guarded by `u <= i64::MAX as u64` on exactly the unsigned operand; one `=> false` catch-all per "
        "operator), classifies every numeric cast (lossless / precision-only / constant / range-guarded) and cross-checks the left and "
        "right operand blocks as siblings.  With the primitive operators trusted this decides 'true only when the relation holds, no "
        "wrap-around' for the comparison step; it does not decide string->number parsing done by std."
    )
    se = F.fn("solver::solve_expression")
    if se is None:
        rep.lost("T-CMP", "T-CMP/anchor", "solver::solve_expression")
        return
    # ---------------------------------------------------------------- T-CMP
    rep.describe("T-CMP", "each arm (Value::K1 x, BoolSym::Op, Value::K2 y) computes x <Op> y with the Rust operator of Op; cross arms are guarded and cast the unsigned operand; one catch-all false per Op")
    cmpm = None
    for n in walk(se.body):
        if n.get("k") == "Match" and peel(n["scrut"]).get("k") == "Tuple" and len(n["arms"]) >= 10 and n["ty"] == "bool":
            cmpm = n
    if cmpm is None:
        rep.lost("T-CMP", "T-CMP/anchor-table", "the (x, op, y) comparison match")
    else:
        sc = peel(cmpm["scrut"])["fields"]
        per_op = {}
        seen_wild = set()
        for idx, a in enumerate(cmpm["arms"]):
            p = strip_ref(a["pat"])
            ps = pat_str(a["pat"])
            if p.get("k") == "Wild":
                body = peel(a["body"])
                isp = facts._panics(body) is not None
                rep.check(idx == len(cmpm["arms"]) - 1 and isp, "T-CMP", "T-CMP/final-arm", a["sp"], "the final `_` arm is last and unreachable", show(body)[:60])
                continue
            if p.get("k") != "Leaf" or len(p["sub"]) != 3:
                rep.bad("T-CMP", "T-CMP/shape/" + ps, a["sp"], "arm is a (value, op, value) triple", ps)
                continue
            k1, opp, k2 = (subpat(p, 0), subpat(p, 1), subpat(p, 2))
            opv = variant_of(opp)
            if not opv or opv[0] != "BoolSym" or opv[1] not in OPS:
                rep.bad("T-CMP", "T-CMP/op/" + ps, a["sp"], "operator position names one comparison BoolSym", ps)
                continue
            op = opv[1]
            key = "T-CMP/%s" % ps
            if op in seen_wild:
                rep.bad("T-CMP", key, a["sp"], "no arm for %s after its catch-all" % op, "shadowed arm")
                continue
            v1, v2 = variant_of(k1), variant_of(k2)
            body = unblock(a["body"])
            if strip_ref(k1).get("k") == "Wild" and strip_ref(k2).get("k") == "Wild":
                seen_wild.add(op)
                rep.check(lit(body) == ("bool", False) and not a.get("guard"), "T-CMP", key, a["sp"], "catch-all for %s is false" % op, show(body))
                continue
            if not v1 or not v2 or v1[0] != "Value" or v2[0] != "Value":
                rep.bad("T-CMP", key, a["sp"], "operands are Value::K patterns", ps)
                continue
            K1, K2 = v1[1], v2[1]
            b1, b2 = strip_ref(subpat(k1, 0)), strip_ref(subpat(k2, 0))
            if not b1 or not b2 or b1.get("k") != "Bind" or b2.get("k") != "Bind":
                rep.bad("T-CMP", key, a["sp"], "payloads are bound", ps)
                continue
            x, y = b1["id"], b2["id"]
            per_op.setdefault(op, []).append((K1, K2))
            ok = False
            detail = show(a["body"]) + (" if " + show(a["guard"]) if a.get("guard") else "")
            if body.get("k") == "Binary" and body["op"] == OPS[op]:
                L, R = peel(body["lhs"]), peel(body["rhs"])
                if K1 == K2 and K1 in ("Float", "Int", "UInt") or (K1 == K2 == "Bool" and op == "Equal"):
                    ok = q.var_id(L) == x and q.var_id(R) == y and not a.get("guard")
                elif (K1, K2) == ("UInt", "Int"):
                    g = peel(a["guard"]) if a.get("guard") else None
                    gok = bool(g) and g.get("k") == "Binary" and g["op"] == "Le" and q.var_id(g["lhs"]) == x and const_cast(g["rhs"], "i64>::MAX", "u64")
                    ok = gok and L.get("k") == "Cast" and L["ty"] == "i64" and q.var_id(L["arg"]) == x and q.var_id(R) == y
                elif (K1, K2) == ("Int", "UInt"):
                    g = peel(a["guard"]) if a.get("guard") else None
                    gok = bool(g) and g.get("k") == "Binary" and g["op"] == "Le" and q.var_id(g["lhs"]) == y and const_cast(g["rhs"], "i64>::MAX", "u64")
                    ok = gok and R.get("k") == "Cast" and R["ty"] == "i64" and q.var_id(R["arg"]) == y and q.var_id(L) == x
            rep.check(ok, "T-CMP", key, a["sp"], "(%s x, %s, %s y) => x %s y (guarded, cast on the unsigned side only)" % (K1, op, K2, OPS[op]), detail)
        for op in OPS:
            rep.check(op in seen_wild, "T-CMP", "T-CMP/total/" + op, cmpm["sp"], "operator %s has a `(_, %s, _) => false` catch-all (so the final unreachable arm is dead)" % (op, op), "")
            have = set(per_op.get(op, []))
            need = {("Float", "Float"), ("Int", "Int"), ("UInt", "UInt"), ("UInt", "Int"), ("Int", "UInt")}
            rep.check(need <= have, "T-CMP", "T-CMP/complete/" + op, cmpm["sp"], "operator %s has arms for Float, Int, UInt and both mixed pairs" % op, "missing %s" % sorted(need - have))
        # scrutinee: (x from left, *op, y from right)
        ok = len(sc) == 3 and q.var_id(sc[0]) is not None and q.var_id(sc[2]) is not None and show(sc[1]) == "op"
        rep.check(ok, "T-CMP", "T-CMP/scrutinee", cmpm["sp"], "table is indexed by (left value, the node's operator, right value)", show(cmpm["scrut"]))
        # the values come from left and right respectively
        lets = {}
        for n in walk(se.body):
            if n.get("k") == "Block":
                for s in n["stmts"]:
                    if s["k"] == "Let" and s["pat"].get("k") == "Bind" and s.get("init") and peel(s["init"]).get("k") == "Match":
                        lets[s["pat"]["id"]] = s
        for pos, want in ((0, "left"), (2, "right")):
            s = lets.get(q.var_id(sc[pos]))
            src = show(peel(s["init"])["scrut"]) if s else "?"
            rep.check(bool(s) and src in ("AsRef::as_ref(%s)" % want, want), "T-CMP", "T-CMP/operand-source/" + want, cmpm["sp"], "table operand %d is extracted from `%s`" % (pos, want), src)
    rep.floor("T-CMP", 31 + 1 + 10 + 3)

    # ---------------------------------------------------------------- T-CAST + sibling
    rep.describe("T-CAST", "operand extraction: find()==None => Missing; non-numeric / failed parse / out of range => False; String parsed at the cast's own type; Bool => 1/0")
    rep.describe("SIBLING-LR", "the left and right operand extraction blocks are equal modulo renaming")
    blocks = {}
    for n in walk(se.body):
        if n.get("k") == "Block":
            for s in n["stmts"]:
                if s["k"] == "Let" and s.get("init") and peel(s["init"]).get("k") == "Match":
                    m = peel(s["init"])
                    src = show(m["scrut"])
                    if src in ("AsRef::as_ref(left)", "AsRef::as_ref(right)") and len(m["arms"]) >= 5:
                        blocks[src[14:-1]] = m
    if set(blocks) != {"left", "right"}:
        rep.lost("T-CAST", "T-CAST/anchor", "left and right operand extraction matches", str(list(blocks)))
    else:
        for side, m in sorted(blocks.items()):
            for a in m["arms"]:
                ps = pat_str(a["pat"])
                v = variant_of(a["pat"])
                key = "T-CAST/%s/%s" % (side, ps)
                if strip_ref(a["pat"]).get("k") == "Wild":
                    rep.check(q.returns_sr(a["body"], "False"), "T-CAST", key, a["sp"], "any other operand kind => False", show(a["body"])[:80])
                    continue
                if v and v[1] in ("Boolean", "Float", "Integer"):
                    want = {"Boolean": "Bool", "Float": "Float", "Integer": "Int"}[v[1]]
                    b = peel(a["body"])
                    ok = b.get("k") == "Adt" and b["adt"].endswith("Value") and b["variant"] == want and q.var_id(b["fields"][0]["e"]) == strip_ref(subpat(a["pat"], 0)).get("id")
                    rep.check(ok, "T-CAST", key, a["sp"], "literal operand becomes Value::%s of the same payload" % want, show(a["body"]))
                    continue
                if v and v[1] in ("Field", "Cast"):
                    cast = None
                    if v[1] == "Cast":
                        cv = variant_of(subpat(a["pat"], 1))
                        cast = cv[1] if cv else None
                    fld = strip_ref(subpat(a["pat"], 0)).get("id")
                    body = a["body"]
                    finds = q.calls(body, "Document::find")
                    okf = len(finds) == 1 and q.var_id(finds[0]["args"][1]) == fld or (len(finds) == 1 and show(finds[0]["args"][1]) in ("Deref::deref(f)", "Deref::deref(field)"))
                    rep.check(okf, "T-CAST", key + "/find", a["sp"], "looks up exactly the operand's own field", "; ".join(show(x) for x in finds))
                    # the match on find(): None => return Missing
                    fb = q.failure_branch(body, finds[0]) if finds else None
                    rep.check(isinstance(fb, dict) and q.returns_sr(fb, "Missing"), "T-CAST", key + "/absent", a["sp"], "absent field => Missing", show(fb)[:60] if isinstance(fb, dict) else str(fb))
                    # the conversion match over Value kinds
                    vm = [x for x in walk(body) if x.get("k") == "Match" and any(variant_of(p) and variant_of(p)[0] == "Value" for aa in x["arms"] for p in or_pats(aa["pat"]))]
                    if not vm:
                        rep.lost("T-CAST", key + "/kinds", "conversion match over Value kinds")
                        continue
                    vm = vm[0]
                    for va in vm["arms"]:
                        kinds = [variant_of(p)[1] for p in or_pats(va["pat"]) if variant_of(p)]
                        vkey = key + "/" + ("|".join(kinds) if kinds else "_")
                        bshow = show(va["body"])
                        if not kinds:
                            rep.check(q.returns_sr(va["body"], "False"), "T-CAST", vkey, va["sp"], "non-convertible kinds => False", bshow[:80])
                            continue
                        if cast is None:
                            rep.check(set(kinds) <= {"Float", "Int", "UInt"} and q.var_id(va["body"]) is not None, "T-CAST", vkey, va["sp"], "an uncast field passes numeric values through unchanged", bshow[:80])
                            continue
                        want = {"Flt": "Float", "Int": "Int"}.get(cast)
                        if want is None:
                            rep.bad("T-CAST", vkey, va["sp"], "cast kind is int or flt", str(cast))
                            continue
                        # every produced value is Value::<want>(..); every non-producing exit is return False
                        prods = [x for x in walk(va["body"]) if x.get("k") == "Adt" and x["adt"].endswith("::Value")]
                        rets = q.returns(va["body"])
                        ok = bool(prods) and all(x["variant"] == want for x in prods) and all(q.returns_sr(r, "False") for r in rets)
                        if kinds == ["String"]:
                            ps_ = q.calls(va["body"], "::parse")
                            ty = {"Flt": "f64", "Int": "i64"}[cast]
                            ok = ok and len(ps_) == 1 and ty in ps_[0].get("gen", []) and bool(rets)
                            rep.check(ok, "T-CAST", vkey, va["sp"], "string is parsed as %s; failure => False" % ty, bshow[:100])
                        elif kinds == ["Bool"]:
                            lits = sorted(str(lit(x["fields"][0]["e"])) for x in prods)
                            ok = ok and len(prods) == 2 and lits in (["('f', '0.0')", "('f', '1.0')"], ["('i', 0)", "('i', 1)"])
                            rep.check(ok, "T-CAST", vkey, va["sp"], "bool converts to 1/0", bshow[:100])
                        else:
                            if cast == "Flt" and set(kinds) <= {"Int", "UInt"}:
                                # flt() of an integer is a precision-only conversion: it never answers False.  A guard is accepted only
                                # if it is a tautology of the form  x <= (f64::MAX as <int type>)  (a saturating constant = the type's MAX)
                                for g in [x for x in walk(va["body"]) if x.get("k") == "If" and not x.get("exp")]:
                                    c = peel(g["cond"])
                                    r_ = peel(c["rhs"]) if c.get("k") == "Binary" else {}
                                    taut = c.get("k") == "Binary" and c["op"] == "Le" and peel(c["lhs"]).get("k") == "Var" and r_.get("k") == "Cast" and r_.get("from") == "f64" \
                                        and peel(r_["arg"]).get("k") == "Const" and str(peel(r_["arg"]).get("path", "")).endswith("f64>::MAX") and r_.get("ty") == peel(c["lhs"]).get("ty")
                                    ok = ok and taut
                            rep.check(ok, "T-CAST", vkey, va["sp"], "produces Value::%s or False%s" % (want, " (flt of an integer: every value converts)" if cast == "Flt" and set(kinds) <= {"Int", "UInt"} else ""), bshow[:100])
                    continue
                rep.bad("T-CAST", key, a["sp"], "operand arm of a known kind", ps)
        l = show(blocks["left"], skip_debug=True)
        r = show(blocks["right"], skip_debug=True)
        r2 = re.sub(r"\bright\b", "left", r)
        rep.check(l == r2, "SIBLING-LR", "SIBLING-LR/extraction", blocks["right"]["sp"], "right operand block == left operand block modulo renaming", _first_diff(l, r2))
    # str(): every scalar kind is rendered, and the signed and unsigned integer kinds are rendered alike (the same number is Int or UInt
    # depending on the document's representation).  A value-kind match that renders some scalar with to_string must do so for all four.
    nstr = 0
    for fname in ("solver::solve_expression", "solver::match_all", "solver::match_of"):
        f = F.fn(fname)
        if f is None:
            continue
        for n in walk(f.body):
            if n.get("k") != "Match":
                continue
            kinds = set()
            for a in n["arms"]:
                b = unblock(a["body"])
                while b.get("k") == "Block" and b.get("expr") is not None and not b["stmts"]:
                    b = unblock(b["expr"])
                if call_is(b, "ToString::to_string") or (b.get("k") == "Adt" and b.get("variant") == "Some" and call_is(peel(b["fields"][0]["e"]), "ToString::to_string")):
                    for alt in or_pats(a["pat"]):
                        for pp in q._walk_pat(alt):
                            v = variant_of(pp)
                            if v and v[0] == "Value" and v[1] in ("Bool", "Float", "Int", "UInt"):
                                kinds.add(v[1])
            if kinds:
                nstr += 1
                rep.check(kinds == {"Bool", "Float", "Int", "UInt"}, "T-STR", "T-STR/kinds/%s#%d" % (fname.split("::")[-1], nstr), n["sp"], "str() renders every scalar kind, signed and unsigned integers alike", str(sorted(kinds)))
    rep.check(nstr >= 3, "T-STR", "T-STR/kinds/sites", "src/solver.rs", "value-kind matches that render scalars for str() found", str(nstr))
    rep.floor("T-CAST", 40)

    # ---------------------------------------------------------------- LOSSY
    rep.describe("LOSSY", "every numeric `as` cast is lossless, precision-only (int->float), constant, or dominated by a range guard on the same value")
    ncasts = 0
    for name, f in sorted(F.fns.items()):
        if f.thir is None or _derived(f):
            continue
        if not f.sp.startswith(LOSSY_FILES):
            continue
        for n, path in walk_with_path(f.body):
            if n.get("k") != "Cast":
                continue
            if not (n["from"] in INTS or n["from"] in FLOATS or n["from"] in ("bool", "char")):
                continue
            if not (n["ty"] in INTS or n["ty"] in FLOATS):
                continue
            ncasts += 1
            ctx = q.context(path, n)
            ok, cat, det = classify_cast(n, ctx)
            argd = re.sub(r"\W+", "_", show(n["arg"]))[:30]
            occ = sum(1 for i in rep.instances if i.key.startswith("LOSSY/%s/%s->%s/%s" % (name, n["from"], n["ty"], argd)))
            rep.check(ok, "LOSSY", "LOSSY/%s/%s->%s/%s#%d" % (name, n["from"], n["ty"], argd, occ), n["sp"], "cast %s is safe: %s" % (show(n), cat), det or cat)
    rep.floor("LOSSY", 40)

    # ---------------------------------------------------------------- T-NUM
    rep.describe("T-NUM", "numeric patterns: after the operator prefix, contains('.') selects f64 parsing and the F-variant, otherwise i64 and the integer variant; errors are mapped, not unwrapped")
    idf = F.fn("into_identifier")
    if idf is None:
        rep.lost("T-NUM", "T-NUM/anchor", "String::into_identifier")
    else:
        spec = {">=": ("FGreaterThanOrEqual", "GreaterThanOrEqual"), ">": ("FGreaterThan", "GreaterThan"), "<=": ("FLessThanOrEqual", "LessThanOrEqual"),
                "<": ("FLessThan", "LessThan"), "=": ("FEqual", "Equal")}
        found = {}
        for n in walk(idf.body):
            if n.get("k") == "If" and peel(n["cond"]).get("k") == "LetCond":
                c = peel(n["cond"])
                call = peel(c["arg"])
                if call_is(call, "strip_prefix"):
                    l = lit(call["args"][1])
                    if l and l[1] in spec:
                        found[l[1]] = (n, c)
        for pre, (fv, iv) in spec.items():
            if pre not in found:
                rep.bad("T-NUM", "T-NUM/prefix/" + pre, idf.sp, "prefix %r is recognised" % pre, "no strip_prefix(%r)" % pre)
                continue
            n, c = found[pre]
            sid = strip_ref(subpat(c["pat"], 0)).get("id") if variant_of(c["pat"]) == ("Option", "Some") else None
            dots = [(x, pth) for x, pth in walk_with_path(n["then"]) if x.get("k") == "If" and x.get("else") is not None and call_is(peel(x["cond"]), "::contains") and lit(peel(x["cond"])["args"][1]) == ("c", ".")
                    and q.base_var(peel(x["cond"])["args"][0], n["then"]) == sid]
            inner = dots[0][0] if len(dots) == 1 else peel(n["then"])
            under_try = len(dots) == 1 and any(p_.get("k") == "Try" for p_ in dots[0][1])
            ok = len(dots) == 1
            rep.check(ok, "T-NUM", "T-NUM/dot/" + pre, n["sp"], "float iff the remainder contains '.'", show(inner.get("cond")) if inner.get("k") == "If" else show(inner)[:60])
            if inner.get("k") != "If":
                continue
            for branch, variant, ty in ((inner["then"], fv, "f64"), (inner["else"], iv, "i64")):
                adts = [x["variant"] for x in walk(branch) if x.get("k") == "Adt" and x["adt"].endswith("Pattern")]
                # or the constructor handed to `.map(..)` as a function value (directly or through a let)
                for x in walk(branch):
                    if call_is(x, "::map") and len(x["args"]) == 2:
                        cv = q.resolve(n["then"], x["args"][1])
                        if cv.get("k") == "Zst" and "Pattern::" in str(cv.get("fn")):
                            adts.append(str(cv["fn"]).split("::")[-1])
                parses = q.calls(branch, "::parse")
                trys = [x for x in walk(branch) if x.get("k") == "Try"]
                ok = len(adts) == 1 and adts[0] == variant and len(parses) == 1 and ty in parses[0].get("gen", []) and q.base_var(parses[0]["args"][0], n["then"]) == sid and (len(trys) == 1 or (under_try and not trys)) and not q.calls(branch, "::unwrap") and not q.calls(branch, "::expect")
                rep.check(ok, "T-NUM", "T-NUM/%s/%s" % (pre, variant), branch["sp"], "prefix %r => Pattern::%s(parse::<%s>(rest)?)" % (pre, variant, ty), show(branch)[:120])
        # order: >= before >, <= before <
        order = [l for l in _prefix_order(idf.body)]
        for a, b in ((">=", ">"), ("<=", "<")):
            ok = a in order and b in order and order.index(a) < order.index(b)
            rep.check(ok, "T-NUM", "T-NUM/order/%s<%s" % (a, b), idf.sp, "prefix %r is tested before %r" % (a, b), str(order))
    import core as _core
    import identmodel as _im
    _rows, _un = _im.evaluate(F, "ignore_case" in (F.features or []))
    _core.import_rules(rep, "c07", {"IDENT-MODEL"})
    if not _core.model_decides(rep, _rows is not None and all(r[3] for r in _rows), {"T-NUM"}, "numeric pattern syntax decided by the into_identifier model"):
        rep.floor("T-NUM", 17)

    # ---------------------------------------------------------------- T-STR
    rep.describe("T-STR", "str(a) == str(b): both sides are looked up, converted with Value::to_string, compared with ==; absent => Missing, unconvertible => False")
    arm = None
    for n in walk(se.body):
        if n.get("k") == "Match":
            for a in n["arms"]:
                if "Expression::Cast($left, ModSym::Str), &BoolSym::Equal, &Expression::Cast($right, ModSym::Str)" in pat_str(a["pat"]):
                    arm = a
    if arm is None:
        rep.lost("T-STR", "T-STR/anchor", "the str()==str() special case")
    else:
        finds = q.calls(arm["body"], "Document::find")
        tos = q.calls(arm["body"], "::to_string")
        rep.check(len(finds) == 2 and {show(f["args"][1]) for f in finds} == {"Deref::deref(left)", "Deref::deref(right)"}, "T-STR", "T-STR/lookups", arm["sp"], "one lookup per side", "; ".join(show(f) for f in finds))
        rep.check(len(tos) == 2 and all("Value" in (t.get("fn") or "") or "value" in (t.get("fn") or "") for t in tos), "T-STR", "T-STR/to_string", arm["sp"], "both sides use Value::to_string", "; ".join(t.get("fn") or "?" for t in tos))
        def _is_eq(c):
            c = q.resolve(arm["body"], c)
            return call_is(c, "PartialEq::eq") or (c.get("k") == "Binary" and c["op"] == "Eq")
        ifs = [x for x in walk(arm["body"]) if x.get("k") == "If" and _is_eq(x["cond"])]
        def _leaf(n, which):
            return n is not None and (q.returns_sr(n, which) or q.is_sr(facts.only(n), which))
        ok = len(ifs) == 1 and _leaf(ifs[0]["then"], "True") and _leaf(ifs[0].get("else"), "False")
        rep.check(ok, "T-STR", "T-STR/compare", arm["sp"], "x == y => True else False", show(ifs[0])[:100] if ifs else "-")
        fbs = [q.failure_branch(arm["body"], c) for c in finds + tos]
        miss = sum(1 for c in finds if isinstance(q.failure_branch(arm["body"], c), dict) and q.returns_sr(q.failure_branch(arm["body"], c), "Missing"))
        fals = sum(1 for c in tos if isinstance(q.failure_branch(arm["body"], c), dict) and q.returns_sr(q.failure_branch(arm["body"], c), "False"))
        nones = fbs
        rep.check(len(nones) == 4 and miss == 2 and fals == 2, "T-STR", "T-STR/none-arms", arm["sp"], "absent => Missing (x2), unconvertible => False (x2)", "%d None arms, %d Missing, %d False" % (len(nones), miss, fals))
    rep.floor("T-STR", 4)
    # the optimised (matrix) form of a numeric comparison keeps the operand's cast kind and literal (shared with C03's L-MATRIX)
    import core
    core.import_rules(rep, "c03", {"L-MATRIX"}, key_prefixes=("L-MATRIX/cell-",))
    # "str() compares the canonical decimal text": the constant side is rendered by the loader's number lowering (shared with C02)
    # numbers reach the solver through the adapters: the accessor must agree with its guard over the whole 64-bit range (shared with C11)
    core.import_rules(rep, "c11", {"T-NUMBER"})
    # no optimiser pass touches a comparison: operands and operator stay as written (every arm of every pass is reviewed)
    core.import_rules(rep, "c01", {"PASS-ARMS", "ORDER-AND"}, key_prefixes=("PASS-ARMS/", "ORDER-AND/shake_0/"))
    core.import_rules(rep, "c02", {"T-YAML"}, key_prefixes=("T-YAML/single/Number", "T-YAML/list/Number", "T-YAML/"))
    rep.extra["casts_classified"] = ncasts
    if rep.tier == "thorough":
        import poscontrol
        poscontrol.lossy(rep)
    rep.exhaustive = True
    rep.assumptions.append("a UInt above i64::MAX compared with an Int constant makes every comparison false (statement's 'true only when' is met; trichotomy read per variant)")
    rep.assumptions.append("Rust primitive comparison operators and str::parse behave as documented")


def _derived(f):
    e = f.mir.get("exp") if f.mir else None
    return bool(e) and any("Derive" in x or "derive" in x for x in e)


def _first_diff(a, b):
    if a == b:
        return None
    i = 0
    while i < min(len(a), len(b)) and a[i] == b[i]:
        i += 1
    return "left: ...%s | right: ...%s" % (a[max(0, i - 40):i + 60], b[max(0, i - 40):i + 60])


def _prefix_order(body):
    out = []
    for n in walk(body):
        if call_is(n, "strip_prefix"):
            l = lit(n["args"][1])
            if l:
                out.append(l[1])
    return out
