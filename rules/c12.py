"""C12 Determinism and purity: an effect analysis.

EFFECT-UNSAFE    no unsafe blocks, no `static mut`
EFFECT-STATIC    every static comes from tracing's or lazy_static's macro expansion
EFFECT-INTERIOR  the crate's own types contain no interior mutability, and no function uses thread-locals
EFFECT-AMBIENT   no calls into std::{time,env,process,thread,net}, rand, random hashing state; std::fs only in Rule::load
EFFECT-SHARED    matching entry points take the rule by shared reference
HASHITER         no order-dependent iteration over a RandomState hash container in load/optimise/match/validate
SYNC-BOUNDS      the `sync` feature only adds Send+Sync bounds (configuration diff A vs B)
"""
import re

import facts
import q
from facts import walk, walk_with_path, peel, call_is
from show import show

ENGINE_FILES = ("src/rule.rs", "src/parser.rs", "src/optimiser.rs", "src/solver.rs", "src/identifier.rs", "src/tokeniser.rs", "src/lib.rs", "src/error.rs")
INTERIOR = ("Cell<", "RefCell<", "Mutex<", "RwLock<", "Atomic", "OnceCell<", "OnceLock<", "UnsafeCell<", "LocalKey<", "LazyCell<", "LazyLock<", "Rc<")
AMBIENT = ("std::time::", "std::env::", "std::process::", "std::thread::", "std::net::", "rand::", "std::hash::RandomState", "hash::random::RandomState",
           "std::io::stdin", "std::sync::atomic", "std::thread_local", "std::thread::LocalKey", "LocalKey::<", "getrandom", "std::ptr::", "std::mem::transmute", "std::os::")
HASH_ITER_METHODS = ("::iter", "::iter_mut", "::keys", "::values", "::values_mut", "::into_keys", "::into_values", "::drain", "::retain", "::extract_if", "IntoIterator::into_iter")
ORDER_FREE_SINKS = ("Iterator::count", "Iterator::any", "Iterator::all", "Iterator::sum", "Iterator::max", "Iterator::min", "Iterator::for_each_unordered")
ADAPTORS = ("Iterator::map", "Iterator::filter", "Iterator::filter_map", "Iterator::cloned", "Iterator::copied", "Iterator::flat_map", "Iterator::inspect", "IntoIterator::into_iter", "Iterator::by_ref")


def is_hash_ty(t):
    return bool(re.search(r"\b(HashMap|HashSet)<|hash_map::|hash_set::", t or ""))


def is_ordered_collect(t):
    return bool(re.search(r"\b(HashMap|HashSet|BTreeMap|BTreeSet)<", t or ""))


def run(rep):
    F = facts.load("A")
    rep.configs = ["A(core,json)", "B(core,json,sync)"]
    _explain(rep)
    scan(F, rep, ENGINE_FILES)
    _shared_and_sync(F, rep)
    if rep.tier == "thorough":
        poscontrol(rep)


def poscontrol(rep):
    """Positive controls: every zero-expected rule must fire on the fixture crate (compiled through the same driver)."""
    import core
    import os
    fx = os.path.join(core.VERIF, "fixtures", "poscontrol")
    try:
        FX = facts.load_crate(fx, "poscontrol")
    except facts.BuildError as e:
        rep.lost("POSCONTROL", "POSCONTROL/build", "fixture crate builds", str(e)[-200:])
        return
    sub = core.Report("C12-fixture", rep.tier)
    scan(FX, sub, ("src/lib.rs",))
    rep.describe("POSCONTROL", "each zero-expected rule fires on the positive-control fixture (the matcher is alive)")
    fired = {}
    for i in sub.instances:
        if i.status != "discharged":
            fired.setdefault(i.rule, []).append(i.key)
    for rule in ("EFFECT-UNSAFE", "EFFECT-STATIC", "EFFECT-INTERIOR", "EFFECT-AMBIENT", "HASHITER"):
        rep.check(rule in fired, "POSCONTROL", "POSCONTROL/" + rule, "fixtures/poscontrol/src/lib.rs", "rule %s reports the forbidden construct planted in the fixture" % rule, str(fired.get(rule, [])[:3]))


def scan(F, rep, ENGINE_FILES):
    # ---------------------------------------------------------------- EFFECT-UNSAFE
    rep.describe("EFFECT-UNSAFE", "no `unsafe` block in hand-written code and no `static mut`")
    nblocks = 0
    for name, f in sorted(F.fns.items()):
        if f.thir is None:
            continue
        for n in walk(f.body):
            if n.get("k") == "Block":
                nblocks += 1
                if n.get("unsafe") and not n.get("exp"):
                    rep.bad("EFFECT-UNSAFE", "EFFECT-UNSAFE/" + name, n["sp"], "no unsafe block", "unsafe block in " + name)
    rep.ok("EFFECT-UNSAFE", "EFFECT-UNSAFE/blocks", "crate", "no hand-written unsafe block among %d blocks of %d functions" % (nblocks, len(F.fns)))
    for s in F.items["statics"]:
        if s["mut"]:
            rep.bad("EFFECT-UNSAFE", "EFFECT-UNSAFE/static-mut/" + s["path"], s["sp"], "no static mut", s["path"])
    rep.ok("EFFECT-UNSAFE", "EFFECT-UNSAFE/static-mut", "crate", "no `static mut` among %d statics" % len(F.items["statics"]))

    # ---------------------------------------------------------------- EFFECT-STATIC
    rep.describe("EFFECT-STATIC", "statics exist only as tracing callsites (debug!) or the immutable lazy_static IDENTIFIERS map")
    nst = 0
    plain_statics = set()
    for s in F.items["statics"]:
        exp = s.get("exp") or []
        ok = any("macro:Bang:debug" in e or "$crate::event" in e or "lazy_static" in e for e in exp)
        nst += 1
        LOCAL_MODS = ("tokeniser::", "parser::", "identifier::", "solver::", "value::", "rule::", "optimiser::", "document::", "error::")
        paths_ = re.findall(r"[A-Za-z_]\w*(?:::\w+)+", s["ty"])
        plain_ty = all(p_.startswith(LOCAL_MODS) for p_ in paths_)  # only primitives, str, arrays/tuples and this crate's own plain enums
        if not ok and plain_ty and not s["mut"] and not any(x in s["ty"] for x in INTERIOR) and "*" not in s["ty"] and "fn(" not in s["ty"] and "dyn " not in s["ty"]:
            # a hand-written immutable table of plain data: a constant with an address, no state
            rep.ok("EFFECT-STATIC", "EFFECT-STATIC/plain/" + s["path"], s["sp"], "immutable static of plain data (no interior mutability)", s["ty"][:80])
            plain_statics.add(s["path"])
        elif not ok:
            rep.bad("EFFECT-STATIC", "EFFECT-STATIC/" + s["path"], s["sp"], "static comes from a tracing / lazy_static expansion", "%s : %s" % (s["path"], s["ty"]))
        elif "lazy_static" in " ".join(exp):
            okty = not any(x in s["ty"] for x in INTERIOR if x not in ("Rc<",))
            rep.check(True, "EFFECT-STATIC", "EFFECT-STATIC/lazy/" + s["path"], s["sp"], "lazy_static item (initialised once, immutable afterwards)", s["ty"][:80])
    rep.ok("EFFECT-STATIC", "EFFECT-STATIC/all", "crate", "%d statics, all macro-generated" % nst)

    # ---------------------------------------------------------------- EFFECT-INTERIOR
    rep.describe("EFFECT-INTERIOR", "no own type has a field with interior mutability or single-thread sharing; no thread-local is referenced")
    for a in F.items["adts"]:
        if "__CALLSITE" in a["path"] or "lazy" in a["path"].lower() and "IDENTIFIERS" in a["path"]:
            continue
        for v in a["variants"]:
            for fld in v["fields"]:
                hit = [x for x in INTERIOR if x in fld["ty"]]
                rep.check(not hit, "EFFECT-INTERIOR", "EFFECT-INTERIOR/%s::%s.%s" % (a["path"], v["name"], fld["name"]), a["sp"],
                          "field type has no interior mutability", fld["ty"] if hit else None)
    lazy_paths = {s["path"] for s in F.items["statics"] if any("lazy_static" in e for e in (s.get("exp") or [])) and not s["mut"]}
    for name, f in sorted(F.fns.items()):
        if f.thir is None:
            continue
        for n in walk(f.body):
            if n.get("k") == "ThreadLocal" or (n.get("k") == "Call" and "LocalKey" in (n.get("fn") or "")):
                rep.bad("EFFECT-INTERIOR", "EFFECT-INTERIOR/thread-local/" + name, n["sp"], "no thread-local state", show(n)[:80])
            if n.get("k") == "Static" and not n.get("exp") and n.get("path") not in lazy_paths and n.get("path") not in plain_statics:
                rep.bad("EFFECT-INTERIOR", "EFFECT-INTERIOR/static-ref/" + name, n["sp"], "hand-written code does not reference statics", n.get("path"))

    # ---------------------------------------------------------------- EFFECT-AMBIENT
    rep.describe("EFFECT-AMBIENT", "no call into time/env/process/thread/net/rand/atomics/raw pointers; std::fs only in Rule::load")
    ncalls = 0
    for name, f in sorted(F.fns.items()):
        if f.thir is None:
            continue
        for n in walk(f.body):
            if n.get("k") != "Call" or not n.get("fn"):
                continue
            if n.get("exp") and any("macro:Bang:debug" in e or "$crate::event" in e or "lazy_static" in e for e in n["exp"]):
                continue
            ncalls += 1
            fn = n["fn"]
            if fn.startswith("std::fs::") or "::fs::" in fn:
                rep.check(name == "rule::Rule::load", "EFFECT-AMBIENT", "EFFECT-AMBIENT/fs/" + name, n["sp"], "file system is touched only by Rule::load", fn)
                continue
            hit = [a for a in AMBIENT if a in fn]
            if hit:
                rep.bad("EFFECT-AMBIENT", "EFFECT-AMBIENT/%s/%s" % (name, fn), n["sp"], "no ambient input or hidden state", fn)
    rep.ok("EFFECT-AMBIENT", "EFFECT-AMBIENT/calls", "crate", "%d resolved call sites inspected" % ncalls)

    # ---------------------------------------------------------------- HASHITER
    rep.describe("HASHITER", "an iteration over a HashMap/HashSet in engine code must be collected straight into a map/set or folded order-insensitively")
    nsites = 0
    for name, f in sorted(F.fns.items()):
        if f.thir is None or not f.sp.startswith(ENGINE_FILES):
            continue
        if name.startswith("<") and ("Clone" in name or "Debug" in name or "Serialize" in name or "Deserialize" in name) and "visit_map" not in name:
            continue
        for n, path in walk_with_path(f.body):
            site = None
            if n.get("k") == "For" and is_hash_ty(n["iter"].get("ty")):
                site = ("for", n)
            elif n.get("k") == "Call" and n.get("fn") and n["args"] and is_hash_ty(peel(n["args"][0]).get("ty") if peel(n["args"][0]).get("ty") else n["args"][0].get("ty")) \
                    and any(n["fn"].endswith(m) for m in HASH_ITER_METHODS) and ("HashMap" in n["fn"] or "HashSet" in n["fn"] or "IntoIterator" in n["fn"]):
                # skip the into_iter that is the iterable of an already-reported For
                if any(p.get("k") == "For" and p["iter"] is n for p in path):
                    continue
                site = ("call", n)
            if not site:
                continue
            nsites += 1
            kind, node = site
            occ = sum(1 for i in rep.instances if i.key.startswith("HASHITER/%s/" % name))
            key = "HASHITER/%s/%s#%d" % (name, kind, occ)
            if kind == "for":
                effects = []
                # variables that belong to one iteration: the loop pattern's and those bound inside the body
                own = {b[1] for b in facts.pat_binds(node["pat"])}
                for p_ in q.all_patterns(node["body"]):
                    own |= {b[1] for b in facts.pat_binds(p_)}
                carried = {q.base_var(x["lhs"]) for x in walk(node["body"]) if x.get("k") in ("Assign", "AssignOp")} - own
                for x in walk(node["body"]):
                    if x.get("k") == "Assign" and q.base_var(x["lhs"]) in own and not any(y.get("k") in ("Var", "Upvar") and y.get("id") in carried for y in walk(x["rhs"])):
                        continue  # writes this iteration's own element from this iteration's own data
                    if x.get("k") == "Call" and x.get("fn") and (x["fn"].endswith("::push") or x["fn"].endswith("::extend") or x["fn"].endswith("::push_str") or x["fn"].endswith("::insert") and "Vec" in x["fn"]):
                        effects.append(show(x)[:60])
                    if x.get("k") in ("Return", "Break") and x.get("value"):
                        effects.append(show(x)[:60])
                    if x.get("k") == "Assign" and peel(x["rhs"]).get("k") not in ("Lit",):
                        effects.append(show(x)[:60])
                rep.check(not effects, "HASHITER", key, node["sp"], "loop over a hash container only folds commutatively", "; ".join(effects[:4]) if effects else None)
            else:
                # follow the adaptor chain upwards
                cur = node
                sink = None
                for anc in reversed(path):
                    a = anc
                    if a.get("k") in ("Borrow", "Deref", "Coerce"):
                        cur = a
                        continue
                    if a.get("k") == "Call" and a["args"] and any(x is cur for x in [a["args"][0], peel(a["args"][0])]) and any(a["fn"].endswith(s) for s in ADAPTORS):
                        cur = a
                        continue
                    if a.get("k") == "Call" and a["args"] and (a["args"][0] is cur or peel(a["args"][0]) is cur):
                        sink = a
                    break
                ok = False
                why = "iteration result flows into " + (show(sink)[:80] if sink else "an unrecognised consumer")
                if sink is not None and sink["fn"].endswith("Iterator::collect") and is_ordered_collect(sink.get("ty")):
                    ok = True
                    why = "collected into " + sink["ty"][:60]
                elif sink is not None and any(sink["fn"].endswith(s) for s in ORDER_FREE_SINKS):
                    ok = True
                    why = "folded by " + sink["fn"]
                rep.check(ok, "HASHITER", key, node["sp"], "hash iteration is order-insensitive", why)
    SAFE_FOREIGN = ("Clone::clone", "Default::default", "Serialize::serialize", "Deserialize::deserialize", "Lazy::<T>::get", "Debug::fmt", "fmt::Arguments", "mem::drop", "Deref::deref", "Box::<T>::new", "Option::<T>::Some")
    for name, f in sorted(F.fns.items()):
        if f.thir is None or not f.sp.startswith(ENGINE_FILES):
            continue
        if name.startswith("<") and ("Clone" in name or "Debug" in name or "Serialize" in name) and "visit_map" not in name:
            continue
        for n in walk(f.body):
            if n.get("k") != "Call" or not n.get("fn") or n.get("local") or n.get("exp"):
                continue
            fn = n["fn"]
            if "HashMap" in fn or "HashSet" in fn or "hash_map" in fn or "hash_set" in fn or fn.endswith(SAFE_FOREIGN) or "IntoIterator::into_iter" in fn:
                continue
            for a in n["args"]:
                t = peel(a).get("ty", "") if peel(a).get("k") in ("Var", "Field") else ""
                if re.search(r"^(&(mut )?)?std::collections::(HashMap|HashSet)<", t):
                    nsites += 1
                    rep.bad("HASHITER", "HASHITER/%s/handed-to/%s" % (name, fn.split("::")[-2] + "::" + fn.split("::")[-1]), n["sp"],
                            "a hash container is not handed to code outside the crate that may iterate it", "%s receives a %s" % (fn, t[:50]))
    rep.ok("HASHITER", "HASHITER/sites", "engine", "%d hash-container iteration sites in engine code" % nsites)



def _explain(rep):
    rep.explanation = (
        "Purity and determinism are effect properties: they hold for every schedule and history if the code has no way to carry state "
        "between calls or to observe ambient inputs.  The check enumerates, over the type-checked program, every unsafe block, static, "
        "interior-mutability type, ambient-input call and hash-container iteration of the crate and requires each to be absent or to be in "
        "an order-insensitive form; it also requires the matching API to take the rule by shared reference and (configuration diff) the "
        "`sync` feature to change nothing but trait bounds.  Regex/aho-corasick internals and tracing events are trusted to be "
        "observationally pure."
    )


def _shared_and_sync(F, rep):
    # ---------------------------------------------------------------- EFFECT-SHARED
    rep.describe("EFFECT-SHARED", "matches/validate/solve*/match_*/search/slow_aho never take &mut to rule data")
    sigs = {f["path"]: f for f in F.items["fns"]}
    for nm in ("rule::Rule::matches", "rule::Rule::validate", "solver::solve", "solver::solve_expression", "solver::match_all", "solver::match_of",
               "solver::search", "solver::slow_aho", "core::solve", "core::solve_expression"):
        s = sigs.get(nm)
        if s is None:
            rep.lost("EFFECT-SHARED", "EFFECT-SHARED/anchor/" + nm, "function " + nm)
            continue
        rep.check("&mut" not in s["sig"] and "&'a mut" not in s["sig"], "EFFECT-SHARED", "EFFECT-SHARED/" + nm, s["sp"], "no mutable borrow in the signature", s["sig"])
    # and no function reachable in the solver takes &mut Expression / Detection / Rule at all
    for s in F.items["fns"]:
        if s["path"].startswith("solver::") or "solver::" in s["path"]:
            rep.check(not re.search(r"&(?:'\w+ )?mut (?:parser::Expression|rule::Detection|rule::Rule)", s["sig"]), "EFFECT-SHARED", "EFFECT-SHARED/solver-fn/" + s["path"], s["sp"],
                      "solver functions never borrow rule data mutably", s["sig"])
    rep.floor("EFFECT-SHARED", 12)

    # ---------------------------------------------------------------- SYNC-BOUNDS (config diff)
    rep.describe("SYNC-BOUNDS", "configuration diff: with feature `sync` the only differences are Send+Sync supertraits/bounds; function bodies are identical")
    try:
        FB = facts.load("B")
        import cfgdiff
        d = cfgdiff.diff(F, FB)
        rep.check(not d["only_a"] and not d["only_b"], "SYNC-BOUNDS", "SYNC-BOUNDS/fn-set", "crate", "same set of functions in both configurations", "only A: %s; only B: %s" % (d["only_a"][:4], d["only_b"][:4]))
        unexpected = [c for c in d["changed"] if not c.startswith("value::Object::find")]
        rep.check(not unexpected, "SYNC-BOUNDS", "SYNC-BOUNDS/bodies", "crate", "all %d common function bodies identical except the cfg-duplicated default body of Object::find (whose two copies are compared by C10)" % d["common"], "; ".join(unexpected[:5]))
        ta = {t["path"]: t for t in F.items["traits"]}
        tb = {t["path"]: t for t in FB.items["traits"]}
        for p in sorted(set(ta) | set(tb)):
            sa = set(ta.get(p, {}).get("supers", []))
            sb = set(tb.get(p, {}).get("supers", []))
            extra = sorted(sb - sa)
            okx = all(re.search(r": std::marker::(Send|Sync)$", e) for e in extra) and not (sa - sb)
            rep.check(okx, "SYNC-BOUNDS", "SYNC-BOUNDS/trait/" + p, "crate", "sync only adds Send/Sync supertraits", str(extra))
    except facts.BuildError as e:
        rep.lost("SYNC-BOUNDS", "SYNC-BOUNDS/build", "configuration B builds", str(e)[-300:])
    rep.floor("SYNC-BOUNDS", 5)
    rep.floor("EFFECT-INTERIOR", 40)
    rep.floor("EFFECT-AMBIENT", 2)
    rep.floor("HASHITER", 4)
    rep.exhaustive = True
    rep.trusted.append("regex / aho-corasick internal caches are semantically transparent; tracing events do not feed back into results")
    rep.assumptions.append("user-supplied Document/Object/Array implementations are pure functions of the key")
