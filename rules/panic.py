"""PANIC engine: inventory of panic/overflow-capable sites reachable from an entry set (MIR), each mapped to its
typed-tree node (THIR, by span) and discharged by a named rule evaluated on the node's context.
"""
import re

import facts
import q
from facts import walk, walk_with_path, peel, call_is, unblock, variant_of, strip_ref, subpat, pat_str, lit, pat_binds, or_pats
from show import show, is_debug_stmt

PANIC_CALLEES = (
    ("unwrap", re.compile(r"(Option|Result)::<.*>::(unwrap|unwrap_err)$")),
    ("expect", re.compile(r"(Option|Result)::<.*>::(expect|expect_err)$")),
    ("panic", re.compile(r"(core|std)::panicking::|::rt::panic_fmt|::rt::panic_display|::rt::begin_panic|::begin_panic|panic::panic_any|resume_unwind|process::(exit|abort)$|intrinsics::abort$|core::option::unwrap_failed|core::result::unwrap_failed|core::option::expect_failed")),
    ("index", re.compile(r"ops::(Index::index|IndexMut::index_mut)$")),
    ("stdpanic", re.compile(r"(Vec::<.*>::(remove|insert|swap_remove|drain|split_off|swap)|String::(remove|insert|insert_str|drain|split_off|truncate|replace_range)|str::<impl str>::split_at|slice::<impl \[T\]>::(split_at|split_at_mut|chunks|chunks_exact|rchunks|windows|copy_from_slice|clone_from_slice|swap|rotate_left|rotate_right)|RefCell::<.*>::(borrow|borrow_mut)|<impl char>::from_digit|char::from_digit|Iterator::step_by|Duration::\w+|Instant::\w+|mpsc::\w+::\w+|thread::\w+)$")),
)

TRAIT_DYN = ("document::Document::find", "value::Object::find", "value::Object::get", "value::Object::keys", "value::Object::len", "value::Array::iter", "value::Array::len", "value::AsValue::as_value")


def is_tracing(exp):
    return bool(exp) and any("macro:Bang:debug" in e or "$crate::event" in e or "tracing::" in e for e in exp)


class CallGraph:
    def __init__(self, F):
        self.F = F
        self.edges = {}
        impls = {}
        for name in F.fns:
            # "<T as path::Trait>::method" or "mod::<impl path::Trait for T>::method"
            m = re.match(r"^<.* as ([\w:]+)(?:<.*>)?>::(\w+)$", name) or re.match(r"^.*<impl ([\w:]+)(?:<.*>)? for .*>::(\w+)$", name)
            if m:
                impls.setdefault(m.group(1) + "::" + m.group(2), []).append(name)
        self.impls = impls
        for name, f in F.fns.items():
            out = set()
            if f.mir:
                for b in f.mir["blocks"]:
                    t = b["term"]
                    if t.get("k") == "Call":
                        for cal in (t.get("res"), t.get("fn")):
                            if cal and cal in F.fns:
                                out.add(cal)
                        fn = t.get("fn") or ""
                        base = re.sub(r"<.*?>", "", fn)
                        for tr in TRAIT_DYN:
                            if fn == tr or base == tr:
                                for imp in impls.get(tr, []):
                                    out.add(imp)
                                if tr in F.fns:
                                    out.add(tr)
                    # function items passed as values (map_err(error::x), closures)
                    for st in b["stmts"]:
                        rv = st.get("rv") or {}
                        for o in rv.get("ops", []) or []:
                            if o.get("fn") and o["fn"] in F.fns:
                                out.add(o["fn"])
                        if rv.get("agg") == "Closure" and rv.get("def") in F.fns:
                            out.add(rv["def"])
                    if t.get("k") == "Call":
                        for o in t.get("args", []):
                            if o.get("fn") and o["fn"] in F.fns:
                                out.add(o["fn"])
            # closures defined inside
            for other in F.fns:
                if other.startswith(name + "::{closure#"):
                    out.add(other)
            self.edges[name] = out

    def reach(self, roots):
        seen = set()
        stack = [r for r in roots if r in self.F.fns]
        while stack:
            x = stack.pop()
            if x in seen:
                continue
            seen.add(x)
            stack.extend(self.edges.get(x, ()))
        return seen


def entry_sets(F):
    names = list(F.fns)
    serde = [n for n in names if ("_serde::Deserialize" in n or "_serde::de::Visitor" in n or "Deserialize<'de>" in n)]
    load = ["rule::Rule::from_str", "rule::Rule::from_value", "rule::Rule::load", "<std::string::String as tokeniser::Tokeniser>::tokenise",
            "<std::string::String as identifier::IdentifierParser>::into_identifier", "parser::parse_identifier", "parser::parse"] + serde
    opt = ["rule::Rule::optimise", "optimiser::coalesce", "optimiser::shake", "optimiser::rewrite", "optimiser::matrix"]
    adapters = [n for n in names if re.search(r"as (value::(AsValue|Array|Object)|document::Document)>::|impl (value::(AsValue|Array|Object)|document::Document) for ", n)] + ["value::Object::find"]
    match = ["rule::Rule::matches", "solver::solve", "core::solve", "core::solve_expression"] + adapters
    validate = ["rule::Rule::validate"]
    # formatting goes through function pointers the call graph does not follow: every Display/Debug impl of the crate's own types can
    # run wherever an error message or a trace line is rendered, so they belong to every entry set
    fmts = [n for n in names if re.search(r" as (std|core)::fmt::(Display|Debug)>::fmt$", n) or re.search(r"impl (std|core)::fmt::(Display|Debug) for .*>::fmt$", n)]
    return {"LOAD": load + fmts, "OPT": opt + fmts, "MATCH": match + fmts, "VALIDATE": validate + fmts}


class Site:
    def __init__(self, fn, kind, callee, sp, detail, exp):
        self.fn, self.kind, self.callee, self.sp, self.detail, self.exp = fn, kind, callee, sp, detail, exp
        self.node = None
        self.path = None
        self.rule = None
        self.why = None


def sites_of(F, fname):
    f = F.fns[fname]
    out = []
    if not f.mir:
        return out
    for b in f.mir["blocks"]:
        if b["cleanup"]:
            continue
        t = b["term"]
        k = t.get("k")
        if k == "Call" and t.get("fn"):
            if is_tracing(t.get("exp")):
                continue
            fn = t["fn"]
            # overloaded arithmetic on time types panics on overflow (Duration - Duration, Instant - Duration, ...)
            if re.search(r"ops::(Add|Sub|Mul|Div|AddAssign|SubAssign)::\w+$", fn or "") and re.search(r"time::(Duration|Instant|SystemTime)", str((t.get("gen") or [""])[0]) + str(t.get("res"))):
                out.append(Site(fname, "stdpanic", fn, t["sp"], "", t.get("exp")))
                continue
            for kind, rx in PANIC_CALLEES:
                if rx.search(fn):
                    recv = t["args"][0].get("ty") if t.get("args") else None
                    if kind == "index":
                        rty = (t.get("gen") or [""])[0]
                        out.append(Site(fname, "index", fn.split("::")[-1] + " on " + rty, t["sp"], rty, t.get("exp")))
                    else:
                        out.append(Site(fname, kind, fn, t["sp"], "", t.get("exp")))
                    break
        elif k == "Assert":
            if is_tracing(t.get("exp")):
                continue
            a = t.get("assert")
            op = (t.get("detail") or {}).get("op", "")
            if str(a).startswith("BoundsCheck"):
                out.append(Site(fname, "index", "builtin index", t["sp"], "[T]", t.get("exp")))  # `a[i]` on a slice/array: same obligations as Index::index
            else:
                out.append(Site(fname, "assert", "%s%s" % (a, ("(" + op + ")") if op else ""), t["sp"], "", t.get("exp")))
    return out


def index_by_span(fn):
    idx = {}
    if fn.thir is None:
        return idx
    for n, path in walk_with_path(fn.body):
        sp = n.get("sp")
        if sp:
            idx.setdefault(sp, []).append((n, path))
    return idx


def locate(F, site, cache):
    f = F.fns[site.fn]
    if site.fn not in cache:
        cache[site.fn] = index_by_span(f)
    idx = cache[site.fn]
    cands = idx.get(site.sp, [])
    want = None
    for n, path in cands:
        k = n.get("k")
        if site.kind in ("unwrap", "expect", "panic", "stdpanic") and k == "Call":
            want = (n, path)
            break
        if site.kind == "index" and (k == "Index" or (k == "Call" and (n.get("fn") or "").endswith(("Index::index", "IndexMut::index_mut")))):
            want = (n, path)
            break
        if site.kind == "assert" and k in ("Binary", "AssignOp", "Index", "Unary", "Cast"):
            want = (n, path)
            break
    if want is None and cands:
        want = cands[0]
    if want:
        site.node, site.path = want
    return want is not None


# ------------------------------------------------------------------------------------------------
# Discharge rules.  Each returns (rule_name, explanation) or None.

WIDE = ("i32", "u32", "i64", "u64", "usize", "isize", "i128", "u128")
SIGNED = ("i32", "i64", "isize", "i128")


def _enclosing_fn_body(F, site):
    return F.fns[site.fn].body


def _region_before(root, node):
    """Nodes of `root` in pre-order that come before `node`."""
    out = []
    for x in walk(root):
        if x is node:
            break
        out.append(x)
    return out


def d_counter(F, s):
    n = s.node
    if n.get("k") == "AssignOp" and n["op"] in ("AddAssign", "SubAssign"):
        ty = n["lhs"].get("ty", "")
        r = peel(n["rhs"])
        unit = lit(r) == ("i", 1) or (r.get("k") == "Binary" and r["op"] == "BitAnd" and lit(r["rhs"]) == ("i", 1))
        if unit and ty in WIDE and (n["op"] == "AddAssign" or ty in SIGNED):
            return ("D-COUNTER", "unit step on a %s counter: bounded by the number of loop iterations, far below the type's range" % ty)
    if n.get("k") == "Binary" and n["op"] == "Add":
        def boolsum(x):
            x = peel(x)
            if x.get("k") == "Cast" and x.get("from") == "bool":
                return True
            return x.get("k") == "Binary" and x["op"] == "Add" and boolsum(x["lhs"]) and boolsum(x["rhs"])
        if boolsum(n):
            return ("D-COUNTER", "sum of boolean flags (at most one per operand)")
    return None


def d_subguard(F, s):
    n = s.node
    if n.get("k") == "Binary" and n["op"] == "Sub" and lit(n["rhs"]) and lit(n["rhs"])[0] == "i":
        c = lit(n["rhs"])[1]
        v = q.var_id(n["lhs"])
        if v is None:
            return None
        for f in q.true_facts(q.context(s.path, n)):
            f = peel(f)
            if f.get("k") == "Binary" and q.var_id(f["lhs"]) == v and lit(f["rhs"]) and lit(f["rhs"])[0] == "i":
                k = lit(f["rhs"])[1]
                if (f["op"] == "Gt" and k >= c - 1) or (f["op"] == "Ge" and k >= c):
                    return ("D-SUBGUARD", "subtraction dominated by `%s`" % show(f))
    return None


def d_fullrange(F, s):
    n = s.node
    idx = None
    if n.get("k") == "Call" and len(n["args"]) == 2:
        idx = peel(n["args"][1])
    elif n.get("k") == "Index":
        idx = peel(n["index"])
    if idx is not None and idx.get("k") == "Adt" and idx["adt"].endswith("RangeFull"):
        return ("D-FULLRANGE", "full-range slice cannot fail")
    return None


def _ascii_char(l):
    return l is not None and l[0] == "c" and len(l[1]) == 1 and ord(l[1]) < 128


def d_slice(F, s):
    """s[1..s.len()-1] and the `len() - 1` inside it: needs len >= 2 and ASCII first/last characters."""
    n = s.node
    target = None
    if n.get("k") == "Binary" and n["op"] == "Sub" and lit(n["rhs"]) == ("i", 1) and call_is(peel(n["lhs"]), "::len"):
        target = q.var_id(peel(n["lhs"])["args"][0])
    elif n.get("k") == "Call" and (n.get("fn") or "").endswith("Index::index") and len(n["args"]) == 2:
        r = peel(n["args"][1])
        if r.get("k") == "Adt" and r["adt"].endswith("ops::Range") and len(r["fields"]) == 2:
            fs = {f["name"]: f["e"] for f in r["fields"]}
            e = peel(fs["end"])
            if lit(fs["start"]) == ("i", 1) and e.get("k") == "Binary" and e["op"] == "Sub" and lit(e["rhs"]) == ("i", 1) and call_is(peel(e["lhs"]), "::len") \
                    and q.var_id(peel(e["lhs"])["args"][0]) == q.var_id(n["args"][0]):
                target = q.var_id(n["args"][0])
    if target is None:
        return None
    ctx = q.context(s.path, n)
    tf = q.true_facts(ctx)
    ff = [e[1] for e in ctx if e[0] == "if" and not e[2]]

    def starts_ends(cond):
        """Returns list of alternatives [(c1, c2)] if cond guarantees starts_with(c1) && ends_with(c2) on target for each alternative."""
        c = peel(cond)
        if c.get("k") == "Logical" and c["op"] == "Or":
            a, b = starts_ends(c["lhs"]), starts_ends(c["rhs"])
            return (a + b) if a and b else []
        cs = q.conj(c)
        st = en = None
        for x in cs:
            x = peel(x)
            if call_is(x, "::starts_with") and q.var_id(x["args"][0]) == target and _ascii_char(lit(x["args"][1])):
                st = lit(x["args"][1])[1]
            if call_is(x, "::ends_with") and q.var_id(x["args"][0]) == target and _ascii_char(lit(x["args"][1])):
                en = lit(x["args"][1])[1]
        return [(st, en)] if st and en else []

    alts = None
    # the facts may be split conjuncts; re-join: look at each enclosing if-cond as a whole
    for e in ctx:
        if e[0] == "if" and e[2]:
            whole = e[1]
            parts = q.conj(whole)
            # try whole, and every sub-conjunct that is itself an Or
            for cand in [whole] + parts:
                a = starts_ends(cand)
                if a:
                    alts = a
    if not alts:
        # conjuncts given separately
        st = en = None
        for x in tf:
            x = peel(x)
            if call_is(x, "::starts_with") and q.var_id(x["args"][0]) == target and _ascii_char(lit(x["args"][1])):
                st = lit(x["args"][1])[1]
            if call_is(x, "::ends_with") and q.var_id(x["args"][0]) == target and _ascii_char(lit(x["args"][1])):
                en = lit(x["args"][1])[1]
        if st and en:
            alts = [(st, en)]
    if not alts:
        return None
    len2 = False
    for x in tf:
        x = peel(x)
        if x.get("k") == "Binary" and x["op"] in ("Ge", "Gt") and call_is(peel(x["lhs"]), "::len") and q.var_id(peel(x["lhs"])["args"][0]) == target and lit(x["rhs"]):
            k = lit(x["rhs"])[1]
            if (x["op"] == "Ge" and k >= 2) or (x["op"] == "Gt" and k >= 1):
                len2 = True
    if not len2:
        # alternative: every alt has c1 == c2 and the one-character string c1 is excluded by a false fact `target == "c1"`
        excl = set()
        for x in ff:
            x = peel(x)
            if call_is(x, "PartialEq::eq") and q.var_id(x["args"][0]) == target and lit(x["args"][1]) and lit(x["args"][1])[0] == "s":
                excl.add(lit(x["args"][1])[1])
        if all(a == b and a in excl for a, b in alts):
            len2 = True
    if len2:
        return ("D-SLICE", "text starts and ends with an ASCII delimiter and has at least two bytes, so 1..len-1 is in range and on char boundaries")
    return None


def d_peek(F, s):
    n = s.node
    if not (n.get("k") == "Call" and s.kind in ("unwrap", "expect")):
        return None
    a = peel(n["args"][0])
    if not call_is(a, "Iterator::next"):
        return None
    it = q.var_id(a["args"][0])
    if it is None:
        return None
    for i, anc in enumerate(s.path):
        if anc.get("k") == "If" and peel(anc["cond"]).get("k") == "LetCond":
            lc = peel(anc["cond"])
            pk = peel(lc["arg"])
            if call_is(pk, "::peek") and q.var_id(pk["args"][0]) == it and variant_of(lc["pat"]) == ("Option", "Some") and q.contains(anc["then"], n):
                before = _region_before(anc["then"], a)
                touched = [x for x in before if x.get("k") == "Call" and x.get("args") and q.var_id(x["args"][0]) == it]
                if not touched:
                    return ("D-PEEK", "next() right after peek() returned Some on the same iterator")
    return None


def d_isvar(F, s):
    n = s.node
    if not (n.get("k") == "Call" and s.kind == "unwrap"):
        return None
    a = peel(n["args"][0])
    m = re.search(r"::as_(\w+)$", a.get("fn") or "") if a.get("k") == "Call" else None
    if not m:
        return None
    v = q.var_id(a["args"][0])
    for f in q.true_facts(q.context(s.path, n)):
        f = peel(f)
        if f.get("k") == "Call" and (f.get("fn") or "").endswith("::is_" + m.group(1)) and q.var_id(f["args"][0]) == v and v is not None:
            return ("D-ISVAR", "as_%s().unwrap() dominated by is_%s() on the same value" % (m.group(1), m.group(1)))
    return None


LOCKSTEP_PAIRS = {("context", "needles"), ("icontext", "ineedles")}
LOCKSTEP_PAIR_IDS = set()  # {(context vector id, needle vector id)} computed by c07.lockstep_roles
LOCKSTEP_OK = False  # set by the caller once the LOCKSTEP obligations (C07) have been evaluated on this tree
MUTATORS = ("::push", "::pop", "::clear", "::remove", "::retain", "::drain", "::truncate", "::extend", "::insert", "::append", "::split_off", "::swap_remove")


def d_lensum(F, s):
    """a.len() + b.len() for two vectors/slices/strings: each length is at most isize::MAX, the sum is below usize::MAX"""
    n = s.node
    if n.get("k") == "Binary" and n["op"] == "Add" and n.get("ty") == "usize":
        l, r = peel(n["lhs"]), peel(n["rhs"])
        if call_is(l, "::len") and call_is(r, "::len") and len(l["args"]) == 1 and len(r["args"]) == 1:
            return ("D-LENSUM", "sum of two collection lengths (each <= isize::MAX) cannot overflow usize")
    return None


def d_len1(F, s):
    n = s.node
    if not (n.get("k") == "Call" and s.kind in ("unwrap", "expect")):
        return None
    a = peel(n["args"][0])
    if a.get("k") == "Var":
        # `let first = v.into_iter().next(); .. first.expect(..)`: an immutable binding of the element
        init = q.let_init(F.fns[s.fn].body, a["id"])
        immut = any(pp.get("k") == "Bind" and pp.get("id") == a["id"] and pp.get("mode", "").endswith("Not)") for pt in q.all_patterns(F.fns[s.fn].body) for pp in q._walk_pat(pt))
        if init is not None and immut:
            a = peel(init)
    if call_is(a, "Iterator::next"):
        b = peel(a["args"][0])
        if not call_is(b, "IntoIterator::into_iter"):
            return None
        v = peel(b["args"][0])
    elif a.get("k") == "Call" and (a.get("fn") or "").endswith(("Vec::<T, A>::pop", "<impl [T]>::first", "<impl [T]>::last")) and len(a["args"]) == 1:
        v = peel(a["args"][0])  # the last / first element of a vector known to be non-empty
        while call_is(v, "Deref::deref") or call_is(v, "DerefMut::deref_mut"):
            v = peel(v["args"][0])
    else:
        return None
    if q.place(v) is None:
        return None
    vid, vname = q.place(v), show(v)
    ctx = q.context(s.path, n)
    for e in ctx:
        # `match v.len() { 1 => v.into_iter().next().expect(..), .. }`
        if e[0] == "arm" and call_is(peel(e[2]), "::len") and q.place(peel(e[2])["args"][0]) == vid:
            pt = strip_ref(e[1])
            if pt.get("k") == "Const" and re.fullmatch(r"[1-9]\d*(_usize)?", pt["v"]):
                return ("D-LEN1", "first element taken in the arm for length %s" % pt["v"])
    NEG = {"Ne": "Eq", "Eq": "Ne", "Lt": "Ge", "Ge": "Lt", "Gt": "Le", "Le": "Gt"}
    for e in ctx:
        if e[0] != "if":
            continue
        if e[2]:
            facts_ = q.conj(e[1])
        else:
            # a condition known to be false: usable when it is a single comparison (its negation) or a negated test
            c0 = peel(e[1])
            if c0.get("k") == "Binary" and c0["op"] in NEG:
                facts_ = [dict(c0, op=NEG[c0["op"]])]
            elif call_is(c0, "::is_empty"):
                facts_ = [{"k": "Unary", "op": "Not", "arg": c0, "ty": "bool", "sp": c0.get("sp")}]
            else:
                continue
        for f in facts_:
            f = peel(f)
            ok = False
            g = None
            via_let = False
            if f.get("k") == "Binary" and lit(f["rhs"]) and peel(f["lhs"]).get("k") == "Var":
                # `let n = v.len(); .. if n == 1 { v.into_iter().next().expect(..) }` with v an immutable binding
                body = F.fns[s.fn].body
                init = q.let_init(body, peel(f["lhs"])["id"])
                if init is not None and call_is(peel(init), "::len"):
                    gv = q.var_id(peel(init)["args"][0])
                    immut = any(pp.get("k") == "Bind" and pp.get("id") == gv and pp.get("mode", "").endswith("Not)") for pt in q.all_patterns(body) for pp in q._walk_pat(pt))
                    if immut:
                        f = dict(f, lhs=peel(init))
                        via_let = True
            if f.get("k") == "Binary" and call_is(peel(f["lhs"]), "::len") and lit(f["rhs"]):
                k = lit(f["rhs"])[1]
                ok = (f["op"] == "Eq" and k >= 1) or (f["op"] == "Ge" and k >= 1) or (f["op"] == "Gt" and k >= 0)
                g = peel(peel(f["lhs"])["args"][0])
            elif f.get("k") == "Unary" and f["op"] == "Not" and call_is(peel(f["arg"]), "::is_empty"):
                ok = True
                g = peel(peel(f["arg"])["args"][0])
            if not ok or g is None or q.place(g) is None:
                continue
            gid = q.place(g)
            same = gid == vid
            pair = (vid, gid) in LOCKSTEP_PAIR_IDS
            if not (same or pair):
                continue
            # no mutation of the guarded vector between the guard and the site
            ifnode = [p for p in s.path if p.get("k") == "If" and p["cond"] is e[1]]
            region = _region_before(ifnode[-1]["then"], n) if ifnode else []
            mut = [x for x in region if x.get("k") == "Call" and x.get("fn") and x["fn"].endswith(MUTATORS) and x.get("args") and q.place(x["args"][0]) in (vid, gid)]
            if mut:
                continue
            if same:
                return ("D-LEN1", "first element taken under `%s`" % show(f))
            if not LOCKSTEP_OK:
                continue
            return ("D-LEN1-LOCKSTEP", "first element of `%s` taken under `%s`; the two vectors are pushed in lockstep (LOCKSTEP lemma)" % (vname, show(f)))
    return None


def d_split(F, s):
    n = s.node
    if not (n.get("k") == "Call" and s.kind in ("unwrap", "expect")):
        return None
    a = peel(n["args"][0])
    if not call_is(a, "Iterator::next"):
        return None
    v = peel(a["args"][0])
    if v.get("k") != "Var":
        return None
    body = _enclosing_fn_body(F, s)
    for x in walk(body):
        if x.get("k") == "Block":
            for i, st in enumerate(x["stmts"]):
                if st["k"] == "Let" and st["pat"].get("k") == "Bind" and st["pat"]["id"] == v["id"] and st.get("init") and call_is(peel(st["init"]), "<impl str>::split"):
                    # first use of the iterator
                    before = _region_before(x, a)
                    uses = [y for y in before if y.get("k") == "Call" and y.get("args") and q.var_id(y["args"][0]) == v["id"]]
                    if not uses:
                        return ("D-SPLIT", "first next() on a fresh str::split iterator (split always yields at least one item)")
    return None


EXTERNAL = [
    # (function suffix, predicate on site/node, reason)
    ("parser::parse_mapping", lambda s: s.kind == "expect" and "AhoCorasickBuilder::build" in show(s.node), "AhoCorasickBuilder::build over literal needles fails only on state-identifier overflow (resource exhaustion)"),
    ("optimiser::shake_1", lambda s: s.kind == "expect" and "AhoCorasickBuilder::build" in show(s.node), "AhoCorasickBuilder::build over literal needles fails only on state-identifier overflow (resource exhaustion)"),
    ("yaml::<impl value::AsValue for serde_yaml::Value>::as_value", lambda s: s.kind == "panic", "serde_yaml::Number is exactly one of u64 / i64 / f64"),
    ("json::<impl value::AsValue for serde_json::Value>::as_value", lambda s: s.kind == "panic", "serde_json::Number is exactly one of u64 / i64 / f64 (arbitrary_precision is not enabled)"),
]


def d_external(F, s):
    for suf, pred, why in EXTERNAL:
        if s.fn.endswith(suf) and pred(s):
            # the yaml/json arm must really be the tail of the is_u64/is_i64/is_f64 chain
            if s.kind == "panic":
                # known false here: n.is_X() or `let Some(_) = n.as_X()` for each of the three representations of a serde number
                ff = [peel(e[1]) for e in q.context(s.path, s.node) if e[0] == "if" and not e[2]]
                kinds, ids = [], set()
                for x in ff:
                    c = peel(x["arg"]) if x.get("k") == "LetCond" and variant_of(x["pat"]) == ("Option", "Some") else x
                    m = re.search(r"Number::(?:is|as)_(u64|i64|f64)$", c.get("fn") or "") if c.get("k") == "Call" else None
                    if m and ((x is c and "::is_" in c["fn"]) or (x is not c and "::as_" in c["fn"])):
                        kinds.append(m.group(1))
                        ids.add(q.var_id(c["args"][0]))
                if sorted(kinds) != ["f64", "i64", "u64"] or len(ids) != 1 or None in ids:
                    return None
            return ("D-EXTERNAL", why)
    return None


def d_rebuild(F, s):
    """Regex rebuilt from the text of a regex that compiled before, with the same case flag:
         site      RegexBuilder::new(&P).case_insensitive(I).build().expect(..)
         P         an element of V, where `for ((.., I), V) in MAP`           (I = last component of the key)
         MAP       is written only through MAP.entry((.., I')).or_insert(vec![]) buckets
         bucket    receives only  R.as_str().to_owned()  with  Search::Regex(R, I')   in the enclosing arm pattern, or
                                  p.to_owned()  for p in S.patterns()  with  Search::RegexSet(S, I')
       so P compiled before under flag I."""
    n = s.node
    if s.kind != "expect" or not (n.get("k") == "Call" and n.get("args")):
        return None
    chain = {}
    x = peel(n["args"][0])
    while x.get("k") == "Call" and "RegexBuilder::" in (x.get("fn") or ""):
        chain[x["fn"].split("::")[-1]] = x
        x = peel(x["args"][0]) if x["args"] else {}
    if not {"build", "case_insensitive", "new"} <= set(chain):
        return None
    body = _enclosing_fn_body(F, s)
    pid = q.base_var(chain["new"]["args"][0], body)
    iid = q.var_id(chain["case_insensitive"]["args"][1])
    if pid is None or iid is None:
        return None
    # P is an element of V
    vid = None
    init = q.let_init(body, pid)
    if init is not None:
        e = peel(init)
        if (call_is(e, "::expect") or call_is(e, "::unwrap")) and call_is(peel(e["args"][0]), "Iterator::next"):
            vid = q.base_var(peel(peel(e["args"][0])["args"][0]), body)
            it = peel(peel(e["args"][0])["args"][0])
            if call_is(it, "IntoIterator::into_iter") or call_is(it, "::iter"):
                vid = q.base_var(it["args"][0], body)
    for c in q.context(s.path, n):
        if c[0] == "for" and any(b[1] == pid for b in pat_binds(c[1])):
            vid = q.loop_over({"iter": c[2], "pat": c[1]})[0]
    if vid is None:
        return None
    # V and I come from one `for (key, V) in MAP` with I the last key component
    mid = None
    for c in q.context(s.path, n):
        if c[0] != "for":
            continue
        pt = strip_ref(c[1])
        if pt.get("k") == "Leaf" and len(pt["sub"]) == 2:
            key, val = strip_ref(pt["sub"][0]["p"]), strip_ref(pt["sub"][1]["p"])
            if val.get("k") == "Bind" and val["id"] == vid and key.get("k") == "Leaf" and key["sub"]:
                last = strip_ref(key["sub"][-1]["p"])
                if last.get("k") == "Bind" and last["id"] == iid:
                    mid = q.loop_over({"iter": c[2], "pat": c[1]})[0]
    if mid is None:
        return None
    # every write to MAP is entry(key).or_insert(..) and every bucket only receives text of compiled regexes under the key's flag
    nent = 0
    for x, path in walk_with_path(body):
        if x.get("k") == "Borrow" and x.get("mut") and q.var_id(x["arg"]) == mid:
            par = path[-1] if path else {}
            if not call_is(par, "::entry"):
                return None
        if not (call_is(x, "::entry") and q.base_var(x["args"][0]) == mid):
            continue
        nent += 1
        key = peel(x["args"][1])
        kfields = key.get("fields") or key.get("elems") or []
        kf = peel(kfields[-1]["e"] if kfields and isinstance(kfields[-1], dict) and "e" in kfields[-1] else kfields[-1]) if kfields else {}
        kflag = q.var_id(kf)
        # the regex bound beside that flag in the enclosing arm
        rx = None
        for c in q.context(path, x):
            if c[0] == "arm":
                for alt in or_pats(c[1]):
                    for pp in q._walk_pat(alt):
                        v = variant_of(pp)
                        if v and v[0] == "Search" and v[1] in ("Regex", "RegexSet"):
                            r0, f0 = strip_ref(subpat(pp, 0)), strip_ref(subpat(pp, 1))
                            if f0 is not None and f0.get("k") == "Bind" and f0["id"] == kflag and r0 is not None and r0.get("k") == "Bind":
                                rx = (v[1], r0["id"])
        if rx is None:
            return None
        # the bucket: or_insert(entry) bound by a let (or used in place); all pushes in this arm go to it
        arm_body = None
        for c in reversed([p_ for p_ in path if p_.get("k") == "Match"]):
            for a in c["arms"]:
                if q.contains(a["body"], x):
                    arm_body = a["body"]
            if arm_body is not None:
                break
        if arm_body is None:
            return None
        pushes = [y for y in walk(arm_body) if call_is(y, "::push")]
        if not pushes:
            return None
        for y, ypath in walk_with_path(arm_body):
            if not call_is(y, "::push"):
                continue
            val = peel(y["args"][1])
            if not (call_is(val, "ToOwned::to_owned") or call_is(val, "ToString::to_string") or call_is(val, "Clone::clone") or call_is(val, "String::from") or call_is(val, "From::from")):
                return None
            src = peel(val["args"][0])
            if rx[0] == "Regex":
                if not (call_is(src, "Regex::as_str") and q.base_var(src["args"][0], arm_body) == rx[1]):
                    return None
            else:
                okp = False
                for c in q.context(ypath, y):
                    if c[0] == "for" and any(b[1] == q.base_var(src, arm_body) for b in pat_binds(c[1])):
                        it = peel(c[2])
                        while call_is(it, "::iter") or call_is(it, "IntoIterator::into_iter"):
                            it = peel(it["args"][0])
                        okp = call_is(it, "RegexSet::patterns") and q.base_var(it["args"][0], arm_body) == rx[1]
                if not okp:
                    return None
    if nent < 1:
        return None
    return ("D-REBUILD", "pattern text comes from Regex::as_str()/RegexSet::patterns() of compiled regexes grouped by the same case flag; recompiling it with that flag cannot fail")


def d_fromu32(F, s):
    n = s.node
    if not (s.kind == "expect" and "char::from_u32" in show(n)):
        return None
    ctx = q.context(s.path, n)
    guard = None
    for f in q.true_facts(ctx):
        f = peel(f)
        if f.get("k") == "Binary" and f["op"] in ("Lt", "Le") and call_is(peel(f["lhs"]), "::len") and show(peel(f["lhs"])["args"][0]) == "fields" and lit(f["rhs"]):
            k = lit(f["rhs"])[1]
            if (f["op"] == "Lt" and k <= 0xD800) or (f["op"] == "Le" and k < 0xD800):
                guard = f
    fors = [e for e in ctx if e[0] == "for"]
    okfor = bool(fors) and show(fors[-1][2]) in ("Iterator::enumerate(<impl [T]>::iter(Deref::deref(columns)))",) and pat_str(fors[-1][1]).startswith("($i, ")
    arg = peel(peel(peel(n["args"][0])["args"][0]))
    oki = arg.get("k") == "Cast" and show(arg["arg"]) == "i"
    body = _enclosing_fn_body(F, s)
    lets = [st["init"] for x in walk(body) if x.get("k") == "Block" for st in x["stmts"] if st["k"] == "Let" and st["pat"].get("name") == "columns" and st.get("init")]
    # columns = fields.into_iter().collect(); columns = columns.into_iter().map(|(c, _)| c).collect()  (one element per field, both times)
    okcols = len(lets) == 2 and show(lets[0]) == "Iterator::collect(IntoIterator::into_iter(fields))"
    if okcols:
        second = peel(lets[1])
        loops = [x for x in walk(second) if x.get("k") == "For"]
        okcols = bool(second.get("collected")) and len(loops) == 1 and show(loops[0]["iter"]) == "IntoIterator::into_iter(columns)"
    if guard is not None and okfor and oki and okcols:
        return ("D-FROMU32", "index < columns.len() == fields.len() < 0xD800 (guard `%s`): every such value is a valid char" % show(guard))
    return None


def d_windows(F, s):
    """`slice.windows(n)` / `chunks(n)` with a literal n > 0 cannot panic; `w[i]` with a literal i < n inside `for w in slice.windows(n)` is in bounds"""
    n = s.node
    if n.get("k") == "Call" and (n.get("fn") or "").endswith(("<impl [T]>::windows", "<impl [T]>::chunks", "<impl [T]>::chunks_exact")) and len(n["args"]) == 2:
        if lit(n["args"][1]) and lit(n["args"][1])[0] == "i" and lit(n["args"][1])[1] > 0:
            return ("D-WINDOWS", "window size is the literal %d" % lit(n["args"][1])[1])
        return None
    if s.kind == "index" and n.get("k") == "Call" and len(n.get("args") or []) == 2 and lit(n["args"][1]) and lit(n["args"][1])[0] == "i":
        wid = q.var_id(n["args"][0])
        idx = lit(n["args"][1])[1]
        for e in q.context(s.path, n):
            if e[0] == "for" and strip_ref(e[1]).get("k") == "Bind" and strip_ref(e[1]).get("id") == wid:
                it = peel(e[2])
                while call_is(it, "IntoIterator::into_iter") and len(it["args"]) == 1:
                    it = peel(it["args"][0])
                if call_is(it, "<impl [T]>::windows") and len(it["args"]) == 2 and lit(it["args"][1]) and lit(it["args"][1])[0] == "i" and 0 <= idx < lit(it["args"][1])[1]:
                    return ("D-WINDOWS", "index %d into a window of exactly %d elements" % (idx, lit(it["args"][1])[1]))
    return None


GENERIC_RULES = [d_windows, d_lensum, d_counter, d_subguard, d_fullrange, d_slice, d_peek, d_isvar, d_len1, d_split, d_external, d_rebuild, d_fromu32]


def discharge(F, s, extra_rules=()):
    if s.node is None:
        return None
    for r in list(GENERIC_RULES) + list(extra_rules):
        try:
            res = r(F, s)
        except (KeyError, IndexError, TypeError, AttributeError):
            res = None
        if res:
            return res
    return None


def site_key(s, seen):
    """Line-free key: function / kind / callee / a rendering of the operands."""
    base = "PANIC/%s/%s:%s/%s" % (s.fn, s.kind, s.callee.split("::")[-1][:24], re.sub(r"\s+", " ", show(s.node))[:70] if s.node is not None else "?")
    k = seen.get(base, 0)
    seen[base] = k + 1
    return base + "#%d" % k
