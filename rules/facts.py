"""Facts: build (via the taufacts rustc driver), cache, load and query.

Nothing here executes tau-engine code.  `cargo +nightly check` type-checks the crate and the
driver dumps the compiler's typed tree (THIR), MIR and item tables as JSON.
"""
import fcntl
import hashlib
import json
import os
import re
import subprocess
import sys
import time
import uuid

VERIF = os.path.dirname(os.path.dirname(os.path.abspath(__file__)))
REPO = os.environ.get("TAU_REPO", "/repo")
CACHE = os.environ.get("TAU_CACHE", os.path.join(VERIF, ".cache"))
DRIVER = os.path.join(VERIF, "taufacts", "target", "release", "taufacts")

CONFIGS = {
    "AB": "core,json,sync",
    "AC": "core,json,ignore_case",
    "ABC": "core,json,sync,ignore_case",
    "A": "core,json",
    "B": "core,json,sync",
    "C": "core,json,ignore_case",
    "D": "",
}


def all_configs():
    """All 16 subsets of {core,json,sync,ignore_case}, named by their feature list."""
    feats = ["core", "json", "sync", "ignore_case"]
    out = {}
    for m in range(16):
        fs = [f for i, f in enumerate(feats) if m >> i & 1]
        out["S%02d" % m] = ",".join(fs)
    return out


class BuildError(Exception):
    pass


def _sha(paths):
    h = hashlib.sha256()
    for p in sorted(paths):
        h.update(p.encode())
        try:
            with open(p, "rb") as f:
                h.update(f.read())
        except OSError:
            h.update(b"<missing>")
    return h.hexdigest()


def repo_inputs(repo):
    paths = [os.path.join(repo, "Cargo.toml"), os.path.join(repo, "Cargo.lock")]
    for root, _dirs, files in os.walk(os.path.join(repo, "src")):
        for f in files:
            paths.append(os.path.join(root, f))
    return paths


def ensure_driver():
    if not os.path.exists(DRIVER):
        env = dict(os.environ, CARGO_NET_OFFLINE="true")
        r = subprocess.run(
            ["cargo", "build", "--release", "--offline"],
            cwd=os.path.join(VERIF, "taufacts"),
            env=env,
            stdout=subprocess.PIPE,
            stderr=subprocess.STDOUT,
            text=True,
        )
        if r.returncode != 0 or not os.path.exists(DRIVER):
            raise BuildError("cannot build taufacts driver:\n" + r.stdout[-4000:])


def sysroot():
    return subprocess.check_output(["rustc", "+nightly", "--print", "sysroot"], text=True).strip()


def _prune(fdir, keep=80):
    """Keep the facts directory bounded: drop the oldest facts files beyond `keep`."""
    try:
        fs = sorted((f for f in os.listdir(fdir) if f.startswith("facts-") and f.endswith(".json")), key=lambda f: os.path.getmtime(os.path.join(fdir, f)))
        for f in fs[:-keep]:
            os.remove(os.path.join(fdir, f))
    except OSError:
        pass


def build_facts(features, repo=None, crate="tau_engine", tag=None):
    """Return the path of a facts JSON for `repo` under `features` (comma list), building if needed."""
    repo = repo or REPO
    ensure_driver()
    os.makedirs(CACHE, exist_ok=True)
    key = _sha(repo_inputs(repo) + [DRIVER]) + "|" + features + "|" + crate + "|" + os.path.abspath(repo)
    key = hashlib.sha256(key.encode()).hexdigest()[:24]
    # facts of scratch copies (TAU_FACTS_DIR, set by tools/try_patch.sh) die with the copy; only /repo's own facts are kept
    fdir = os.environ.get("TAU_FACTS_DIR", CACHE)
    os.makedirs(fdir, exist_ok=True)
    out = os.path.join(fdir, "facts-%s.json" % key)
    if os.path.exists(out):
        return out
    _prune(fdir)
    fkey = hashlib.sha256((features + "|" + crate).encode()).hexdigest()[:10]
    tdir = os.path.join(CACHE, "target-" + fkey)
    lock = open(os.path.join(CACHE, "lock-" + fkey), "w")
    fcntl.flock(lock, fcntl.LOCK_EX)
    try:
        if os.path.exists(out):
            return out
        # make cargo re-run the wrapper for the analysed crate (a fresh fingerprint would replay)
        fp = os.path.join(tdir, "debug", ".fingerprint")
        if os.path.isdir(fp):
            import shutil

            for d in os.listdir(fp):
                if d.startswith(crate.replace("_", "-") + "-") or d.startswith(crate + "-"):
                    shutil.rmtree(os.path.join(fp, d), ignore_errors=True)
        nonce = uuid.uuid4().hex
        tmp = out + "." + nonce + ".tmp"
        env = dict(os.environ)
        env.update(
            {
                "LD_LIBRARY_PATH": sysroot() + "/lib",
                "RUSTFLAGS": "-Zmir-opt-level=0 -Awarnings -Cdebug-assertions=off -Coverflow-checks=on",
                "RUSTC_WORKSPACE_WRAPPER": DRIVER,
                "CARGO_TARGET_DIR": tdir,
                "CARGO_NET_OFFLINE": "true",
                "TAUFACTS_OUT": tmp,
                "TAUFACTS_NONCE": nonce,
                "TAUFACTS_CRATE": crate,
            }
        )
        cmd = ["cargo", "+nightly", "check", "--offline", "--lib", "--no-default-features"]
        if features:
            cmd += ["--features", features]
        r = subprocess.run(cmd, cwd=repo, env=env, stdout=subprocess.PIPE, stderr=subprocess.STDOUT, text=True)
        if r.returncode != 0 or not os.path.exists(tmp):
            raise BuildError(
                "cargo check of %s (features=%r) failed or produced no facts:\n%s" % (repo, features, r.stdout[-6000:])
            )
        with open(tmp) as f:
            head = f.read(200)
        if nonce not in head:
            raise BuildError("stale facts file (nonce mismatch)")
        os.replace(tmp, out)
        return out
    finally:
        fcntl.flock(lock, fcntl.LOCK_UN)
        lock.close()


# --------------------------------------------------------------------------------------------
# Tree helpers (THIR JSON)

CHILD_KEYS = (
    "cond", "then", "else", "args", "arg", "lhs", "rhs", "body", "scrut", "arms", "stmts", "expr",
    "init", "value", "fields", "e", "index", "fun", "base", "upvars", "guard",
)


def children(n):
    """Direct expression children of a THIR node (including arm bodies/guards and block stmts)."""
    if not isinstance(n, dict):
        return
    k = n.get("k")
    if k == "Block":
        for s in n.get("stmts", []):
            if s.get("k") == "Expr":
                yield s["e"]
            else:
                if s.get("init"):
                    yield s["init"]
                if s.get("else"):
                    yield s["else"]
        if n.get("expr"):
            yield n["expr"]
        return
    if k == "Match":
        yield n["scrut"]
        for a in n["arms"]:
            if a.get("guard"):
                yield a["guard"]
            yield a["body"]
        return
    if k == "Adt":
        for f in n["fields"]:
            yield f["e"]
        if isinstance(n.get("base"), dict):
            yield n["base"]
        return
    if k == "For":
        yield n["iter"]
        yield n["body"]
        return
    if k == "Try":
        yield n["arg"]
        return
    for key in ("cond", "then", "else", "arg", "lhs", "rhs", "body", "value", "index", "fun"):
        v = n.get(key)
        if isinstance(v, dict):
            yield v
    for key in ("args", "fields", "upvars"):
        v = n.get(key)
        if isinstance(v, list):
            for x in v:
                if isinstance(x, dict):
                    yield x


def walk(n):
    """Pre-order walk over all expression nodes."""
    stack = [n]
    while stack:
        x = stack.pop()
        if not isinstance(x, dict):
            continue
        yield x
        cs = list(children(x))
        stack.extend(reversed(cs))


def walk_with_path(n, path=()):
    """Pre-order walk yielding (node, ancestors tuple)."""
    yield n, path
    p2 = path + (n,)
    for c in children(n):
        yield from walk_with_path(c, p2)


def is_exp(n, what):
    """True if node comes from an expansion whose chain mentions `what` (e.g. 'desugar:ForLoop')."""
    for e in n.get("exp") or []:
        if what in e:
            return True
    return False


def peel(n):
    """Strip Borrow / Deref / Coerce / ByUse wrappers and `.clone()`-free adjustments."""
    while isinstance(n, dict) and n.get("k") in ("Borrow", "Deref", "Coerce", "ByUse", "RawBorrow"):
        n = n["arg"]
    return n


def unblock(n):
    """peel() plus trivial blocks `{ expr }` (no statements)."""
    while True:
        n = peel(n)
        if isinstance(n, dict) and n.get("k") == "Block" and not n.get("stmts") and n.get("expr"):
            n = n["expr"]
            continue
        return n


def only(n):
    """unblock() plus blocks that consist of a single expression statement."""
    while True:
        n = unblock(n)
        if isinstance(n, dict) and n.get("k") == "Block" and len(n.get("stmts", [])) == 1 and not n.get("expr") and n["stmts"][0]["k"] == "Expr":
            n = n["stmts"][0]["e"]
            continue
        return n


def pat_binds(p, out=None):
    """All bindings (name, id) introduced by a pattern."""
    if out is None:
        out = []
    if not isinstance(p, dict):
        return out
    k = p.get("k")
    if k == "Bind":
        out.append((p["name"], p["id"]))
        pat_binds(p.get("sub"), out)
    elif k in ("Variant", "Leaf"):
        for s in p["sub"]:
            pat_binds(s["p"], out)
    elif k in ("Deref", "DerefPattern", "Guard"):
        pat_binds(p["sub"], out)
    elif k == "Or":
        for q in p["pats"]:
            pat_binds(q, out)
    elif k == "Slice":
        for q in p["prefix"] + p["suffix"]:
            pat_binds(q, out)
        pat_binds(p.get("slice"), out)
    return out


def pat_str(p):
    """Canonical text of a pattern: Expression::BooleanGroup(And, $group) etc.  The result compares equal to a template modulo
    a consistent renaming of the binders (alpha.S)."""
    import alpha
    return alpha.S(_pat_str(p))


def _pat_str(p):
    if p is None:
        return "_"
    k = p.get("k")
    if k == "Wild":
        return "_"
    if k == "Bind":
        s = "$" + p["name"]
        if p.get("sub"):
            s += "@" + _pat_str(p["sub"])
        return s
    if k == "Variant":
        name = p["adt"].split("::")[-1] + "::" + p["variant"]
        if p["nfields"] == 0:
            return name
        subs = {s["i"]: _pat_str(s["p"]) for s in p["sub"]}
        return name + "(" + ", ".join(subs.get(i, "_") for i in range(p["nfields"])) + ")"
    if k == "Leaf":
        if p["ty"].startswith("("):
            n = max([s["i"] for s in p["sub"]] + [-1]) + 1
            subs = {s["i"]: _pat_str(s["p"]) for s in p["sub"]}
            return "(" + ", ".join(subs.get(i, "_") for i in range(n)) + ")"
        return "{" + ", ".join("%s: %s" % (s["f"], _pat_str(s["p"])) for s in p["sub"]) + "}"
    if k in ("Deref", "DerefPattern"):
        return "&" + _pat_str(p["sub"])
    if k == "Const":
        return p["v"]
    if k == "Range":
        return p["v"]
    if k == "Or":
        return " | ".join(_pat_str(q) for q in p["pats"])
    if k == "Guard":
        return _pat_str(p["sub"]) + " if <guard>"
    if k == "Slice":
        return "[..]"
    return "<" + str(k) + ">"


def strip_ref(p):
    """Skip Deref patterns (match ergonomics / explicit &)."""
    while isinstance(p, dict) and p.get("k") in ("Deref", "DerefPattern"):
        p = p["sub"]
    return p


def or_pats(p):
    p = strip_ref(p)
    if p.get("k") == "Or":
        out = []
        for q in p["pats"]:
            out.extend(or_pats(q))
        return out
    return [p]


def variant_of(p):
    """(adt_last_segment, variant) for a Variant pattern (after stripping refs), else None."""
    p = strip_ref(p)
    if isinstance(p, dict) and p.get("k") == "Variant":
        return (p["adt"].split("::")[-1], p["variant"])
    return None


def subpat(p, i):
    p = strip_ref(p)
    for s in p.get("sub", []):
        if s["i"] == i:
            return s["p"]
    return None


def adt_is(n, adt_last, variant=None):
    n2 = n
    if not isinstance(n2, dict) or n2.get("k") != "Adt":
        return False
    if n2["adt"].split("::")[-1] != adt_last:
        return False
    return variant is None or n2["variant"] == variant


def call_is(n, suffix):
    return isinstance(n, dict) and n.get("k") == "Call" and (n.get("fn") or "").endswith(suffix)


def lit(n):
    """Literal payload of a Lit node: ('i', 90) / ('s', 'and ') / ('bool', True) / ('c','x') / ('f','1.0')."""
    n = peel(n)
    if not isinstance(n, dict) or n.get("k") != "Lit":
        return None
    v = n["v"]
    tag, _, rest = v.partition(":")
    if tag == "i":
        x = int(rest)
        return ("i", -x if n.get("neg") else x)
    if tag == "bool":
        return ("bool", rest == "true")
    return (tag, rest)


# --------------------------------------------------------------------------------------------
# Normalisation: for-loops and `?`

def _desugar(n):
    """Rewrite ForLoop / QuestionMark desugarings into For / Try nodes, recursively (in place copy)."""
    if isinstance(n, list):
        return [_desugar(x) for x in n]
    if not isinstance(n, dict):
        return n
    k = n.get("k")
    if k == "Match" and n.get("src") == "ForLoopDesugar" and call_is(n["scrut"], "IntoIterator::into_iter"):
        try:
            it = n["scrut"]["args"][0]
            loop = n["arms"][0]["body"]
            assert loop["k"] == "Loop"
            blk = loop["body"]
            inner = blk["stmts"][0]["e"] if blk["stmts"] else blk["expr"]
            assert inner["k"] == "Match" and call_is(inner["scrut"], "Iterator::next")
            some = [a for a in inner["arms"] if variant_of(a["pat"]) == ("Option", "Some")][0]
            pat = subpat(some["pat"], 0)
            return {
                "k": "For",
                "ty": "()",
                "sp": n["sp"],
                "pat": pat,
                "iter": _desugar(it),
                "body": _desugar(some["body"]),
            }
        except (AssertionError, IndexError, KeyError):
            pass
    if k == "Match" and n.get("src", "").startswith("TryDesugar") and call_is(n["scrut"], "Try::branch"):
        return {"k": "Try", "ty": n["ty"], "sp": n["sp"], "arg": _desugar(n["scrut"]["args"][0])}
    out = {}
    for key, v in n.items():
        if key in ("pat",):
            out[key] = v
        elif isinstance(v, (dict, list)):
            out[key] = _desugar(v)
        else:
            out[key] = v
    return _builtin_index(_explicit_tests(_bool_match(_explicit_while_let(_explicit_expect(_explicit_try(out))))))


def _only_break(n):
    n = unblock(n)
    if n.get("k") == "Block":
        if not n["stmts"] and n.get("expr") is not None:
            return _only_break(n["expr"])
        if len(n["stmts"]) == 1 and n["stmts"][0]["k"] == "Expr" and n.get("expr") is None:
            return _only_break(n["stmts"][0]["e"])
        return False
    return n.get("k") == "Break" and n.get("value") is None and not n.get("label_outer")


def _explicit_while_let(n):
    """`loop { let P = E else { break }; REST }` is `while let P = E { REST }`"""
    if n.get("k") == "Loop":
        b = n["body"]
        if isinstance(b, dict) and b.get("k") == "Block" and b["stmts"] and b["stmts"][0]["k"] == "Let" and b["stmts"][0].get("else") is not None \
                and b["stmts"][0].get("init") is not None and _only_break(b["stmts"][0]["else"]):
            st = b["stmts"][0]
            cond = {"k": "LetCond", "ty": "bool", "sp": st.get("sp"), "pat": st["pat"], "arg": st["init"]}
            then = {"k": "Block", "ty": "()", "sp": b.get("sp"), "unsafe": False, "stmts": b["stmts"][1:], "expr": b.get("expr")}
            iff = {"k": "If", "ty": "()", "sp": b.get("sp"), "cond": cond, "then": then, "else": st["else"], "exp": ["desugar:WhileLoop"]}
            out = dict(n)
            out["body"] = {"k": "Block", "ty": "()", "sp": b.get("sp"), "unsafe": False, "stmts": [], "expr": iff}
            return out
    return n


_TESTS = {("Option", "Some"): "std::option::Option::<T>::is_some", ("Option", "None"): "std::option::Option::<T>::is_none",
          ("Result", "Ok"): "std::result::Result::<T, E>::is_ok", ("Result", "Err"): "std::result::Result::<T, E>::is_err"}


def _payload_free(p):
    p = strip_ref(p)
    return p.get("k") == "Variant" and all(strip_ref(s["p"]).get("k") == "Wild" for s in p.get("sub") or [])


def _builtin_index(n):
    """the built-in `a[i]` on slices/arrays is given the same node as the overloaded `Index::index(a, i)` (Vec, HashMap, str)"""
    if n.get("k") == "Index" and n.get("arg") is not None and n.get("index") is not None:
        return {"k": "Call", "ty": n.get("ty"), "sp": n.get("sp"), "fn": "std::ops::Index::index", "local": False, "gen": [str(peel(n["arg"]).get("ty", ""))], "hir_call": False,
                "builtin_index": True, "args": [n["arg"], n["index"]]}
    return n


def _bool_match(n):
    """`match c { true => A, false => B }` (either order, second arm may be `_`) is `if c { A } else { B }`"""
    if n.get("k") == "Match" and len(n["arms"]) == 2 and not any(a.get("guard") for a in n["arms"]):
        vals = []
        for a in n["arms"]:
            p = strip_ref(a["pat"])
            if p.get("k") == "Const" and str(p.get("v")) in ("true", "false"):
                vals.append(str(p["v"]) == "true")
            elif p.get("k") == "Wild" and a is n["arms"][1]:
                vals.append(None)
            else:
                return n
        if vals[0] is None:
            return n
        if vals[1] is None:
            vals[1] = not vals[0]
        if vals[0] == vals[1]:
            return n
        t = n["arms"][0]["body"] if vals[0] else n["arms"][1]["body"]
        e = n["arms"][1]["body"] if vals[0] else n["arms"][0]["body"]
        return {"k": "If", "ty": n.get("ty"), "sp": n.get("sp"), "cond": n["scrut"], "then": t, "else": e}
    return n


def _explicit_tests(n):
    """`matches!(E, Some(_))` (= match E { Some(_) => true, _ => false }) is `E.is_some()`; likewise None/Ok/Err, and
    `if let Some(_) = E` is `if E.is_some()`"""
    k = n.get("k")
    if k == "Match" and len(n["arms"]) == 2 and not any(a.get("guard") for a in n["arms"]):
        a0, a1 = n["arms"]
        v0, v1 = lit(peel(a0["body"])), lit(peel(a1["body"]))
        if v0 == ("bool", True) and v1 == ("bool", False) and _payload_free(a0["pat"]) and strip_ref(a1["pat"]).get("k") == "Wild":
            fn = _TESTS.get(variant_of(a0["pat"]))
            if fn:
                return {"k": "Call", "ty": "bool", "sp": n.get("sp"), "fn": fn, "local": False, "gen": [], "hir_call": True, "synthetic": "test", "args": [n["scrut"]]}
    if k == "LetCond" and _payload_free(n["pat"]):
        fn = _TESTS.get(variant_of(n["pat"]))
        if fn:
            return {"k": "Call", "ty": "bool", "sp": n.get("sp"), "fn": fn, "local": False, "gen": [], "hir_call": True, "synthetic": "test", "args": [n["arg"]]}
    return n


def _ret_none(n):
    """`return None` (possibly in a block of its own)"""
    n = unblock(n)
    if n.get("k") == "Block":
        if not n["stmts"] and n.get("expr"):
            return _ret_none(n["expr"])
        if len(n["stmts"]) == 1 and n["stmts"][0]["k"] == "Expr" and not n.get("expr"):
            return _ret_none(n["stmts"][0]["e"])
        return False
    return n.get("k") == "Return" and n.get("value") is not None and adt_is(peel(n["value"]), "Option", "None")


def _panics(n):
    """the expression is nothing but a panic (panic!/unreachable!/unimplemented!), possibly in a block of its own"""
    n = unblock(n)
    if n.get("k") == "Block":
        if not n["stmts"] and n.get("expr") is not None:
            return _panics(n["expr"])
        if len(n["stmts"]) == 1 and n["stmts"][0]["k"] == "Expr" and n.get("expr") is None:
            return _panics(n["stmts"][0]["e"])
        return None
    if n.get("k") == "Call" and ("panicking::" in (n.get("fn") or "") or (n.get("fn") or "").endswith(("rt::panic_fmt", "rt::panic_display", "rt::begin_panic"))) and n.get("ty") == "!":
        return n
    return None


def _expect_of(scrut, ok_variant, panic_node, ty):
    """synthetic `scrut.expect("..")` standing for `match scrut { Some(x)/Ok(x) => x, _ => panic!(..) }`; it carries the span of
    the panic so that the MIR panic site maps onto it"""
    fn = "std::option::Option::<T>::expect" if ok_variant == "Some" else "std::result::Result::<T, E>::expect"
    return {"k": "Call", "ty": ty, "sp": panic_node.get("sp"), "fn": fn, "local": False, "gen": [ty], "hir_call": True, "synthetic": "expect",
            "args": [scrut, {"k": "Lit", "ty": "&str", "sp": panic_node.get("sp"), "v": "s:.."}]}


def _subst_first_use(body, bind, value):
    """`{ let x = V; f(g(x), ..) }` -> `f(g(V), ..)` when x is a plain binding used exactly once and that use is the first thing the
    body evaluates (receiver / first argument of a chain of calls, borrows and derefs), so evaluation order is unchanged."""
    if bind.get("k") != "Bind" or bind.get("sub"):
        return None
    uses = [x for x in walk(body) if x.get("k") in ("Var", "Upvar") and x.get("id") == bind["id"]]
    if len(uses) != 1:
        return None
    n = unblock(body)
    chain = []
    while True:
        k = n.get("k")
        if k in ("Borrow", "Deref", "Coerce", "ByUse", "Cast"):
            chain.append(n)
            n = n["arg"]
        elif k == "Call" and n.get("args") and n.get("fn"):
            chain.append(n)
            n = n["args"][0]
        elif k == "Block" and not n.get("stmts") and n.get("expr") is not None:
            n = n["expr"]
        else:
            break
    if n is not uses[0]:
        return None
    return _subst(unblock(body), {bind["id"]: value})


def _explicit_expect(n):
    """`match E { Some(P) => B, None => panic!(..) }` (also Ok/Err, `if let .. else { panic }`, `let .. else { panic }`) is
    `{ let P = E.expect(".."); B }`"""
    k = n.get("k")
    if k == "Match" and len(n["arms"]) == 2 and not any(a.get("guard") for a in n["arms"]):
        for okv, adt, badv in (("Some", "Option", "None"), ("Ok", "Result", "Err")):
            good = [a for a in n["arms"] if variant_of(a["pat"]) == (adt, okv)]
            bad = [a for a in n["arms"] if a not in good and (variant_of(a["pat"]) == (adt, badv) or strip_ref(a["pat"]).get("k") == "Wild")]
            if len(good) == 1 and len(bad) == 1 and bad[0] is n["arms"][1]:
                pn = _panics(bad[0]["body"])
                sub = subpat(good[0]["pat"], 0)
                if pn is None or sub is None:
                    continue
                # the Err payload must not be used by the panic (its message is elided anyway) - any use is only formatting
                ex = _expect_of(n["scrut"], okv, pn, sub.get("ty", "?"))
                b = peel(unblock(good[0]["body"]))
                if strip_ref(sub).get("k") == "Bind" and b.get("k") == "Var" and b.get("id") == strip_ref(sub).get("id") and not strip_ref(sub).get("sub"):
                    return ex
                one = _subst_first_use(good[0]["body"], strip_ref(sub), ex)
                if one is not None:
                    return one
                return {"k": "Block", "ty": n["ty"], "sp": n["sp"], "stmts": [{"k": "Let", "pat": sub, "init": ex, "else": None, "sp": n["sp"]}], "expr": good[0]["body"]}
    if k == "Block":
        for s in n["stmts"]:
            if s["k"] == "Let" and s.get("else") is not None and s.get("init") is not None and variant_of(s["pat"]) in (("Option", "Some"), ("Result", "Ok")):
                pn = _panics(s["else"])
                sub = subpat(s["pat"], 0)
                if pn is not None and sub is not None:
                    s["init"] = _expect_of(s["init"], variant_of(s["pat"])[1], pn, sub.get("ty", "?"))
                    s["pat"] = sub
                    s["else"] = None
    return n


def _explicit_try(n):
    """The hand-written spellings of `E?` on an Option are given the same node as `?`:
         match E { Some(x) => x, None => return None }        ->  E?
         let Some(P) = E else { return None };                ->  let P = E?;"""
    k = n.get("k")
    if k == "Match" and len(n["arms"]) == 2 and not any(a.get("guard") for a in n["arms"]):
        some = [a for a in n["arms"] if variant_of(a["pat"]) == ("Option", "Some")]
        none = [a for a in n["arms"] if variant_of(a["pat"]) == ("Option", "None") or strip_ref(a["pat"]).get("k") == "Wild"]
        if len(some) == 1 and len(none) == 1 and none[0] is n["arms"][1] and _ret_none(none[0]["body"]):
            sub = subpat(some[0]["pat"], 0)
            b = peel(unblock(some[0]["body"]))
            if sub is not None and sub.get("k") == "Bind" and not sub.get("sub") and b.get("k") == "Var" and b.get("id") == sub.get("id") and "Yes" not in sub.get("mode", ""):
                return {"k": "Try", "ty": n["ty"], "sp": n["sp"], "arg": n["scrut"]}
    if k == "Block":
        # `let _ = mem::replace(&mut PLACE, V);` (old value discarded) is the assignment `PLACE = V;`
        for i, s in enumerate(n["stmts"]):
            e = s.get("init") if s["k"] == "Let" and strip_ref(s["pat"]).get("k") == "Wild" and s.get("else") is None else s.get("e") if s["k"] == "Expr" else None
            if isinstance(e, dict) and call_is(e, "mem::replace") and len(e["args"]) == 2 and e["args"][0].get("k") == "Borrow" and e["args"][0].get("mut"):
                n["stmts"][i] = {"k": "Expr", "e": {"k": "Assign", "ty": "()", "sp": e.get("sp"), "lhs": e["args"][0]["arg"], "rhs": e["args"][1]}}
        for s in n["stmts"]:
            if s["k"] == "Let" and s.get("else") is not None and s.get("init") is not None and variant_of(s["pat"]) == ("Option", "Some") and _ret_none(s["else"]):
                sub = subpat(s["pat"], 0)
                if sub is not None:
                    s["init"] = {"k": "Try", "ty": sub.get("ty", "?"), "sp": s["init"].get("sp"), "arg": s["init"]}
                    s["pat"] = sub
                    s["else"] = None
    return n


# Functions that rules refer to by name (anchors) are never inlined; every other local function that is small, non-recursive and
# free of early returns is a *helper* and is inlined at its call sites, so that "extract a helper" refactorings do not move the
# constructs the rules look at.  On the pinned tree no function qualifies: the pass is the identity there.
ANCHOR_PREFIXES = (
    "parser::parse", "parser::parse_expr", "parser::parse_led", "parser::parse_nud", "parser::parse_mapping", "parser::parse_identifier",
    "parser::Expression::", "parser::MatchType::", "tokeniser::match_ahead", "tokeniser::consume_while", "tokeniser::Token::", "optimiser::coalesce", "optimiser::shake", "optimiser::shake_0", "optimiser::shake_1",
    "optimiser::rewrite", "optimiser::rewrite_search", "optimiser::matrix", "solver::solve", "solver::solve_expression", "solver::match_all",
    "solver::match_of", "solver::search", "solver::slow_aho", "rule::Rule::load", "rule::Rule::from_str", "rule::Rule::from_value", "rule::Rule::optimise", "rule::Rule::matches", "rule::Rule::validate",
    "value::Object::", "value::Value::", "error::", "core::solve", "core::solve_expression",
)
ANCHOR_EXACT = set(ANCHOR_PREFIXES)
HELPER_MAX_NODES = 2500


def is_anchor(name):
    if "<impl std::convert::From<" in name and "::{closure#" not in name:
        return False  # a conversion written in this crate is a helper like any other (`x.into()`)
    if name.startswith("<") or "::{closure#" in name or "<impl " in name:
        return True
    if name in ANCHOR_EXACT:
        return True
    return any(name.startswith(p) and p.endswith("::") for p in ANCHOR_PREFIXES)


def _count(n):
    c = 0
    for _ in walk(n):
        c += 1
        if c > HELPER_MAX_NODES:
            break
    return c


def _always_returns(n):
    n = peel(n)
    k = n.get("k")
    if k == "Return":
        return True
    if k == "Block":
        items = [s["e"] for s in n["stmts"] if s["k"] == "Expr"] + ([n["expr"]] if n.get("expr") is not None else [])
        return bool(items) and _always_returns(items[-1])
    if k == "If":
        return n.get("else") is not None and _always_returns(n["then"]) and _always_returns(n["else"])
    if k == "Match":
        return all(_always_returns(a["body"]) for a in n["arms"])
    return False


def _strip_return(n):
    """the value of an expression that always returns, as an expression (its `return v` leaves become `v`)"""
    k = n.get("k")
    if k == "Return":
        return n.get("value") if n.get("value") is not None else {"k": "Tuple", "ty": "()", "sp": n.get("sp"), "fields": []}
    if k == "Block":
        b = dict(n)
        stmts = list(n["stmts"])
        if n.get("expr") is not None:
            b["expr"] = _strip_return(n["expr"])
        elif stmts and stmts[-1]["k"] == "Expr":
            b["expr"] = _strip_return(stmts[-1]["e"])
            stmts = stmts[:-1]
        b["stmts"] = stmts
        return b
    if k == "If":
        b = dict(n)
        b["then"] = _strip_return(n["then"])
        b["else"] = _strip_return(n["else"])
        return b
    if k == "Match":
        b = dict(n)
        b["arms"] = [dict(a, body=_strip_return(a["body"])) for a in n["arms"]]
        return b
    if k in ("Borrow", "Deref", "Coerce", "ByUse"):
        return _strip_return(n["arg"])
    return n


def _unreturn(n):
    """A function body (Block) in which guard-clause returns and a trailing `return v;` are expressed as if/else tails."""
    if not isinstance(n, dict):
        return n
    k = n.get("k")
    if k == "Block":
        stmts = list(n["stmts"])
        tail = n.get("expr")
        if tail is None and stmts and stmts[-1]["k"] == "Expr" and _always_returns(stmts[-1]["e"]):
            tail = _strip_return(stmts[-1]["e"])
            stmts = stmts[:-1]
        for i, s in enumerate(stmts):
            if s["k"] == "Expr":
                e = peel(s["e"])
                if e.get("k") == "If" and e.get("else") is None and _always_returns(e["then"]) and peel(e["cond"]).get("k") != "LetCond":
                    rest = {"k": "Block", "ty": n.get("ty"), "sp": n.get("sp"), "unsafe": False, "stmts": stmts[i + 1:], "expr": tail}
                    new_if = dict(e)
                    new_if["then"] = _strip_return(e["then"])
                    new_if["else"] = _unreturn(rest)
                    new_if["ty"] = n.get("ty")
                    return {"k": "Block", "ty": n.get("ty"), "sp": n.get("sp"), "unsafe": n.get("unsafe", False), "stmts": stmts[:i], "expr": new_if}
        out = dict(n)
        out["stmts"] = stmts
        out["expr"] = _unreturn(tail) if tail is not None else None
        return out
    if k == "If" and n.get("else") is not None:
        out = dict(n)
        out["then"] = _unreturn(n["then"])
        out["else"] = _unreturn(n["else"])
        return out
    if k == "Match":
        out = dict(n)
        out["arms"] = [dict(a, body=_unreturn(a["body"])) for a in n["arms"]]
        return out
    if k == "Return" and n.get("value") is not None:
        return _unreturn(n["value"])
    return n


class Fn:
    def __init__(self, t, m, facts=None):
        self.name = (t or m)["fn"]
        self.thir = t
        self.mir = m
        self.facts = facts
        self._body = None
        self._raw = None

    @property
    def raw_body(self):
        """Desugared THIR body (For/Try nodes), before helper inlining."""
        if self._raw is None and self.thir is not None:
            self._raw = _desugar(self.thir["body"])
        return self._raw

    @property
    def helper_body(self):
        """raw body with guard-clause returns turned into if/else tails (`if c { return A }; rest` -> `if c { A } else { rest }`)"""
        if getattr(self, "_hbody", None) is None:
            self._hbody = _unreturn(self.raw_body)
        return self._hbody

    def is_helper(self, tail=False, under_try=False):
        """Non-recursive local function that no rule refers to by name.  Early returns that are guard clauses are first rewritten
        into if/else tails; with remaining `return`s it can only be inlined where its value is returned by the caller anyway
        (tail=True), with `?` also where the call itself is under a `?`."""
        if self.thir is None or is_anchor(self.name) or self.thir.get("kind") not in ("Fn", "AssocFn"):
            return False
        b = self.helper_body
        if _count(b) > HELPER_MAX_NODES:
            return False
        for x in walk(b):
            if x.get("k") == "Return" and not tail:
                return False
            if x.get("k") == "Try" and not (tail or under_try):
                return False
            if x.get("k") == "Call" and x.get("fn") == self.name:
                return False
        return all(p.get("pat") is not None and p["pat"].get("k") == "Bind" for p in self.thir["params"])

    @property
    def body(self):
        """Normalised THIR body: desugared, iterator chains as loops, helpers inlined."""
        if self._body is None and self.thir is not None:
            b = self.raw_body
            if self.facts is not None:
                _CLOSURES.append(_closure_env(b))
                try:
                    b = _normalise(b, self.facts, depth=0, tail=True)
                finally:
                    _CLOSURES.pop()
            self._body = b
        return self._body

    @property
    def sp(self):
        return (self.thir or self.mir)["sp"]


def _subst(n, m):
    """Replace parameter variables by the caller's argument expressions."""
    if not m:
        return n
    if isinstance(n, list):
        return [_subst(x, m) for x in n]
    if not isinstance(n, dict):
        return n
    if n.get("k") in ("Var", "Upvar") and n.get("id") in m:
        return m[n["id"]]
    return {k: (v if k == "pat" else _subst(v, m)) for k, v in n.items()}


_inline_counter = [0]


def _reid_only(n, off, ids):
    """fresh identities for the variables in `ids` only"""
    if isinstance(n, list):
        return [_reid_only(x, off, ids) for x in n]
    if not isinstance(n, dict):
        return n
    out = {}
    for k, v in n.items():
        if k == "id" and isinstance(v, int) and v in ids:
            out[k] = v + off
        else:
            out[k] = _reid_only(v, off, ids)
    return out


def _reid(n, off):
    """Give every variable of an inlined body a fresh identity (ids are only unique per function)."""
    if isinstance(n, list):
        return [_reid(x, off) for x in n]
    if not isinstance(n, dict):
        return n
    out = {}
    for k, v in n.items():
        if k == "id" and isinstance(v, int):
            out[k] = v + off
        else:
            out[k] = _reid(v, off)
    return out


_CLOSURES = []  # stack of {variable id: closure def} for the function bodies being normalised


def _closure_env(body):
    env = {}
    for x in walk(body):
        if x.get("k") == "Block":
            for s in x["stmts"]:
                if s["k"] == "Let" and strip_ref(s["pat"]).get("k") == "Bind" and s.get("init") is not None and peel(s["init"]).get("k") == "Closure" and strip_ref(s["pat"]).get("mode", "").endswith("Not)"):
                    env[strip_ref(s["pat"])["id"]] = peel(s["init"])["def"]
    return env


def _option_results_as_returns(body):
    """A copy of a function body whose results are all `Some(X)` / `None` (as `return` values or in tail position) in which `Some(X)`
    reads `return X` and `None` reads `()`; None if some result is neither."""
    def conv_ret(n):
        if isinstance(n, list):
            out_ = []
            for x in n:
                y = conv_ret(x)
                if y is None:
                    return None
                out_.append(y)
            return out_
        if not isinstance(n, dict):
            return n
        if n.get("k") == "Closure":
            return n
        if n.get("k") == "Return":
            v = peel(n["value"]) if n.get("value") is not None else None
            if v is not None and adt_is(v, "Option", "Some"):
                return dict(n, value=v["fields"][0]["e"])
            return None  # `return None` (skip the rest and fall through) or another value: not expressible in place
        out_ = {}
        for kk, vv in n.items():
            if kk == "pat" or not isinstance(vv, (dict, list)):
                out_[kk] = vv
            else:
                y = conv_ret(vv)
                if y is None and vv is not None:
                    return None
                out_[kk] = y
        return out_

    def conv_tail(n):
        n0 = n
        k = n.get("k")
        if k in ("Borrow", "Deref", "Coerce", "ByUse"):
            return None
        if k == "Block":
            if n.get("expr") is None:
                return None
            t = conv_tail(n["expr"])
            if t is None:
                return None
            stmts = list(n["stmts"]) + [{"k": "Expr", "e": t}]
            return dict(n, stmts=stmts, expr=None, ty="()")
        if k == "If" and n.get("else") is not None:
            a, b = conv_tail(n["then"]), conv_tail(n["else"])
            return None if a is None or b is None else dict(n, then=a, **{"else": b}, ty="()")
        if k == "Match":
            arms = []
            for a in n["arms"]:
                t = conv_tail(a["body"])
                if t is None:
                    return None
                arms.append(dict(a, body=t))
            return dict(n, arms=arms, ty="()")
        if adt_is(n, "Option", "Some"):
            return {"k": "Return", "ty": "!", "sp": n.get("sp"), "value": n["fields"][0]["e"]}
        if adt_is(n, "Option", "None"):
            return {"k": "Tuple", "ty": "()", "sp": n.get("sp"), "fields": []}
        if k == "Return":
            return n0
        return None
    b = conv_ret(body)
    if b is None:
        return None
    return conv_tail(b)


def _inline_closure_call(out, cdef, F, depth):
    """`f(args)` where f is the local closure `cdef`: the closure body with its parameters bound (None if not expressible)."""
    tup = peel(out["args"][1])
    clo = F.fns.get(cdef) if cdef else None
    if clo is not None and clo.thir is not None and tup.get("k") == "Tuple":
        ps = [p for p in clo.thir["params"] if p.get("pat") is not None]
        cbody = _unreturn(clo.raw_body)
        if len(ps) == len(tup["fields"]) and not any(x.get("k") in ("Return", "Try") for x in walk(cbody)):
            # every inlined copy gets fresh identities for the closure's own bindings (captured variables keep theirs)
            _inline_counter[0] += 1
            coff = 1000000 * _inline_counter[0]
            own = set()
            for p_ in ps:
                own |= {b[1] for b in pat_binds(p_["pat"])}
            for x in walk(cbody):
                if x.get("k") == "Block":
                    for st in x["stmts"]:
                        if st["k"] == "Let":
                            own |= {b[1] for b in pat_binds(st["pat"])}
                for key in ("arms",):
                    for a_ in x.get(key) or []:
                        own |= {b[1] for b in pat_binds(a_["pat"])}
                if x.get("k") in ("For", "LetCond") and x.get("pat") is not None:
                    own |= {b[1] for b in pat_binds(x["pat"])}
            cbody = _reid_only(cbody, coff, own)
            ps = [dict(p_, pat=_reid_only(p_["pat"], coff, own)) for p_ in ps]
            stmts = []
            subst = {}
            for p_, a in zip(ps, tup["fields"]):
                pb = strip_ref(p_["pat"])
                if pb.get("k") == "Bind" and not pb.get("sub") and peel(a).get("k") in ("Var", "Upvar", "Lit", "Const") and p_["pat"].get("k") == "Bind":
                    subst[pb["id"]] = a
                else:
                    stmts.append({"k": "Let", "sp": out["sp"], "pat": p_["pat"], "init": a, "else": None})
            inner = _subst(_normalise(cbody, F, depth + 1), subst)
            if not stmts:
                inner = dict(inner)
                inner["inlined"] = cdef
                return inner
            return {"k": "Block", "ty": out.get("ty"), "sp": out["sp"], "unsafe": False, "stmts": stmts, "expr": inner, "inlined": cdef}
    return None


def _apply_fn_params(n, fparams, F):
    """`f(x)` where f is a helper parameter that received the function item `path`: the direct call `path(x)`"""
    if isinstance(n, list):
        return [_apply_fn_params(x, fparams, F) for x in n]
    if not isinstance(n, dict):
        return n
    out = {k_: (v_ if k_ == "pat" else _apply_fn_params(v_, fparams, F)) for k_, v_ in n.items()}
    if out.get("k") == "Call" and not out.get("fn") and isinstance(out.get("fun"), dict):
        fv = peel(out["fun"])
        if fv.get("k") in ("Var", "Upvar") and fv.get("id") in fparams:
            out = dict(out)
            out["fn"] = fparams[fv["id"]]
            out["local"] = out["fn"] in F.fns
            out["gen"] = []
            out.pop("fun", None)
    return out


def _apply_closure_params(n, cparams, F, depth):
    """calls of a helper's closure parameter, after the helper body has been inlined: the argument closure's body"""
    if isinstance(n, list):
        return [_apply_closure_params(x, cparams, F, depth) for x in n]
    if not isinstance(n, dict):
        return n
    out = {k_: (v_ if k_ == "pat" else _apply_closure_params(v_, cparams, F, depth)) for k_, v_ in n.items()}
    if out.get("k") == "Call" and (out.get("fn") or "").endswith(("Fn::call", "FnMut::call_mut", "FnOnce::call_once")) and len(out["args"]) == 2:
        fv = peel(out["args"][0])
        while fv.get("k") in ("Borrow", "Deref") and isinstance(fv.get("arg"), dict):
            fv = peel(fv["arg"])
        if fv.get("k") in ("Var", "Upvar") and fv.get("id") in cparams:
            r = _inline_closure_call(out, cparams[fv["id"]], F, depth)
            if r is not None:
                return r
    return out


def _normalise(n, F, depth, tail=False, under_try=False):
    if isinstance(n, list):
        return [_normalise(x, F, depth) for x in n]
    if not isinstance(n, dict):
        return n
    k0 = n.get("k")
    out = {}
    for key, v in n.items():
        if key == "pat":
            out[key] = v
        elif isinstance(v, (dict, list)):
            # which children are in "return position" (their value is what the enclosing function returns)
            t = False
            if tail and k0 == "Block" and key == "expr":
                t = True
            elif tail and k0 == "If" and key in ("then", "else"):
                t = True
            elif k0 == "Return" and key == "value":
                t = True
            if k0 == "Match" and key == "arms":
                out[key] = [{kk: (_normalise(vv, F, depth, tail) if kk == "body" else (vv if kk == "pat" else _normalise(vv, F, depth))) for kk, vv in a.items()} for a in v]
            elif isinstance(v, dict):
                out[key] = _normalise(v, F, depth, t, under_try=(k0 == "Try" and key == "arg"))
            else:
                out[key] = _normalise(v, F, depth)
        else:
            out[key] = v
    k = out.get("k")
    # (0d) a match that only binds and tests guards (`match x { n if c1(n) => A, n if c2(n) => B, _ => C }`) is the if/else chain
    if k == "Match" and len(out["arms"]) >= 2 and all(strip_ref(a["pat"]).get("k") in ("Bind", "Wild") and not strip_ref(a["pat"]).get("sub") for a in out["arms"]) \
            and all(a.get("guard") is not None for a in out["arms"][:-1]) and out["arms"][-1].get("guard") is None and peel(out["scrut"]).get("k") in ("Var", "Upvar"):
        chain = None
        for a in reversed(out["arms"]):
            pb = strip_ref(a["pat"])
            m_ = {pb["id"]: out["scrut"]} if pb.get("k") == "Bind" else {}
            body = _subst(a["body"], m_) if m_ else a["body"]
            if chain is None:
                chain = body
            else:
                chain = {"k": "If", "ty": out.get("ty"), "sp": a.get("sp") or out.get("sp"), "cond": _subst(a["guard"], m_) if m_ else a["guard"], "then": body, "else": chain}
        return chain
    # (0c) `if let Some(r) = helper(args) { return r; }` where every result of the helper is `Some(X)` / `None`:
    #      the helper's body in place, with `Some(X)` results as `return X` and `None` results falling through
    if k == "If" and out.get("else") is None and peel(out["cond"]).get("k") == "LetCond" and depth < 3:
        lc = peel(out["cond"])
        call = peel(lc["arg"])
        pb = strip_ref(subpat(lc["pat"], 0)) if variant_of(lc["pat"]) == ("Option", "Some") else None
        th = unblock(out["then"])
        while th.get("k") == "Block" and len(th["stmts"]) + (1 if th.get("expr") is not None else 0) == 1:
            th = unblock(th["stmts"][0]["e"] if th["stmts"] else th["expr"])
        callee = F.fns.get(call.get("fn")) if call.get("k") == "Call" and call.get("local") else None
        if callee is not None and pb is not None and pb.get("k") == "Bind" and th.get("k") == "Return" and th.get("value") is not None and peel(th["value"]).get("k") == "Var" \
                and peel(th["value"])["id"] == pb["id"] and callee.thir is not None and not is_anchor(callee.name) and len(callee.thir["params"]) == len(call["args"]) \
                and all(p.get("pat") is not None and p["pat"].get("k") == "Bind" for p in callee.thir["params"]) and _count(callee.raw_body) <= HELPER_MAX_NODES \
                and not any(x.get("k") == "Call" and x.get("fn") == callee.name for x in walk(callee.raw_body)):
            conv = _option_results_as_returns(callee.raw_body)
            if conv is not None:
                _inline_counter[0] += 1
                off = 1000000 * _inline_counter[0]
                stmts = []
                sub_ = {}
                for p, a in zip(callee.thir["params"], call["args"]):
                    core_a = peel(a)
                    if core_a.get("k") in ("Var", "Upvar", "Lit", "Const"):
                        sub_[p["pat"]["id"] + off] = a
                    else:
                        stmts.append({"k": "Let", "sp": out["sp"], "pat": _reid(p["pat"], off), "init": a, "else": None})
                _CLOSURES.append(_closure_env(conv))
                try:
                    inner = _subst(_reid(_normalise(conv, F, depth + 1), off), sub_)
                finally:
                    _CLOSURES.pop()
                stmts.append({"k": "Expr", "e": inner})
                return {"k": "Block", "ty": "()", "sp": out["sp"], "unsafe": False, "stmts": stmts, "expr": None, "inlined": callee.name}
    # (0a) `while let Some(p) = it.next() { body }` is `for p in it.by_ref() { body }`
    if k == "Loop":
        b_ = unblock(out["body"])
        while b_.get("k") == "Block" and not b_["stmts"] and b_.get("expr") is not None:
            b_ = unblock(b_["expr"])
        if b_.get("k") == "If" and b_.get("else") is not None and peel(b_["cond"]).get("k") == "LetCond":
            lc = peel(b_["cond"])
            nx = peel(lc["arg"])
            el = unblock(b_["else"])
            while el.get("k") == "Block" and len(el["stmts"]) + (1 if el.get("expr") is not None else 0) == 1:
                el = unblock(el["stmts"][0]["e"] if el["stmts"] else el["expr"])
            if el.get("k") == "Break" and el.get("value") is None and call_is(nx, "Iterator::next") and len(nx["args"]) == 1 and variant_of(lc["pat"]) == ("Option", "Some") and strip_ref(lc["pat"]).get("sub") \
                    and peel(nx["args"][0]).get("k") in ("Var", "Upvar"):
                itx = {"k": "Call", "ty": nx["args"][0].get("ty"), "sp": nx.get("sp"), "fn": "std::iter::Iterator::by_ref", "local": False, "gen": [], "hir_call": False, "args": [nx["args"][0]]}
                return {"k": "For", "ty": "()", "sp": out.get("sp"), "pat": strip_ref(lc["pat"])["sub"][0]["p"], "iter": itx, "body": b_["then"], "from_while_let": True}
    # (0) a local constant with a closed initialiser is its value (`const WIDTH: usize = 64`, `Side::TRUE`)
    if k == "Const" and out.get("path") in getattr(F, "consts", {}):
        v = peel(F.consts[out["path"]])
        while v.get("k") == "Block" and not v["stmts"] and v.get("expr") is not None:
            v = peel(v["expr"])
        v = dict(v)
        v["const"] = out["path"]
        v["sp"] = out.get("sp")
        return v
    # (0b) `x.into()` / `T::from(x)` through a conversion written in this crate is a call of that `from`
    if k == "Call" and not out.get("local") and (out.get("fn") or "").endswith(("convert::Into::into", "convert::From::from")) and len(out.get("gen") or []) == 2 and len(out["args"]) == 1:
        g = out["gen"]
        src_t, dst_t = (g[0], g[1]) if out["fn"].endswith("into") else (g[1], g[0])
        want = "<impl std::convert::From<%s> for %s>::from" % (src_t, dst_t)
        cands = [nm for nm in F.fns if nm.endswith(want)]
        if len(cands) == 1:
            out["fn"] = cands[0]
            out["local"] = True
            out["gen"] = []
    # (1) helper inlining
    if k == "Call" and out.get("local") and depth < 3:
        callee = F.fns.get(out.get("fn"))
        if callee is not None and callee.is_helper(tail=tail, under_try=under_try) and len(callee.thir["params"]) == len(out["args"]):
            _inline_counter[0] += 1
            off = 1000000 * _inline_counter[0]
            stmts = []
            subst = {}
            cparams = {}
            fparams = {}
            for p, a in zip(callee.thir["params"], out["args"]):
                core_a = peel(a)
                if core_a.get("k") == "Closure" and p["pat"].get("k") == "Bind":
                    cparams[p["pat"]["id"] + off] = core_a["def"]
                while core_a.get("k") == "Call" and (core_a.get("fn") or "").endswith(("Deref::deref", "::as_slice", "::as_str", "AsRef::as_ref")) and len(core_a["args"]) == 1:
                    core_a = peel(core_a["args"][0])  # a view of a variable (`&*v`, `v.as_slice()`) is as good as the variable
                if core_a.get("k") == "Zst" and core_a.get("fn") and p["pat"].get("k") == "Bind":
                    fparams[p["pat"]["id"] + off] = core_a["fn"]  # a function item handed over as a `fn(..)` value
                if core_a.get("k") in ("Var", "Upvar", "Lit", "Const") or (core_a.get("k") == "Field" and peel(core_a["arg"]).get("k") in ("Var", "Upvar")):
                    subst[p["pat"]["id"] + off] = a  # a plain variable / literal argument simply takes the parameter's place
                else:
                    stmts.append({"k": "Let", "sp": out["sp"], "pat": _reid(p["pat"], off), "init": a, "else": None})
            _CLOSURES.append(_closure_env(callee.helper_body))
            try:
                inner = _subst(_reid(_normalise(callee.helper_body, F, depth + 1, tail), off), subst)
            finally:
                _CLOSURES.pop()
            if fparams:
                inner = _apply_fn_params(inner, fparams, F)
                used = {x.get("id") for x in walk(inner) if x.get("k") in ("Var", "Upvar")}
                stmts = [st for st in stmts if not (strip_ref(st["pat"]).get("id") in fparams and strip_ref(st["pat"]).get("id") not in used)]
            if cparams:
                inner = _apply_closure_params(inner, cparams, F, depth)
                used = {x.get("id") for x in walk(inner) if x.get("k") in ("Var", "Upvar")}
                stmts = [st for st in stmts if not (strip_ref(st["pat"]).get("id") in cparams and strip_ref(st["pat"]).get("id") not in used)]
            if not stmts:
                inner = dict(inner)
                inner["inlined"] = callee.name
                return inner
            return {"k": "Block", "ty": out.get("ty"), "sp": out["sp"], "unsafe": False, "stmts": stmts, "expr": inner, "inlined": callee.name}
    # (1b) a call of a local closure (`let f = |a| body; .. f(x)`) is the closure body with its parameters bound
    if k == "Call" and (out.get("fn") or "").endswith(("Fn::call", "FnMut::call_mut", "FnOnce::call_once")) and len(out["args"]) == 2 and depth < 3:
        fv = peel(out["args"][0])
        cdef = _CLOSURES[-1].get(fv.get("id")) if _CLOSURES and fv.get("k") in ("Var", "Upvar") else None
        r = _inline_closure_call(out, cdef, F, depth)
        if r is not None:
            return r
    # (2) `iter.map(closure).collect()` as an explicit loop that pushes in order
    if k == "Call" and (out.get("fn") or "").endswith("Iterator::collect") and out["args"]:
        m = peel(out["args"][0])
        fnitem = peel(m["args"][1]) if call_is(m, "Iterator::map") else {}
        if call_is(m, "Iterator::map") and fnitem.get("k") == "Zst" and fnitem.get("fn") and (out.get("ty") or "").startswith("std::vec::Vec<"):
            # `.map(function)`: the same as `.map(|x| function(x))`
            _inline_counter[0] += 1
            vid = 1000000 * _inline_counter[0] + 999999
            xid = vid - 1
            outv = {"k": "Var", "ty": out["ty"], "sp": out["sp"], "name": "collected", "id": vid}
            xv = {"k": "Var", "ty": "?", "sp": out["sp"], "name": "item", "id": xid}
            body = {"k": "Call", "ty": "?", "sp": out["sp"], "fn": fnitem["fn"], "local": fnitem["fn"] in F.fns, "gen": [], "hir_call": True, "args": [xv]}
            push = {"k": "Call", "ty": "()", "sp": out["sp"], "fn": "std::vec::Vec::<T, A>::push", "local": False, "gen": [], "hir_call": False, "args": [outv, body]}
            loop = {"k": "For", "ty": "()", "sp": out["sp"], "pat": {"k": "Bind", "ty": "?", "name": "item", "id": xid, "mode": "", "sub": None}, "iter": m["args"][0], "body": push}
            return {"k": "Block", "ty": out["ty"], "sp": out["sp"], "unsafe": False,
                    "stmts": [{"k": "Let", "sp": out["sp"], "pat": {"k": "Bind", "ty": out["ty"], "name": "collected", "id": vid, "mode": "", "sub": None},
                               "init": {"k": "Call", "ty": out["ty"], "sp": out["sp"], "fn": "std::vec::Vec::<T>::new", "local": False, "gen": [], "hir_call": True, "args": []}, "else": None},
                              {"k": "Expr", "e": loop}],
                    "expr": outv, "collected": True}
        if call_is(m, "Iterator::map") and peel(m["args"][1]).get("k") == "Closure" and (out.get("ty") or "").startswith("std::vec::Vec<"):
            clo = F.fns.get(peel(m["args"][1])["def"])
            if clo is not None and clo.thir is not None:
                ps = [p for p in clo.thir["params"] if p.get("pat") is not None]
                if len(ps) == 1:
                    _inline_counter[0] += 1
                    vid = 1000000 * _inline_counter[0] + 999999
                    outv = {"k": "Var", "ty": out["ty"], "sp": out["sp"], "name": "collected", "id": vid}
                    body = _normalise(clo.raw_body, F, depth + 1)
                    push = {"k": "Call", "ty": "()", "sp": out["sp"], "fn": "std::vec::Vec::<T, A>::push", "local": False, "gen": [], "hir_call": False, "args": [outv, body]}
                    loop = {"k": "For", "ty": "()", "sp": out["sp"], "pat": ps[0]["pat"], "iter": m["args"][0], "body": push}
                    return {"k": "Block", "ty": out["ty"], "sp": out["sp"], "unsafe": False,
                            "stmts": [{"k": "Let", "sp": out["sp"], "pat": {"k": "Bind", "ty": out["ty"], "name": "collected", "id": vid, "mode": "", "sub": None},
                                       "init": {"k": "Call", "ty": out["ty"], "sp": out["sp"], "fn": "std::vec::Vec::<T>::new", "local": False, "gen": [], "hir_call": True, "args": []}, "else": None},
                                      {"k": "Expr", "e": loop}],
                            "expr": outv, "collected": True}
    # (2a) `iter.map(closure).collect::<Result<Vec<_>, _>>()?` is the loop that pushes `closure body?` in order
    if k == "Try" and call_is(peel(out["arg"]), "Iterator::collect") and str(peel(out["arg"]).get("ty") or "").startswith("std::result::Result<std::vec::Vec<"):
        c_ = peel(out["arg"])
        m = peel(c_["args"][0]) if c_["args"] else {}
        if call_is(m, "Iterator::map") and peel(m["args"][1]).get("k") == "Closure":
            clo = F.fns.get(peel(m["args"][1])["def"])
            ps = [p for p in clo.thir["params"] if p.get("pat") is not None] if clo is not None and clo.thir is not None else []
            cbody = _unreturn(clo.raw_body) if ps else None
            if len(ps) == 1 and not any(x.get("k") in ("Return", "Try") for x in walk(cbody)):
                sp = out["sp"]
                _inline_counter[0] += 1
                vid = 1000000 * _inline_counter[0] + 999994
                vty = out.get("ty")
                outv = {"k": "Var", "ty": vty, "sp": sp, "name": "collected", "id": vid}
                item = {"k": "Try", "ty": "?", "sp": sp, "arg": _normalise(cbody, F, depth + 1)}
                push = {"k": "Call", "ty": "()", "sp": sp, "fn": "std::vec::Vec::<T, A>::push", "local": False, "gen": [], "hir_call": False, "args": [outv, item]}
                loop = {"k": "For", "ty": "()", "sp": sp, "pat": ps[0]["pat"], "iter": m["args"][0], "body": push}
                return {"k": "Block", "ty": vty, "sp": sp, "unsafe": False,
                        "stmts": [{"k": "Let", "sp": sp, "pat": {"k": "Bind", "ty": vty, "name": "collected", "id": vid, "mode": "BindingMode(No, Mut)", "sub": None},
                                   "init": {"k": "Call", "ty": vty, "sp": sp, "fn": "std::vec::Vec::<T>::new", "local": False, "gen": [], "hir_call": True, "args": []}, "else": None},
                                  {"k": "Expr", "e": loop}],
                        "expr": outv, "collected": True}
    # (2b) short-circuiting adaptors with a closure are the flag loops they stand for
    if k == "Call" and (out.get("fn") or "").endswith(("Iterator::any", "Iterator::all")) and len(out["args"]) == 2 and peel(out["args"][1]).get("k") in ("Closure", "Zst"):
        if peel(out["args"][1]).get("k") == "Zst":
            # `.all(predicate_fn)`: the same as `.all(|x| predicate_fn(x))`
            fnitem = peel(out["args"][1])
            _inline_counter[0] += 1
            xid = 1000000 * _inline_counter[0] + 999993
            xv = {"k": "Var", "ty": "?", "sp": out["sp"], "name": "item", "id": xid}
            ps = [{"ty": "?", "pat": {"k": "Bind", "ty": "?", "name": "item", "id": xid, "mode": "BindingMode(No, Not)", "sub": None}}] if fnitem.get("fn") else []
            cbody = {"k": "Call", "ty": "bool", "sp": out["sp"], "fn": fnitem.get("fn"), "local": fnitem.get("fn") in F.fns, "gen": [], "hir_call": True, "args": [xv]} if ps else None
        else:
            clo = F.fns.get(peel(out["args"][1])["def"])
            ps = [p for p in clo.thir["params"] if p.get("pat") is not None] if clo is not None and clo.thir is not None else []
            cbody = _unreturn(clo.raw_body) if ps else None
        is_any = (out.get("fn") or "").endswith("Iterator::any")
        _inline_counter[0] += 1
        fid = 1000000 * _inline_counter[0] + 999998
        flag = {"k": "Var", "ty": "bool", "sp": out["sp"], "name": "found" if is_any else "all", "id": fid}
        if cbody is not None:
            # a literal `return false` / `return true` left in the closure decides this element: it is `continue` or "set the flag and stop"
            def _ret(n_):
                if isinstance(n_, list):
                    return [_ret(x) for x in n_]
                if not isinstance(n_, dict):
                    return n_
                if n_.get("k") == "Closure":
                    return n_
                if n_.get("k") == "Return" and lit(n_.get("value")) in (("bool", True), ("bool", False)):
                    v_ = lit(n_["value"])[1]
                    if v_ != is_any:
                        return {"k": "Continue", "ty": "!", "sp": n_.get("sp")}
                    st_ = {"k": "Assign", "ty": "()", "sp": n_.get("sp"), "lhs": flag, "rhs": {"k": "Lit", "ty": "bool", "sp": n_.get("sp"), "v": "bool:true" if is_any else "bool:false"}}
                    return {"k": "Block", "ty": "!", "sp": n_.get("sp"), "unsafe": False, "stmts": [{"k": "Expr", "e": st_}, {"k": "Expr", "e": {"k": "Break", "ty": "!", "sp": n_.get("sp"), "value": None}}], "expr": None}
                return {kk: (vv if kk == "pat" else _ret(vv)) for kk, vv in n_.items()}
            cbody = _ret(cbody)
        if len(ps) == 1 and not any(x.get("k") in ("Return", "Try") for x in walk(cbody)):
            body = _normalise(cbody, F, depth + 1)
            cond = body if is_any else {"k": "Unary", "ty": "bool", "sp": out["sp"], "op": "Not", "arg": body}
            setf = {"k": "Assign", "ty": "()", "sp": out["sp"], "lhs": flag, "rhs": {"k": "Lit", "ty": "bool", "sp": out["sp"], "v": "bool:true" if is_any else "bool:false"}}
            brk = {"k": "Break", "ty": "!", "sp": out["sp"], "value": None}
            then = {"k": "Block", "ty": "()", "sp": out["sp"], "unsafe": False, "stmts": [{"k": "Expr", "e": setf}, {"k": "Expr", "e": brk}], "expr": None}
            iff = {"k": "If", "ty": "()", "sp": out["sp"], "cond": cond, "then": then, "else": None}
            loop = {"k": "For", "ty": "()", "sp": out["sp"], "pat": ps[0]["pat"], "iter": out["args"][0], "body": {"k": "Block", "ty": "()", "sp": out["sp"], "unsafe": False, "stmts": [], "expr": iff}, "adaptor": "any" if is_any else "all"}
            return {"k": "Block", "ty": "bool", "sp": out["sp"], "unsafe": False,
                    "stmts": [{"k": "Let", "sp": out["sp"], "pat": {"k": "Bind", "ty": "bool", "name": flag["name"], "id": fid, "mode": "BindingMode(No, Mut)", "sub": None},
                               "init": {"k": "Lit", "ty": "bool", "sp": out["sp"], "v": "bool:false" if is_any else "bool:true"}, "else": None},
                              {"k": "Expr", "e": loop}],
                    "expr": flag, "adaptor": "any" if is_any else "all"}
    # (2b') `iter.find_map(|x| body)`: the first Some(..) the body yields, as a loop
    if k == "Call" and (out.get("fn") or "").endswith("Iterator::find_map") and len(out["args"]) == 2 and peel(out["args"][1]).get("k") == "Closure":
        clo = F.fns.get(peel(out["args"][1])["def"])
        ps = [p for p in clo.thir["params"] if p.get("pat") is not None] if clo is not None and clo.thir is not None else []
        cbody = _unreturn(clo.raw_body) if ps else None
        if cbody is not None:
            def _retn(n_):
                if isinstance(n_, list):
                    return [_retn(x) for x in n_]
                if not isinstance(n_, dict):
                    return n_
                if n_.get("k") == "Closure":
                    return n_
                if n_.get("k") == "Return" and n_.get("value") is not None and adt_is(peel(n_["value"]), "Option", "None"):
                    return {"k": "Continue", "ty": "!", "sp": n_.get("sp")}  # nothing for this item
                return {kk: (vv if kk == "pat" else _retn(vv)) for kk, vv in n_.items()}
            cbody = _retn(cbody)
        if len(ps) == 1 and not any(x.get("k") in ("Return", "Try") for x in walk(cbody)):
            _inline_counter[0] += 1
            rid = 1000000 * _inline_counter[0] + 999996
            rv = {"k": "Var", "ty": out.get("ty"), "sp": out["sp"], "name": "found", "id": rid}
            none = {"k": "Adt", "ty": out.get("ty"), "sp": out["sp"], "adt": "std::option::Option", "variant": "None", "fields": []}
            setr = {"k": "Assign", "ty": "()", "sp": out["sp"], "lhs": rv, "rhs": _normalise(cbody, F, depth + 1)}
            test = {"k": "Call", "ty": "bool", "sp": out["sp"], "fn": "std::option::Option::<T>::is_some", "local": False, "gen": [], "hir_call": True, "args": [rv]}
            brk = {"k": "Block", "ty": "()", "sp": out["sp"], "unsafe": False, "stmts": [{"k": "Expr", "e": {"k": "Break", "ty": "!", "sp": out["sp"], "value": None}}], "expr": None}
            iff = {"k": "If", "ty": "()", "sp": out["sp"], "cond": test, "then": brk, "else": None}
            loop = {"k": "For", "ty": "()", "sp": out["sp"], "pat": ps[0]["pat"], "iter": out["args"][0], "adaptor": "find_map",
                    "body": {"k": "Block", "ty": "()", "sp": out["sp"], "unsafe": False, "stmts": [{"k": "Expr", "e": setr}, {"k": "Expr", "e": iff}], "expr": None}}
            return {"k": "Block", "ty": out.get("ty"), "sp": out["sp"], "unsafe": False, "adaptor": "find_map",
                    "stmts": [{"k": "Let", "sp": out["sp"], "pat": {"k": "Bind", "ty": out.get("ty"), "name": "found", "id": rid, "mode": "BindingMode(No, Mut)", "sub": None}, "init": none, "else": None},
                              {"k": "Expr", "e": loop}],
                    "expr": rv}
    # (2c) `opt.is_some_and(|x| body)` is `match opt { Some(x) => body, None => false }`
    if k == "Call" and (out.get("fn") or "").endswith(("Option::<T>::is_some_and", "Option::<T>::is_none_or")) and len(out["args"]) == 2 and peel(out["args"][1]).get("k") == "Closure":
        clo = F.fns.get(peel(out["args"][1])["def"])
        ps = [p for p in clo.thir["params"] if p.get("pat") is not None] if clo is not None and clo.thir is not None else []
        cbody = _unreturn(clo.raw_body) if ps else None
        if len(ps) == 1 and not any(x.get("k") in ("Return", "Try") for x in walk(cbody)):
            other = out["fn"].endswith("is_none_or")
            some_pat = {"k": "Variant", "adt": "std::option::Option", "variant": "Some", "nfields": 1, "ty": str(out["args"][0].get("ty")), "sub": [{"f": "0", "i": 0, "p": ps[0]["pat"]}]}
            none_pat = {"k": "Variant", "adt": "std::option::Option", "variant": "None", "nfields": 0, "ty": str(out["args"][0].get("ty")), "sub": []}
            return {"k": "Match", "ty": "bool", "sp": out["sp"], "scrut": out["args"][0], "src": "adaptor",
                    "arms": [{"pat": some_pat, "guard": None, "body": _normalise(cbody, F, depth + 1), "sp": out["sp"]},
                             {"pat": none_pat, "guard": None, "body": {"k": "Lit", "ty": "bool", "sp": out["sp"], "v": "bool:true" if other else "bool:false"}, "sp": out["sp"]}]}
    # (2d) `iter.filter(|x| p).count()` is the counting loop
    if k == "Call" and (out.get("fn") or "").endswith("Iterator::count") and out["args"] and call_is(peel(out["args"][0]), "Iterator::filter") and peel(peel(out["args"][0])["args"][1]).get("k") == "Closure":
        fl = peel(out["args"][0])
        clo = F.fns.get(peel(fl["args"][1])["def"])
        ps = [p for p in clo.thir["params"] if p.get("pat") is not None] if clo is not None and clo.thir is not None else []
        cbody = _unreturn(clo.raw_body) if ps else None
        if len(ps) == 1 and not any(x.get("k") in ("Return", "Try") for x in walk(cbody)):
            _inline_counter[0] += 1
            nid = 1000000 * _inline_counter[0] + 999997
            xid = nid - 1
            cnt = {"k": "Var", "ty": "usize", "sp": out["sp"], "name": "count", "id": nid}
            xv = {"k": "Var", "ty": "?", "sp": out["sp"], "name": "item", "id": xid}
            inc = {"k": "AssignOp", "ty": "()", "sp": out["sp"], "op": "AddAssign", "lhs": cnt, "rhs": {"k": "Lit", "ty": "usize", "sp": out["sp"], "v": "i:1"}}
            iff = {"k": "If", "ty": "()", "sp": out["sp"], "cond": _normalise(cbody, F, depth + 1), "then": {"k": "Block", "ty": "()", "sp": out["sp"], "unsafe": False, "stmts": [{"k": "Expr", "e": inc}], "expr": None}, "else": None}
            bind = {"k": "Let", "sp": out["sp"], "pat": ps[0]["pat"], "init": {"k": "Borrow", "ty": "?", "sp": out["sp"], "mut": False, "arg": xv}, "else": None}
            loop = {"k": "For", "ty": "()", "sp": out["sp"], "pat": {"k": "Bind", "ty": "?", "name": "item", "id": xid, "mode": "BindingMode(No, Not)", "sub": None}, "iter": fl["args"][0],
                    "body": {"k": "Block", "ty": "()", "sp": out["sp"], "unsafe": False, "stmts": [bind, {"k": "Expr", "e": iff}], "expr": None}, "adaptor": "filter-count"}
            return {"k": "Block", "ty": "usize", "sp": out["sp"], "unsafe": False,
                    "stmts": [{"k": "Let", "sp": out["sp"], "pat": {"k": "Bind", "ty": "usize", "name": "count", "id": nid, "mode": "BindingMode(No, Mut)", "sub": None},
                               "init": {"k": "Lit", "ty": "usize", "sp": out["sp"], "v": "i:0"}, "else": None},
                              {"k": "Expr", "e": loop}],
                    "expr": cnt, "adaptor": "filter-count"}
    # (2e) `iter.fold(init, |acc, x| body)` is `let mut acc = init; for x in iter { acc = body }; acc` (and `acc = acc + 1` is `acc += 1`)
    if k == "Call" and (out.get("fn") or "").endswith("Iterator::fold") and len(out["args"]) == 3 and peel(out["args"][2]).get("k") == "Closure":
        clo = F.fns.get(peel(out["args"][2])["def"])
        ps = [p for p in clo.thir["params"] if p.get("pat") is not None] if clo is not None and clo.thir is not None else []
        cbody = _unreturn(clo.raw_body) if ps else None
        if len(ps) == 2 and ps[0]["pat"].get("k") == "Bind" and not ps[0]["pat"].get("sub") and not any(x.get("k") in ("Return", "Try") for x in walk(cbody)):
            sp = out["sp"]
            aid = ps[0]["pat"]["id"]
            acc = {"k": "Var", "ty": out.get("ty"), "sp": sp, "name": ps[0]["pat"].get("name", "acc"), "id": aid}
            body = _normalise(cbody, F, depth + 1)
            core = unblock(body)
            while core.get("k") == "Block" and not core["stmts"] and core.get("expr") is not None:
                core = unblock(core["expr"])
            if core.get("k") == "Binary" and core.get("op") == "Add" and peel(core["lhs"]).get("k") == "Var" and peel(core["lhs"]).get("id") == aid and lit(core["rhs"]) is not None:
                step = {"k": "AssignOp", "ty": "()", "sp": core.get("sp", sp), "op": "AddAssign", "lhs": acc, "rhs": core["rhs"], "folded": True}
            else:
                step = {"k": "Assign", "ty": "()", "sp": sp, "lhs": acc, "rhs": body}
            loop = {"k": "For", "ty": "()", "sp": sp, "pat": ps[1]["pat"], "iter": out["args"][0], "adaptor": "fold",
                    "body": {"k": "Block", "ty": "()", "sp": sp, "unsafe": False, "stmts": [{"k": "Expr", "e": step}], "expr": None}}
            return {"k": "Block", "ty": out.get("ty"), "sp": sp, "unsafe": False, "adaptor": "fold",
                    "stmts": [{"k": "Let", "sp": sp, "pat": dict(ps[0]["pat"], mode="BindingMode(No, Mut)"), "init": out["args"][1], "else": None},
                              {"k": "Expr", "e": loop}],
                    "expr": acc}
    # (3) `v.extend(iter.map(closure))` on a Vec is the loop `for p in iter { v.push(closure body) }`
    if k == "Call" and (out.get("fn") or "").endswith("Extend::extend") and len(out["args"]) == 2 and "std::vec::Vec<" in str(out["args"][0].get("ty")):
        m = peel(out["args"][1])
        if call_is(m, "Iterator::map") and peel(m["args"][1]).get("k") == "Closure":
            clo = F.fns.get(peel(m["args"][1])["def"])
            ps = [p for p in clo.thir["params"] if p.get("pat") is not None] if clo is not None and clo.thir is not None else []
            if len(ps) == 1:
                body = _normalise(clo.raw_body, F, depth + 1)
                push = {"k": "Call", "ty": "()", "sp": out["sp"], "fn": "std::vec::Vec::<T, A>::push", "local": False, "gen": [], "hir_call": False, "args": [out["args"][0], body]}
                return {"k": "For", "ty": "()", "sp": out["sp"], "pat": ps[0]["pat"], "iter": m["args"][0], "body": push, "extended": True}
    # (3b) `v.resize_with(n, || e)` / `v.resize(n, e)` on a vector (empty at that point: the rules that measure it check its initialiser)
    #      is `for _ in 0..n { v.push(e) }`
    if k == "Call" and (out.get("fn") or "").endswith(("Vec::<T, A>::resize_with", "Vec::<T, A>::resize")) and len(out["args"]) == 3:
        sp = out["sp"]
        val = None
        if out["fn"].endswith("resize_with") and peel(out["args"][2]).get("k") == "Closure":
            clo = F.fns.get(peel(out["args"][2])["def"])
            if clo is not None and clo.thir is not None and not [p for p in clo.thir["params"] if p.get("pat") is not None]:
                val = _normalise(_unreturn(clo.raw_body), F, depth + 1)
        elif out["fn"].endswith("::resize") and peel(out["args"][2]).get("k") in ("Adt", "Lit", "Const"):
            val = out["args"][2]
        if val is not None:
            rng = {"k": "Adt", "ty": "std::ops::Range<usize>", "sp": sp, "adt": "std::ops::Range", "variant": "Range",
                   "fields": [{"name": "start", "e": {"k": "Lit", "ty": "usize", "sp": sp, "neg": False, "v": "i:0"}}, {"name": "end", "e": out["args"][1]}]}
            push = {"k": "Call", "ty": "()", "sp": sp, "fn": "std::vec::Vec::<T, A>::push", "local": False, "gen": [], "hir_call": False, "args": [out["args"][0], val]}
            return {"k": "For", "ty": "()", "sp": sp, "pat": {"k": "Wild", "ty": "usize"}, "iter": rng,
                    "body": {"k": "Block", "ty": "()", "sp": sp, "unsafe": False, "stmts": [{"k": "Expr", "e": push}], "expr": None}, "filled": True}
    # (4) `vec![e; n]` is `let mut v = Vec::with_capacity(n); for _ in 0..n { v.push(e) }; v`
    if k == "Call" and (out.get("fn") or "").endswith("vec::from_elem") and len(out["args"]) == 2 and peel(out["args"][0]).get("k") in ("Adt", "Lit", "Const", "Var"):
        sp = out["sp"]
        _inline_counter[0] += 1
        vid = 1000000 * _inline_counter[0] + 999995
        nid = vid - 1
        vv = {"k": "Var", "ty": out.get("ty"), "sp": sp, "name": "filled", "id": vid}
        narg = out["args"][1]
        stmts = []
        if peel(narg).get("k") in ("Var", "Upvar", "Lit", "Const"):
            nv = narg
        else:
            nv = {"k": "Var", "ty": "usize", "sp": sp, "name": "n", "id": nid}
            stmts.append({"k": "Let", "sp": sp, "pat": {"k": "Bind", "ty": "usize", "name": "n", "id": nid, "mode": "BindingMode(No, Not)", "sub": None}, "init": narg, "else": None})
        rng = {"k": "Adt", "ty": "std::ops::Range<usize>", "sp": sp, "adt": "std::ops::Range", "variant": "Range",
               "fields": [{"name": "start", "e": {"k": "Lit", "ty": "usize", "sp": sp, "neg": False, "v": "i:0"}}, {"name": "end", "e": nv}]}
        push = {"k": "Call", "ty": "()", "sp": sp, "fn": "std::vec::Vec::<T, A>::push", "local": False, "gen": [], "hir_call": False, "args": [vv, out["args"][0]]}
        loop = {"k": "For", "ty": "()", "sp": sp, "pat": {"k": "Wild", "ty": "usize"}, "iter": rng,
                "body": {"k": "Block", "ty": "()", "sp": sp, "unsafe": False, "stmts": [{"k": "Expr", "e": push}], "expr": None}, "filled": True}
        stmts.append({"k": "Let", "sp": sp, "pat": {"k": "Bind", "ty": out.get("ty"), "name": "filled", "id": vid, "mode": "BindingMode(No, Mut)", "sub": None},
                      "init": {"k": "Call", "ty": out.get("ty"), "sp": sp, "fn": "std::vec::Vec::<T>::with_capacity", "local": False, "gen": [], "hir_call": True, "args": [nv]}, "else": None})
        stmts.append({"k": "Expr", "e": loop})
        return {"k": "Block", "ty": out.get("ty"), "sp": sp, "unsafe": False, "stmts": stmts, "expr": vv, "filled": True}
    return out


def _closed_value(n):
    n = peel(n)
    while n.get("k") == "Block" and not n["stmts"] and n.get("expr") is not None:
        n = peel(n["expr"])
    k = n.get("k")
    if k == "Lit" or (k == "Zst" and n.get("fn")):
        return True
    if k == "Unary" and n.get("op") == "Neg":
        return _closed_value(n["arg"])
    if k in ("Tuple", "Array"):
        return all(_closed_value(f) for f in n["fields"])
    if k == "Adt":
        return all(_closed_value(f["e"]) for f in n["fields"]) and not n.get("base")
    return False


_ANCHOR_SIGS = None


def _anchor_aliases(d):
    """{new name: anchor name} for anchor functions that are gone from the tree while exactly one other function has the anchor's
    (unique) signature: a renamed or moved anchor (e.g. a free function turned into a method).  The table of signatures was taken
    from the pinned tree (rules/anchor_sigs.json); only signatures that were unique there are used."""
    global _ANCHOR_SIGS
    if _ANCHOR_SIGS is None:
        try:
            with open(os.path.join(os.path.dirname(os.path.abspath(__file__)), "anchor_sigs.json")) as f:
                _ANCHOR_SIGS = json.load(f)
        except OSError:
            _ANCHOR_SIGS = {}
    present = {f["fn"] for f in d.get("thir") or []}
    out = {}
    for anchor, sg in _ANCHOR_SIGS.items():
        if anchor in present:
            continue
        cands = [f["fn"] for f in d.get("thir") or [] if "{closure" not in f["fn"] and f["fn"] not in _ANCHOR_SIGS
                 and [[p.get("ty") for p in f["params"]], f["body"].get("ty")] == sg]
        if len(cands) == 1 and cands[0] not in out:
            out[cands[0]] = anchor
    return out


class Facts:
    def __init__(self, path):
        with open(path) as f:
            text = f.read()
        d = json.loads(text)
        self.renamed = _anchor_aliases(d)
        if self.renamed:
            for new_, old_ in self.renamed.items():
                text = re.sub('"' + re.escape(json.dumps(new_)[1:-1]) + r'(?="|::\{)', lambda m_: '"' + json.dumps(old_)[1:-1], text)
            d = json.loads(text)
        self.path = path
        self.raw = d
        self.features = d["features"]
        self.items = d["items"]
        tm = {f["fn"]: f for f in d["thir"]}
        mm = {f["fn"]: f for f in d["mir"]}
        # local constants whose initialiser is a closed value (literals, struct/tuple literals of such): name -> initialiser
        self.consts = {}
        for c in d.get("consts") or []:
            if _closed_value(c["init"]):
                self.consts[c["path"]] = c["init"]
        self.fns = {}
        for name in list(tm) + [n for n in mm if n not in tm]:
            self.fns[name] = Fn(tm.get(name), mm.get(name), self)

    def fn(self, name):
        """Exact name, or unique suffix match."""
        if name in self.fns:
            return self.fns[name]
        c = [f for n, f in self.fns.items() if n.endswith(name)]
        if len(c) == 1:
            return c[0]
        return None

    def fns_matching(self, pred):
        return [f for n, f in sorted(self.fns.items()) if pred(n)]


_loaded = {}
ALIAS = {}  # thorough tier: re-run a rule module with "A" standing for another feature set


def load(config="A", repo=None):
    config = ALIAS.get(config, config)
    feats = CONFIGS.get(config, config)
    if config not in CONFIGS and config.startswith("S") and config in all_configs():
        feats = all_configs()[config]
    key = (feats, os.path.abspath(repo or REPO))
    if key not in _loaded:
        _loaded[key] = Facts(build_facts(feats, repo))
    return _loaded[key]


def load_crate(repo, crate, features=""):
    return Facts(build_facts(features, repo, crate=crate))


if __name__ == "__main__":
    t0 = time.time()
    f = load(sys.argv[1] if len(sys.argv) > 1 else "A")
    print(f.path, len(f.fns), "fns", "%.1fs" % (time.time() - t0))
