"""C13 validate() agrees with matches() on the rule's own examples.

T-VALIDATE: validate is two loops (true_positives, true_negatives); each evaluates the example with the *same* callee and first
argument as Rule::matches (solver::solve(&self.detection, ..)); a positive fails iff !solve, a negative fails iff solve; every
failure (including a non-mapping example) pushes a message that mentions the example; Err(Validation) iff any failure, else Ok(true).
NO-PANIC: validate contains no unwrap/expect/index/panic site.
"""
import facts
import q
from facts import walk, walk_with_path, peel, call_is, unblock, variant_of, lit
from show import show


def run(rep):
    F = facts.load("A")
    rep.configs = ["A(core,json)"]
    rep.explanation = (
        "validate() is a short function whose agreement with matches() is visible in its shape: the check extracts its two loops from the "
        "typed tree and requires the same callee/first argument as Rule::matches, the right polarity per list, a reported failure on every "
        "failing path (malformed example included), aggregation into Err(Validation) iff errors is non-empty, and the absence of any "
        "panic-capable call.  Because optimise() only replaces the tree inside self.detection, the same code serves optimised rules."
    )
    rep.describe("T-VALIDATE", "two loops; solve(&self.detection, mapping) as in matches; polarity; every failure pushes a message naming the example; Err iff errors non-empty")
    rep.describe("NO-PANIC", "validate has no unwrap/expect/index/panic!/unreachable! site")
    v = F.fn("rule::Rule::validate")
    m = F.fn("rule::Rule::matches")
    if v is None or m is None:
        rep.lost("T-VALIDATE", "T-VALIDATE/anchor", "Rule::validate and Rule::matches")
        return
    mcalls = [n for n in walk(m.body) if n.get("k") == "Call" and n.get("local")]
    mcallee = mcalls[0]["fn"] if len(mcalls) == 1 else None
    marg0 = show(mcalls[0]["args"][0]) if mcallee else None
    rep.check(mcallee == "solver::solve" and marg0 == "self.detection", "T-VALIDATE", "T-VALIDATE/matches-callee", m.sp, "Rule::matches = solver::solve(&self.detection, document)", "%s(%s, ..)" % (mcallee, marg0))
    body = v.body
    loops = [s["e"] for s in body.get("stmts", []) if s["k"] == "Expr" and s["e"].get("k") == "For"]
    srcs = [show(l["iter"]) for l in loops]
    rep.check(srcs == ["self.true_positives", "self.true_negatives"], "T-VALIDATE", "T-VALIDATE/loops", v.sp, "exactly two top-level loops over true_positives then true_negatives", str(srcs))
    errs = [s for s in body.get("stmts", []) if s["k"] == "Let" and s["pat"].get("k") == "Bind" and s["pat"].get("ty") == "std::vec::Vec<std::string::String>"]
    eid = errs[0]["pat"]["id"] if errs else None
    for l, which, negated in zip(loops, ("true_positives", "true_negatives"), (True, False)):
        test_id = l["pat"].get("id") if l["pat"].get("k") == "Bind" else None
        solves = [(n, path) for n, path in walk_with_path(l["body"]) if n.get("k") == "Call" and n.get("local") and not (n.get("fn") or "").startswith("error::")]
        key = "T-VALIDATE/" + which
        ok1 = len(solves) == 1 and solves[0][0]["fn"] == mcallee and show(solves[0][0]["args"][0]) == marg0
        rep.check(ok1, "T-VALIDATE", key + "/same-verdict", l["sp"], "each example is evaluated once with the callee and detection that matches() uses", "; ".join(show(n)[:60] for n, _ in solves))
        if not ok1:
            continue
        call, path = solves[0]
        exits = [x.get("k") for x in walk(l["body"]) if x.get("k") in ("Continue", "Break", "Return")]
        rep.check(exits == ["Continue"], "T-VALIDATE", key + "/every-example-evaluated", l["sp"],
                  "the only way to skip an example is the malformed-example branch (no other continue/break/return in the loop)", str(exits))
        lb = facts.unblock(l["body"])
        nst = len(lb["stmts"]) + (1 if lb.get("expr") else 0) if lb.get("k") == "Block" else 1
        rep.check(nst == 2, "T-VALIDATE", key + "/loop-body", l["sp"], "the loop body is: take the example's mapping (or report it), then compare the verdict", "%d statements" % nst)
        # document argument: the mapping obtained from this loop's example
        darg = peel(call["args"][1])
        from origin import Origins
        O = Origins(v, rule_params=("self",), doc_params=())
        # walk back: mapping must be bound from test.as_mapping()
        bound_from = None
        for n in walk(l["body"]):
            if n.get("k") == "Block":
                for s in n["stmts"]:
                    if s["k"] == "Let" and s.get("init") and any(b[1] == q.var_id(darg) for b in facts.pat_binds(s["pat"])):
                        bound_from = s
        okd = False
        det = show(call["args"][1])
        if bound_from is not None:
            init = peel(bound_from["init"])
            okd = call_is(init, "::as_mapping") and q.var_id(init["args"][0]) == test_id
            det = show(bound_from["init"])
            # the else branch must report and skip, not panic
            els = bound_from.get("else")
            okelse = bool(els) and any(call_is(x, "::push") and q.var_id(x["args"][0]) == eid and any(y.get("k") == "Var" and y["id"] == test_id for y in walk(x["args"][1])) for x in walk(els)) \
                and any(x.get("k") == "Continue" for x in walk(els)) and not any(call_is(x, "panicking::") for x in walk(els))
            rep.check(okelse, "T-VALIDATE", key + "/malformed-reported", bound_from["sp"], "a non-mapping example pushes an error naming it and continues", show(els)[:100] if els else "no else branch")
        elif call_is(darg, "::unwrap") or call_is(darg, "::expect"):
            rep.bad("T-VALIDATE", key + "/malformed-reported", call["sp"], "a non-mapping example is reported, not unwrapped", show(darg)[:80])
        else:
            rep.bad("T-VALIDATE", key + "/malformed-reported", call["sp"], "a non-mapping example is reported", "no let-else on as_mapping")
        rep.check(okd, "T-VALIDATE", key + "/document", call["sp"], "the evaluated document is this example's own mapping", det)
        # polarity: the enclosing If condition is exactly solve(..) or !solve(..)
        ifs = [p for p in path if p.get("k") == "If" and any(x is call for x in walk(p["cond"]))]
        okp = False
        detp = "not under an if"
        if len(ifs) == 1:
            c = peel(ifs[0]["cond"])
            detp = show(c)[:80]
            if negated:
                okp = c.get("k") == "Unary" and c["op"] == "Not" and peel(c["arg"]) is call
            else:
                okp = c is call
            pushes = [x for x in walk(ifs[0]["then"]) if call_is(x, "::push") and q.var_id(x["args"][0]) == eid]
            okm = len(pushes) == 1 and any(y.get("k") == "Var" and y["id"] == test_id for y in walk(pushes[0]["args"][1])) and not ifs[0].get("else")
            rep.check(okm, "T-VALIDATE", key + "/failure-reported", ifs[0]["sp"], "the failing branch pushes one message that mentions the example", show(ifs[0]["then"])[:80])
        rep.check(okp, "T-VALIDATE", key + "/polarity", call["sp"], "%s fails iff %ssolve(..)" % (which, "!" if negated else ""), detp)
    # aggregation
    tail_ifs = [s["e"] for s in body.get("stmts", []) if s["k"] == "Expr" and s["e"].get("k") == "If"]
    okagg = False
    det = ""
    if len(tail_ifs) == 1:
        c = peel(tail_ifs[0]["cond"])
        det = show(c)
        isneg = c.get("k") == "Unary" and c["op"] == "Not" and call_is(peel(c["arg"]), "::is_empty") and q.var_id(peel(c["arg"])["args"][0]) == eid
        rets = [x for x in walk(tail_ifs[0]["then"]) if x.get("k") == "Return"]
        okret = len(rets) == 1 and facts.adt_is(peel(rets[0]["value"]), "Result", "Err") and "Kind::Validation" in show(rets[0]["value"]) and any(y.get("k") == "Var" and y["id"] == eid for y in walk(rets[0]["value"]))
        okagg = isneg and okret and not tail_ifs[0].get("else")
    rep.check(okagg, "T-VALIDATE", "T-VALIDATE/aggregate", v.sp, "Err(Validation with all messages) iff errors is non-empty", det)
    fin = body.get("expr")
    okfin = bool(fin) and facts.adt_is(peel(fin), "Result", "Ok") and lit(peel(fin)["fields"][0]["e"]) == ("bool", True)
    rep.check(okfin, "T-VALIDATE", "T-VALIDATE/ok-true", v.sp, "otherwise Ok(true)", show(fin) if fin else "-")
    # order: loops, then aggregation, nothing else that returns early
    early = [x for x in walk(body) if x.get("k") == "Return"]
    rep.check(len(early) == 1, "T-VALIDATE", "T-VALIDATE/no-early-return", v.sp, "the only early return is the aggregated error", str(len(early)))
    # NO-PANIC
    bad = []
    for n in walk(body):
        if n.get("k") == "Call" and n.get("fn") and not n.get("exp"):
            fn = n["fn"]
            if fn.endswith("::unwrap") or fn.endswith("::expect") or "panicking" in fn or fn.endswith("Index::index"):
                bad.append(show(n)[:60])
        if n.get("k") == "Index":
            bad.append(show(n)[:60])
    rep.check(not bad, "NO-PANIC", "NO-PANIC/validate", v.sp, "no panic-capable call in validate", "; ".join(bad))
    # the MIR agrees: no Assert terminators, no unwrap/expect/panic calls in non-cleanup blocks
    masserts = []
    if v.mir:
        for b in v.mir["blocks"]:
            if b["cleanup"]:
                continue
            t = b["term"]
            if t.get("k") == "Assert":
                masserts.append(t.get("assert"))
            if t.get("k") == "Call" and t.get("fn") and (t["fn"].endswith("::unwrap") or t["fn"].endswith("::expect") or "panicking" in t["fn"]):
                masserts.append(t["fn"])
    rep.check(not masserts, "NO-PANIC", "NO-PANIC/validate-mir", v.sp, "MIR of validate has no assert/unwrap/expect/panic terminator outside cleanup", "; ".join(map(str, masserts)))
    rep.floor("T-VALIDATE", 18)
    rep.floor("NO-PANIC", 2)
    rep.exhaustive = True
    rep.assumptions.append("panics inside the solver are owned by C03; here only validate()'s own code is inspected")
