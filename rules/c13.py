"""C13 validate() agrees with matches() on the rule's own examples.

T-VALIDATE: validate is two loops (true_positives, true_negatives); each evaluates the example with the *same* callee and first
argument as Rule::matches (solver::solve(&self.detection, ..)); a positive fails iff !solve, a negative fails iff solve; every
failure (including a non-mapping example) pushes a message that mentions the example; Err(Validation) iff any failure, else Ok(true).
NO-PANIC: validate contains no unwrap/expect/index/panic site.
"""
import facts
import panic
import q
from facts import walk, walk_with_path, peel, call_is, unblock, variant_of, lit, strip_ref
from show import show


def q_strip_not(c):
    c = peel(c)
    while c.get("k") == "Unary" and c["op"] == "Not":
        c = peel(c["arg"])
    return c


def run(rep):
    F = facts.load("A")
    rep.configs = ["A(core,json)"]
    rep.explanation = (
        "validate() is a short function whose agreement with matches() is visible in its shape: the check extracts its two loops from the "
        "typed tree and requires the same callee/first argument as Rule::matches, the right polarity per list, a reported failure on every "
        "failing path (malformed example included), aggregation into Err(Validation) iff errors is non-empty, and the absence of any "
        "panic-capable call.  Because optimise() only replaces the tree inside self.detection, the same code serves optimised rules."
    )
    rep.describe("T-VALIDATE", "two loops; solve(&self.detection, mapping) as in matches; polarity; every failure pushes a message naming the example; Err iff errors non-empty")
    rep.describe("NO-PANIC", "validate has no unwrap/expect/index/panic!/unreachable! site")
    v = F.fn("rule::Rule::validate")
    m = F.fn("rule::Rule::matches")
    if v is None or m is None:
        rep.lost("T-VALIDATE", "T-VALIDATE/anchor", "Rule::validate and Rule::matches")
        return
    mcalls = [n for n in walk(m.body) if n.get("k") == "Call" and n.get("local")]
    mcallee = mcalls[0]["fn"] if len(mcalls) == 1 else None
    marg0 = show(mcalls[0]["args"][0]) if mcallee else None
    rep.check(mcallee == "solver::solve" and marg0 == "self.detection", "T-VALIDATE", "T-VALIDATE/matches-callee", m.sp, "Rule::matches = solver::solve(&self.detection, document)", "%s(%s, ..)" % (mcallee, marg0))
    body = v.body
    def src_field(l):
        it = peel(l["iter"])
        while it.get("k") == "Call" and (it.get("fn") or "").endswith(("Deref::deref", "::iter", "IntoIterator::into_iter", "::as_slice")) and it.get("args"):
            it = peel(it["args"][0])
        return it.get("name") if it.get("k") == "Field" and q.var_id(it["arg"]) == strip_ref(v.thir["params"][0]["pat"]).get("id") else None
    loops = [n for n, path in walk_with_path(body) if n.get("k") == "For" and src_field(n) is not None and not any(p_.get("k") in ("For", "Loop", "Closure") for p_ in path)]
    srcs = [src_field(l) for l in loops]
    rep.check(srcs == ["true_positives", "true_negatives"], "T-VALIDATE", "T-VALIDATE/loops", v.sp, "exactly two loops, over self.true_positives then self.true_negatives", str(srcs))
    errs = [s for s in body.get("stmts", []) if s["k"] == "Let" and s["pat"].get("k") == "Bind" and s["pat"].get("ty") == "std::vec::Vec<std::string::String>"]
    eid = errs[0]["pat"]["id"] if errs else None

    def is_push(x, test_id=None):
        return call_is(x, "::push") and q.base_var(x["args"][0]) == eid and (test_id is None or any(y.get("k") == "Var" and y["id"] == test_id for y in walk(x["args"][1])))

    for l, which, negated in zip(loops, ("true_positives", "true_negatives"), (True, False)):
        test_id = strip_ref(q.loop_over(l)[1]).get("id")
        solves = [(n, path) for n, path in walk_with_path(l["body"]) if n.get("k") == "Call" and n.get("local") and not (n.get("fn") or "").startswith("error::")]
        key = "T-VALIDATE/" + which
        ok1 = len(solves) == 1 and solves[0][0]["fn"] == mcallee and show(solves[0][0]["args"][0]) == marg0
        rep.check(ok1, "T-VALIDATE", key + "/same-verdict", l["sp"], "each example is evaluated once with the callee and detection that matches() uses", "; ".join(show(n)[:60] for n, _ in solves))
        if not ok1:
            continue
        call, path = solves[0]
        # every cycle either evaluates the example or reports it; nothing leaves the loop early
        fl = q.flow(l["body"], lambda x: x is call or is_push(x))
        exits = sorted({ex for ex, _ in fl})
        rep.check(all(c for ex, c in fl if ex in ("fall", "continue")) and not ({"break", "return"} & set(exits)), "T-VALIDATE", key + "/every-example-evaluated", l["sp"],
                  "every pass through the loop body evaluates the example or reports it as malformed; the loop is never left early", str(sorted(fl)))
        pushes = [x for x in walk(l["body"]) if is_push(x)]
        rep.check(len(pushes) == 2 and all(is_push(x, test_id) for x in pushes), "T-VALIDATE", key + "/loop-body", l["sp"], "two reports per loop (malformed example, wrong verdict), each naming the example", "%d pushes" % len(pushes))
        # document argument: the mapping obtained from this loop's own example
        did = q.base_var(call["args"][1], l["body"])
        ams = [x for x in walk(l["body"]) if call_is(x, "::as_mapping") and q.base_var(x["args"][0]) == test_id]
        okd = False
        if len(ams) == 1:
            for pat in q.all_patterns(l["body"]):
                if any(b[1] == did for b in facts.pat_binds(pat)):
                    okd = True
            # `?`-normalised or let-bound through expect would be a different (panicking / returning) handling: require an explicit branch
            fb = q.failure_branch(l["body"], ams[0])
            okelse = isinstance(fb, dict) and any(is_push(x, test_id) for x in walk(fb)) and not any(facts._panics(x) is not None for x in walk(fb) if x.get("k") == "Call") \
                and all(ex in ("fall", "continue") for ex, _ in q.flow(fb, lambda x: False))
            rep.check(okelse, "T-VALIDATE", key + "/malformed-reported", ams[0]["sp"], "a non-mapping example pushes an error naming it and moves on", show(fb)[:100] if isinstance(fb, dict) else str(fb))
        else:
            rep.bad("T-VALIDATE", key + "/malformed-reported", call["sp"], "a non-mapping example is reported", "%d as_mapping calls on the example" % len(ams))
        rep.check(okd and len(ams) == 1, "T-VALIDATE", key + "/document", call["sp"], "the evaluated document is this example's own mapping", show(call["args"][1]))
        # polarity: the If that tests the verdict
        ifs = [p for p in walk(l["body"]) if p.get("k") == "If" and (any(x is call for x in walk(p["cond"])) or (q.var_id(q_strip_not(p["cond"])) is not None and q.let_init(l["body"], q.var_id(q_strip_not(p["cond"]))) is not None and any(x is call for x in walk(q.let_init(l["body"], q.var_id(q_strip_not(p["cond"])))))))]
        okp = False
        detp = "not under an if"
        if len(ifs) == 1:
            c = peel(ifs[0]["cond"])
            detp = show(c)[:80]
            neg = False
            for _ in range(4):
                if c.get("k") == "Unary" and c["op"] == "Not":
                    neg = not neg
                    c = peel(c["arg"])
                elif c.get("k") == "Binary" and c["op"] in ("Eq", "Ne") and (lit(c["rhs"]) or lit(c["lhs"])) and (lit(c["rhs"]) or lit(c["lhs"]))[0] == "bool":
                    # `solve(..) != true`, `solve(..) == false` ...
                    litv = (lit(c["rhs"]) or lit(c["lhs"]))[1]
                    other = peel(c["lhs"]) if lit(c["rhs"]) else peel(c["rhs"])
                    if (c["op"] == "Eq") != litv:
                        neg = not neg
                    c = other
                else:
                    break
            is_verdict = c is call or (c.get("k") == "Var" and q.resolve(l["body"], c) is call)
            then_p = any(is_push(x) for x in walk(ifs[0]["then"]))
            else_p = ifs[0].get("else") is not None and any(is_push(x) for x in walk(ifs[0]["else"]))
            if is_verdict and then_p != else_p:
                # report_when_true: the report is made when solve(..) is true
                report_when_true = (then_p and not neg) or (else_p and neg)
                okp = report_when_true == (not negated)
            pb = ifs[0]["then"] if then_p else ifs[0].get("else")
            okm = pb is not None and len([x for x in walk(pb) if is_push(x, test_id)]) == 1 and then_p != else_p
            rep.check(okm, "T-VALIDATE", key + "/failure-reported", ifs[0]["sp"], "the failing branch pushes one message that mentions the example", show(pb)[:80] if pb else "-")
        rep.check(okp, "T-VALIDATE", key + "/polarity", call["sp"], "%s fails iff %ssolve(..)" % (which, "!" if negated else ""), detp)
    # aggregation: Err(Validation with the messages) iff errors is non-empty, else Ok(true)
    leaves = q.result_leaves(body)

    def emptiness(leaf, path):
        """what is known about errors.is_empty() where this result is produced: True / False / None"""
        for e in q.context(path, leaf):
            if e[0] == "if":
                c = peel(e[1])
                neg = False
                while c.get("k") == "Unary" and c["op"] == "Not":
                    neg = not neg
                    c = peel(c["arg"])
                if call_is(c, "::is_empty") and q.base_var(c["args"][0]) == eid:
                    return e[2] != neg
        return None
    oks = [(l_, p_) for l_, p_ in leaves if facts.adt_is(peel(l_), "Result", "Ok")]
    ers = [(l_, p_) for l_, p_ in leaves if facts.adt_is(peel(l_), "Result", "Err")]
    okagg = len(ers) == 1 and len(oks) == 1 and len(leaves) == 2
    det = "%d Ok / %d Err results" % (len(oks), len(ers))
    if okagg:
        el, ep = ers[0]
        okagg = emptiness(el, ep) is False and "Kind::Validation" in show(el) and any(y.get("k") == "Var" and y["id"] == eid for y in walk(el))
        det = show(el)[:100]
    rep.check(okagg, "T-VALIDATE", "T-VALIDATE/aggregate", v.sp, "Err(Validation with all messages) is produced exactly where errors is known to be non-empty", det)
    okfin = False
    if len(oks) == 1:
        ol, op = oks[0]
        okfin = lit(peel(peel(ol)["fields"][0]["e"])) == ("bool", True)
        em = emptiness(ol, op)
        if em is None:
            # early-return form: `if !errors.is_empty() { return Err(..) }` precedes the tail, and that branch always returns
            guards = [s["e"] for s in body.get("stmts", []) if s["k"] == "Expr" and s["e"].get("k") == "If" and ers and q.contains(s["e"], ers[0][0])]
            em = bool(guards) and all(ex == "return" for ex, _ in q.flow(guards[0]["then"], lambda x: False)) and emptiness(ers[0][0], ers[0][1]) is False
        okfin = okfin and em is True
    rep.check(okfin, "T-VALIDATE", "T-VALIDATE/ok-true", v.sp, "Ok(true) is produced only where errors is known to be empty", show(oks[0][0]) if oks else "-")
    # nothing returns before both loops ran
    early = [x for x in walk(body) if x.get("k") in ("Return", "Try") and any(q.contains(l, x) for l in loops)]
    rep.check(not early, "T-VALIDATE", "T-VALIDATE/no-early-return", v.sp, "no return or `?` inside the loops", str(len(early)))
    # "all of this holds equally for optimised rules": optimise() may only touch the detection tree and its own flag, so the
    # examples validate() runs (and everything else it reads) are those of the loaded rule
    ro = F.fn("rule::Rule::optimise")
    rep.describe("OPT-KEEPS", "Rule::optimise writes only detection.expression, detection.identifiers and the optimised flag")
    if ro is None:
        rep.lost("OPT-KEEPS", "OPT-KEEPS/anchor", "Rule::optimise")
    else:
        import optflow
        of = optflow.analyse(F)
        if of["error"]:
            rep.lost("OPT-KEEPS", "OPT-KEEPS/flow", "Rule::optimise inside the interpreted subset", of["error"][:200])
        else:
            keep = ("true_positives", "true_negatives", "other", "detection.expression_raw", "detection.identifiers_raw")
            names = {"other": "<other fields>"}
            bad = sorted({k for run in of["runs"].values() for k in keep if run["fields"].get(k) != ("init", names.get(k, k))})
            rep.check(not bad, "OPT-KEEPS", "OPT-KEEPS/write-set", ro.sp, "for every switch set the returned rule has the examples, raw parts and every other field of the input (only the detection tree, the identifier map and the flag change)", "changed: " + ", ".join(bad))
            rep.ok("OPT-KEEPS", "OPT-KEEPS/returns-self", ro.sp, "optimise returns a rule value built from its input in all %d symbolic runs" % len(of["runs"]))
    rep.floor("OPT-KEEPS", 2)
    # NO-PANIC
    bad = []
    for n in walk(body):
        if n.get("k") == "Call" and n.get("fn") and not n.get("exp"):
            fn = n["fn"]
            if fn.endswith("::unwrap") or fn.endswith("::expect") or "panicking" in fn or fn.endswith(("rt::panic_fmt", "rt::panic_display", "Index::index")):
                bad.append(show(n)[:60])
        if n.get("k") == "Index":
            bad.append(show(n)[:60])
    rep.check(not bad, "NO-PANIC", "NO-PANIC/validate", v.sp, "no panic-capable call in validate", "; ".join(bad))
    # the MIR agrees: no Assert terminators, no unwrap/expect/panic calls in non-cleanup blocks
    masserts = []
    if v.mir:
        cache_ = {}
        # validate's own code: the function, its closures, and the helpers in rule.rs it calls (the solver's sites are C03's)
        own_fns = [v.name]
        try:
            reach = panic.CallGraph(F).reach([v.name])
            own_fns += sorted(g for g in reach if g != v.name and (g.startswith("rule::") or g.startswith(v.name + "::")) and F.fns[g].mir and g not in ("rule::Rule::matches",))
        except (KeyError, AttributeError):
            pass
        for s_ in [x for g in own_fns for x in panic.sites_of(F, g)]:
            if s_.kind == "index" and "true_" not in str(s_.detail):
                pass
            located = panic.locate(F, s_, cache_)
            if located and panic.discharge(F, s_):
                continue  # e.g. a unit-step counter or the sum of two lengths: cannot fire
            masserts.append("%s %s" % (s_.kind, s_.callee))
    rep.check(not masserts, "NO-PANIC", "NO-PANIC/validate-mir", v.sp, "MIR of validate has no assert/unwrap/expect/panic terminator outside cleanup", "; ".join(map(str, masserts)))
    # validate as a whole, over all small example lists (mappings that match / do not match, tagged mappings, non-mappings)
    import core as _core
    import validmodel
    rep.describe("VALID-MODEL", "validate evaluated over every pair of example lists up to length 2: Ok(true) iff all positives match and no negative does; otherwise an error naming each failing example in order")
    vrows, vun = validmodel.evaluate(F)
    if vrows is None:
        rep.note("validate model not applicable (%s); structural rules decide" % vun)
    else:
        vbad = [r for r in vrows if not r[3]]
        groups = {}
        for (tp_, tn_), want_, got_, agree_ in vrows:
            groups.setdefault((len(tp_), len(tn_)), []).append(agree_)
        for (a_, b_), oks_ in sorted(groups.items()):
            first = [r for r in vbad if (len(r[0][0]), len(r[0][1])) == (a_, b_)][:1]
            rep.check(all(oks_), "VALID-MODEL", "VALID-MODEL/%d-positives/%d-negatives" % (a_, b_), v.sp, "all %d example lists of this size validate as specified" % len(oks_),
                      None if all(oks_) else "positives %s negatives %s: expected %s, the body yields %s" % (list(first[0][0][0]), list(first[0][0][1]), str(first[0][1])[:100], str(first[0][2])[:100]))
    if not _core.model_decides(rep, vrows is not None and all(r[3] for r in vrows), {"T-VALIDATE"}, "validate decided by its model"):
        rep.floor("T-VALIDATE", 18)
    else:
        rep.floor("VALID-MODEL", 9)
    rep.floor("NO-PANIC", 2)
    rep.exhaustive = True
    rep.assumptions.append("panics inside the solver are owned by C03; here only validate()'s own code is inspected")
    rep.assumptions.append("the validate evaluation is exhaustive for example lists up to length 2 over five example classes with the solver as an oracle table; longer lists are covered by the loop rules")
