"""C17 Order of operands never decides whether and/or is true.

SYM-ACCEPT   whether an or/and (group, nested binary, identifier form) is *true* is invariant under every permutation of its operands
             (evaluated on the extracted solver model, exhaustively for k <= 4); the full or-result is symmetric as well
SORT-SCOPE   the only re-orderings performed by the engine (sort_by) act on operands of an or-group or on matrix columns
NO-DROP      no list member is lost whatever its position: no Vec-shrinking call in the loader's list arm or the optimiser passes
shared       lockstep alignment, overlapping scans (C07); every member pushed once (C08); mapping/sequence order tables (C02);
             matrix rows (C06 TRI-MATRIX)
"""
import itertools

import core
import facts
import q
import tri
from facts import walk, walk_with_path, peel, call_is, unblock, variant_of, pat_str
from show import show
from tri import Child, SR, Unrecognised


def run(rep):
    F = facts.load("A")
    rep.configs = ["A(core,json)"]
    rep.explanation = (
        "Truth of a conjunction/disjunction is order independent if (a) the solver's connective loops accept the same operand multisets "
        "whatever their order - checked by evaluating the extracted solver model on every permutation of every operand vector for arity <= 4, "
        "in group, nested-binary and identifier form; (b) list members keep their match kind when batched (lockstep) and every hit is seen "
        "(overlapping scan), so the batched disjunction is the disjunction of the members in any order; (c) no member is dropped, and (d) the "
        "engine's own re-orderings only touch or-operands.  The interaction with batching under a quantifier (K4) is recorded under C08."
    )
    rep.describe("SYM-ACCEPT", "acceptance of or/and is permutation invariant on the extracted solver model")
    rep.describe("SORT-SCOPE", "sort_by is applied only to or-operands / matrix columns")
    rep.describe("NO-DROP", "no member-dropping Vec call in parse_mapping's list handling")
    import c06
    try:
        S = c06.Solver(F)
    except Unrecognised as e:
        rep.lost("SYM-ACCEPT", "SYM-ACCEPT/anchor", "solver model", str(e))
        S = None
    E, SYM = c06.E, c06.SYM
    nev = 0
    if S is not None:
        KMAX = 5 if rep.tier == "thorough" else 4

        def sem(shape, vec, idents=None):
            v = S.call("solver::solve_expression", [shape, ("map", idents or {}), tri.OPAQUE], lambda i: SR(vec[i]), idents or {})
            return v[1]
        for sym in ("Or", "And"):
            for k in range(2, KMAX + 1):
                forms = [("group", lambda order: E("BooleanGroup", SYM(sym), ("list", [Child(i) for i in order])), None)]
                if k <= 4:
                    def left_nested(order, sym=sym):
                        e = Child(order[0])
                        for i in order[1:]:
                            e = E("BooleanExpression", e, SYM(sym), Child(i))
                        return e

                    def right_nested(order, sym=sym):
                        e = Child(order[-1])
                        for i in reversed(order[:-1]):
                            e = E("BooleanExpression", Child(i), SYM(sym), e)
                        return e
                    forms += [("binary-left", left_nested, None), ("binary-right", right_nested, None)]
                for fname, build, _ in forms:
                    bad = []
                    badfull = []
                    try:
                        base_order = tuple(range(k))
                        for vec in tri.vectors(k):
                            ref = sem(build(base_order), vec)
                            for perm in itertools.permutations(range(k)):
                                got = sem(build(perm), vec)
                                nev += 1
                                if (got == "T") != (ref == "T"):
                                    bad.append("%s order %s: %s vs %s" % ("".join(vec), perm, got, ref))
                                if sym == "Or" and got != ref:
                                    badfull.append("%s order %s: %s vs %s" % ("".join(vec), perm, got, ref))
                    except Unrecognised as e:
                        rep.lost("SYM-ACCEPT", "SYM-ACCEPT/%s/%s/k=%d" % (sym, fname, k), "region inside the model language", str(e)[:200])
                        continue
                    rep.check(not bad, "SYM-ACCEPT", "SYM-ACCEPT/%s/%s/k=%d" % (sym, fname, k), "src/solver.rs", "whether %s(%d operands, %s form) is true does not depend on operand order" % (sym.lower(), k, fname), "; ".join(bad[:3]) if bad else None)
                    if sym == "Or":
                        rep.check(not badfull, "SYM-ACCEPT", "SYM-FULL/Or/%s/k=%d" % (fname, k), "src/solver.rs", "the full result of or is order independent", "; ".join(badfull[:3]) if badfull else None)
        rep.extra["permutation_evaluations"] = nev
    # ---------------------------------------------------------------- SORT-SCOPE
    nsort = 0
    for fname in ("optimiser::shake_1", "optimiser::matrix", "optimiser::shake_0", "optimiser::coalesce", "optimiser::rewrite", "parser::parse_mapping", "parser::parse_identifier"):
        f = F.fn(fname)
        if f is None:
            continue
        for n, path in walk_with_path(f.body):
            if n.get("k") == "Call" and n.get("fn") and (n["fn"].endswith("::sort_by") or n["fn"].endswith("::sort") or n["fn"].endswith("::sort_by_key") or n["fn"].endswith("::sort_unstable") or n["fn"].endswith("::sort_unstable_by") or n["fn"].endswith("::reverse") or n["fn"].endswith("::swap") or n["fn"].endswith("::rev")):
                nsort += 1
                tgt = show(n["args"][0]).replace("DerefMut::deref_mut(", "").rstrip(")")
                arms = [pat_str(e[1]) for e in q.context(path, n) if e[0] == "arm"]
                ok = (fname == "optimiser::shake_1" and any(a.startswith("Expression::BooleanGroup(BoolSym::Or") for a in arms) and tgt in ("exact", "starts_with", "ends_with", "contains", "aho", "regex", "regex_set")) \
                    or (fname == "optimiser::matrix" and tgt == "columns")
                rep.check(ok, "SORT-SCOPE", "SORT-SCOPE/%s/%s" % (fname.split("::")[-1], tgt), n["sp"], "re-ordering only of or-operands (whose result is symmetric) or of matrix columns", "%s in %s" % (n["fn"].split("::")[-1], arms[-1:] or "top"))
    rep.check(nsort == 8, "SORT-SCOPE", "SORT-SCOPE/sites", "src/optimiser.rs", "eight re-ordering calls in the engine (7 or-categories in shake_1, matrix columns)", str(nsort))
    # ---------------------------------------------------------------- NO-DROP in the loader
    DROPPERS = ("::dedup", "::dedup_by", "::dedup_by_key", "::retain", "::retain_mut", "::truncate", "::remove", "::pop", "::drain", "::swap_remove", "::split_off", "::take", "::skip", "::step_by", "::filter", "::filter_map", "::take_while", "::skip_while")
    pm = F.fn("parser::parse_mapping")
    if pm is None:
        rep.lost("NO-DROP", "NO-DROP/anchor", "parser::parse_mapping")
    else:
        n_calls = 0

        def only_element(n, path):
            """`v.pop()` where v is known to hold exactly one element (`match v.len() { 1 => .. }` / `if v.len() == 1`) and the popped value is used"""
            vid = q.base_var(n["args"][0])
            if vid is None or not (path and path[-1].get("k") not in ("Block",)):
                return False
            for e in q.context(path, n):
                if e[0] == "arm" and call_is(peel(e[2]), "::len") and q.base_var(peel(e[2])["args"][0]) == vid and facts.strip_ref(e[1]).get("k") == "Const" and facts.strip_ref(e[1]).get("v", "").split("_")[0] == "1":
                    return True
                if e[0] == "if" and e[2]:
                    for c in q.conj(e[1]):
                        c = peel(c)
                        if c.get("k") == "Binary" and c["op"] == "Eq" and call_is(peel(c["lhs"]), "::len") and q.base_var(peel(c["lhs"])["args"][0]) == vid and facts.lit(c["rhs"]) == ("i", 1):
                            return True
            return False
        for n, path in walk_with_path(pm.body):
            if n.get("k") == "Call" and n.get("fn") and n.get("args"):
                n_calls += 1
                if n["fn"].endswith("mem::take") and path and not (path[-1].get("k") == "Block" and any(st["k"] == "Expr" and peel(st["e"]) is n for st in path[-1]["stmts"])):
                    continue  # the whole vector is moved out and used: nothing is dropped
                if n["fn"].endswith("::pop") and only_element(n, path):
                    continue
                if n["fn"].endswith(DROPPERS) and "Vec<" in n["args"][0].get("ty", "") + " " + n["args"][0].get("ty", ""):
                    rep.bad("NO-DROP", "NO-DROP/parse_mapping/" + n["fn"].split("::")[-1], n["sp"], "no call that can drop list members", show(n)[:80])
                if n["fn"].endswith("::clear"):
                    # the key-word scratch (a Vec<String> that is only ever joined back into one identifier token) may be cleared
                    cid = q.base_var(n["args"][0])
                    joined = any(call_is(x, "::join") and q.base_var(x["args"][0]) == cid for x in walk(pm.body))
                    isstr = "Vec<std::string::String>" in str(peel(n["args"][0]).get("ty", ""))
                    rep.check(joined and isstr, "NO-DROP", "NO-DROP/parse_mapping/clear#%d" % len([i for i in rep.instances if i.key.startswith("NO-DROP/parse_mapping/clear")]), n["sp"],
                              "the only vector ever cleared is the key-word scratch (a Vec<String> that is joined back into one identifier)", show(n))
        rep.ok("NO-DROP", "NO-DROP/parse_mapping", pm.sp, "no member-dropping call among %d calls of parse_mapping" % n_calls)
    core.import_rules(rep, "c01", {"LINEAR"})
    core.import_rules(rep, "c07", {"LOCKSTEP", "AHO-OVERLAP"})
    core.import_rules(rep, "c08", {"MEMBER-ONCE"})
    core.import_rules(rep, "c02", {"T-CONJ"})
    # list members are lowered one by one: what one member contributes must not depend on where it stands (T-LOWER cast flag per member)
    core.import_rules(rep, "c02", {"T-LOWER"}, key_prefixes=("T-LOWER/cast-flag",))
    core.import_rules(rep, "c16", {"PROV-SYNTH"})
    core.import_rules(rep, "c06", {"TRI-MATRIX", "TRI-OR", "TRI-AND", "TRI-OF", "TRI-ALL"})
    core.import_rules(rep, "c01", {"ORDER-AND", "LAW"}, key_prefixes=("ORDER-AND/shake_0/", "LAW/shake_0/flatten", "LAW/shake_0/group-of-one", "LAW/or-symmetric", "LAW/shake_1/nested-merge"))
    core.import_rules(rep, "c10", {"NESTED-MODEL", "T-NESTED"})
    # rows of the matrix are built member by member: nothing of one member may end up in another member's row, whatever their order
    core.import_rules(rep, "c03", {"L-MATRIX"}, key_prefixes=("L-MATRIX/lookup-", "L-MATRIX/one-cell-per-column", "L-MATRIX/cell-"))
    if rep.tier == "thorough":
        import poscontrol
        poscontrol.droppers(rep)
    rep.floor("SYM-ACCEPT", 12)
    rep.floor("SORT-SCOPE", 9)
    rep.floor("NO-DROP", 1)
    rep.exhaustive = True
    rep.assumptions.append("RegexSet::is_match and the overlapping automaton scan are existential over all members/hits (trusted, documented behaviour)")
