"""Provenance of variables inside one function: where does each binding come from?

Every variable gets (class, path):
  class  RULE      derived from a rule-side parameter (expression / identifiers / detection / count / kind ...)
         DOC       derived from the document parameter (values returned by find, their payloads, array items)
         DOCPARAM  the document parameter itself
         LOCAL     anything else (fresh locals, literals, results of other calls)
  path   the chain of projections from the root parameter, e.g. "expression>Matrix.1>[]>[]>Some.0"
Projections: pattern destructuring, field access, indexing, deref/borrow, as_ref/deref/iter/enumerate/
into_iter/clone/get/as_object/as_str/Array::iter and the `find` family (which moves RULE keys x DOC receivers to DOC).
"""
from facts import peel, strip_ref, call_is, walk

PROJ_SUFFIX = (
    "AsRef::as_ref", "Deref::deref", "::iter", "IntoIterator::into_iter", "Iterator::enumerate", "Clone::clone", ">::get", "::as_object",
    "::as_str", "::as_array", "Iterator::by_ref", "Borrow::borrow", "::as_slice", "Option::<T>::as_ref", "::unwrap_or", "ToOwned::to_owned",
    "::to_string", "ToString::to_string", "::len", "::as_mapping", "Option::<T>::expect", "Option::<T>::unwrap",
)
FIND_SUFFIX = ("Document::find", "Object::find", "Object::get")


class Origins:
    def __init__(self, fn, rule_params=("expression", "identifiers", "detection", "count", "self", "kind"), doc_params=("document",)):
        self.env = {}
        self.fn = fn
        for p in fn.thir["params"]:
            pt = p["pat"]
            if pt and pt.get("k") == "Bind":
                if pt["name"] in doc_params:
                    self.env[pt["id"]] = ("DOCPARAM", pt["name"])
                elif pt["name"] in rule_params:
                    self.env[pt["id"]] = ("RULE", pt["name"])
                else:
                    self.env[pt["id"]] = ("LOCAL", pt["name"])
        self._scan(fn.body)

    # classification of an expression
    def of(self, n):
        n = peel(n)
        k = n.get("k")
        if k in ("Var", "Upvar"):
            return self.env.get(n["id"], ("LOCAL", n["name"]))
        if k == "Field":
            c, p = self.of(n["arg"])
            return (c, p + "." + n["name"])
        if k == "Index":
            c, p = self.of(n["arg"])
            return (c, p + ">[]")
        if k == "Tuple":
            return ("TUPLE", [self.of(f) for f in n["fields"]])
        if k == "Block" and not n.get("stmts") and n.get("expr"):
            return self.of(n["expr"])
        if k == "Call" and n.get("fn"):
            fn = n["fn"]
            if any(fn.endswith(s) for s in FIND_SUFFIX) and len(n["args"]) >= 2:
                rc, rp = self.of(n["args"][0])
                if rc in ("DOC", "DOCPARAM"):
                    return ("DOC", "%s.find(%s)" % (rp, self.of(n["args"][1])[1]))
                if rc == "CACHE":
                    return ("DOC", rp + ".find")
                return (rc, rp + ".find")
            if fn.endswith("Index::index") and n["args"]:
                c, p = self.of(n["args"][0])
                return (c, p + ">[]")
            if fn.endswith("mem::replace"):
                return ("LOCAL", "replace")
            if any(fn.endswith(s) for s in PROJ_SUFFIX) and n["args"]:
                c, p = self.of(n["args"][0])
                step = ">[]" if (fn.endswith("::iter") or fn.endswith("into_iter") or fn.endswith("enumerate")) else ""
                if fn.endswith("Iterator::enumerate"):
                    return ("ENUM", (c, p))
                if fn.endswith(">::get"):
                    step = ">get"
                return (c, p + step)
            return ("LOCAL", "call:" + fn.split("::")[-1])
        if k == "Adt":
            adt = n["adt"].split("::")[-1]
            if adt in ("Cache", "Passthrough"):
                inner = self.of(n["fields"][0]["e"]) if n["fields"] else ("LOCAL", "")
                return ("SYNTHDOC", adt + "(" + str(inner[1]) + ")")
            return ("LOCAL", "adt:" + adt)
        if k == "Match":
            # value of a match: join of arm values (used for `let x = match find() {Some(x) => x, None => return}`)
            self._bind_match(n)
            vals = []
            for a in n["arms"]:
                b = peel(a["body"])
                if b.get("k") in ("Return", "Break", "Continue") or b.get("ty") == "!":
                    continue
                if b.get("k") == "Block":
                    if not b.get("expr") :
                        if any(x.get("k") in ("Return",) for x in walk(b)):
                            continue
                        continue
                    b = peel(b["expr"])
                    if b.get("k") in ("Return", "Break", "Continue"):
                        continue
                vals.append(self.of(b))
            cls = {v[0] for v in vals}
            if len(cls) == 1:
                return vals[0]
            if cls and cls <= {"DOC", "LOCAL"} and "DOC" in cls:
                return ("DOC", "match")
            return ("LOCAL", "match")
        return ("LOCAL", k or "?")

    def _bind(self, pat, origin):
        pat = strip_ref(pat)
        k = pat.get("k")
        c, p = origin
        if k == "Bind":
            if c == "ENUM":
                self.env[pat["id"]] = ("LOCAL", "enumerate")
            else:
                self.env[pat["id"]] = (c, p)
            if pat.get("sub"):
                self._bind(pat["sub"], origin)
        elif k == "Variant":
            for s in pat["sub"]:
                if c in ("TUPLE", "ENUM"):
                    self._bind(s["p"], ("LOCAL", "?"))
                else:
                    self._bind(s["p"], (c, "%s>%s.%d" % (p, pat["variant"], s["i"])))
        elif k == "Leaf":
            for s in pat["sub"]:
                if c == "TUPLE":
                    o = p[s["i"]] if s["i"] < len(p) else ("LOCAL", "?")
                    self._bind(s["p"], o)
                elif c == "ENUM":
                    self._bind(s["p"], ("LOCAL", "index") if s["i"] == 0 else p)
                else:
                    self._bind(s["p"], (c, "%s.%s" % (p, s["f"])))
        elif k == "Or":
            for qq in pat["pats"]:
                self._bind(qq, origin)
        elif k in ("Deref", "DerefPattern", "Guard"):
            self._bind(pat["sub"], origin)

    def _bind_match(self, n):
        o = self.of(n["scrut"])
        for a in n["arms"]:
            self._bind(a["pat"], o)

    def _scan(self, n):
        if isinstance(n, list):
            for x in n:
                self._scan(x)
            return
        if not isinstance(n, dict):
            return
        k = n.get("k")
        if k == "Block":
            for s in n["stmts"]:
                if s["k"] == "Let":
                    if s.get("init"):
                        self._scan(s["init"])
                        self._bind(s["pat"], self.of(s["init"]))
                    else:
                        self._bind(s["pat"], ("LOCAL", "uninit"))
                    if s.get("else"):
                        self._scan(s["else"])
                else:
                    self._scan(s["e"])
            if n.get("expr"):
                self._scan(n["expr"])
            return
        if k == "Match":
            self._scan(n["scrut"])
            self._bind_match(n)
            for a in n["arms"]:
                if a.get("guard"):
                    self._scan(a["guard"])
                self._scan(a["body"])
            return
        if k == "LetCond":
            self._scan(n["arg"])
            self._bind(n["pat"], self.of(n["arg"]))
            return
        if k == "For":
            self._scan(n["iter"])
            o = self.of(n["iter"])
            if o[0] == "ENUM":
                self._bind(n["pat"], o)
            else:
                self._bind(n["pat"], (o[0], (o[1] + ">[]") if isinstance(o[1], str) and not o[1].endswith(">[]") else o[1]))
            self._scan(n["body"])
            return
        if k == "Assign":
            self._scan(n["rhs"])
            lhs = peel(n["lhs"])
            if lhs.get("k") == "Var":
                new = self.of(n["rhs"])
                old = self.env.get(lhs["id"])
                # a variable assigned from several sources keeps a class only if they agree
                if old is None or old[0] == "LOCAL" and old[1] in ("uninit", "adt:Option", "adt:None"):
                    self.env[lhs["id"]] = new
                elif old[0] != new[0]:
                    if {old[0], new[0]} <= {"DOC", "LOCAL"}:
                        self.env[lhs["id"]] = ("DOC", "mixed")
                    else:
                        self.env[lhs["id"]] = ("LOCAL", "mixed")
            return
        from facts import children
        for c in children(n):
            self._scan(c)
