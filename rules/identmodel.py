"""IDENT-MODEL: `String::into_identifier` (the pattern syntax) evaluated over a list of probe strings.

The typed tree of into_identifier (helpers inlined) is interpreted with the evaluator of findmodel/keymodel (strings, slices,
Option/Result plumbing); the regex builder and the number parsers are answered by small models of their documented behaviour.
The resulting `Identifier { ignore_case, pattern }` is compared with the pattern syntax written down here from the README:
`i` prefix (or the ignore_case build) = case-insensitive, `?re`, `>= > <= < =` + integer or float, `*`, `*x*`, `*x`, `x*`, quoted
literal, plain literal; insensitive needles are stored ASCII-lower-cased.  Anything outside the interpreted subset raises
Unrecognised and the callers fall back to their structural rules (fail closed)."""
import re

from facts import peel, strip_ref
from keymodel import SeqModel
from findmodel import _s
from tri import Ret, Unrecognised

PROBES = [
    "", "i", "ii", "in", "*", "i*", "**", "i**", "***", "*a*", "*A*", "i*A*", "*a", "*A", "i*Ab", "a*", "Ab*", "iAb*", "a*b", "*a*b", "*a*b*",
    "foo", "Foo", "iFoo", "ifoo", "'Foo'", "i'Foo'", "\"x\"", "i\"X\"", "'", "''", "\"", "\"\"", "'a\"", "\"a'", "'*'", "i'*'", "'a*", "*a'",
    "?a.c", "?A", "i?A", "?", "i?", "?(",
    ">=5", ">=5.5", ">5", ">5.25", "<=5", "<=0.5", "<5", "<-1.5", "=5", "=-7", "=+3", "=2.0", ">=", ">", "<=", "<", "=", "i>=5", "i=", "i<2.5",
    ">=abc", ">1.5.5", ">=9223372036854775808", "=-9223372036854775808", "=1e3", "=.5", "=1.", "=>1", "<>", "= 1", ">=1x",
    "é", "*é*", "iÉ*", "i*É", "'É'", "a b", "i A", "1", "i1", "-", "i-",
]
INVALID_REGEX = {"("}

CMP = [(">=", "GreaterThanOrEqual"), (">", "GreaterThan"), ("<=", "LessThanOrEqual"), ("<", "LessThan"), ("=", "Equal")]


def parse_i64(t):
    if re.fullmatch(r"[+-]?[0-9]+", t) and -2 ** 63 <= int(t) < 2 ** 63:
        return int(t)
    return None


def parse_f64(t):
    if re.fullmatch(r"[+-]?([0-9]+\.?[0-9]*([eE][+-]?[0-9]+)?|\.[0-9]+([eE][+-]?[0-9]+)?)", t):
        return float(t)
    if re.fullmatch(r"[+-]?(inf|infinity|nan)", t, re.I):
        return float(t.lower().replace("infinity", "inf"))
    return None


def fold(t, ins):
    return "".join(chr(ord(c) + 32) if "A" <= c <= "Z" else c for c in t) if ins else t


def P(variant, *payload):
    return ("ctor", "Pattern", variant, list(payload))


def spec(s, cfg):
    """-> ("ok", ignore_case, pattern) | "err" """
    if cfg:
        ins, t = True, s
    elif s.startswith("i"):
        ins, t = True, s[1:]
    else:
        ins, t = False, s
    if t.startswith("?"):
        if t[1:] in INVALID_REGEX:
            return "err"
        return ("ok", ins, P("Regex", ("regex", t[1:], ins)))
    for op, name in CMP:
        if t.startswith(op):
            rest = t[len(op):]
            if "." in rest:
                v = parse_f64(rest)
                return "err" if v is None else ("ok", ins, P("F" + name, v))
            v = parse_i64(rest)
            return "err" if v is None else ("ok", ins, P(name, v))
    if t == "*":
        return ("ok", ins, P("Any"))
    if t.startswith("*") and t.endswith("*"):
        return ("ok", ins, P("Contains", fold(t[1:-1], ins)))
    if t.startswith("*"):
        return ("ok", ins, P("EndsWith", fold(t[1:], ins)))
    if t.endswith("*"):
        return ("ok", ins, P("StartsWith", fold(t[:-1], ins)))
    if len(t.encode()) >= 2 and ((t[0] == '"' and t[-1] == '"') or (t[0] == "'" and t[-1] == "'")):
        return ("ok", ins, P("Exact", fold(t[1:-1], ins)))
    return ("ok", ins, P("Exact", fold(t, ins)))


class IdentModel(SeqModel):
    def __init__(self, F):
        super().__init__(F, set())

    def apply_path(self, fn, args):
        if "Pattern::" in fn and len(args) == 1:
            return P(fn.split("::")[-1], args[0])
        return super().apply_path(fn, args)

    def ev(self, n, env):
        n0 = peel(n)
        if n0.get("k") == "Adt" and str(n0.get("adt", "")).endswith("identifier::Pattern"):
            return P(n0["variant"], *[self.ev(f["e"], env) for f in n0["fields"]])
        return super().ev(n, env)

    def call(self, n, env):
        fn = n.get("fn") or ""
        args = n["args"]
        last = fn.split("::")[-1]
        A_ = lambda i: self.arg(n, i, env)
        if "RegexBuilder" in fn or "regex::Regex" in fn:
            if last == "new" and len(args) == 1:
                if "RegexBuilder" in fn:
                    return ["rb", _s(A_(0)), False]
                t = _s(A_(0))
                return ("err", ("error",)) if t in INVALID_REGEX else ("ok", ("regex", t, False))
            if last == "case_insensitive" and len(args) == 2:
                b, f = A_(0), A_(1)
                if isinstance(b, list) and b and b[0] == "rb" and isinstance(f, bool):
                    b[2] = f
                    return b
            if last == "build" and len(args) == 1:
                b = A_(0)
                if isinstance(b, list) and b and b[0] == "rb":
                    return ("err", ("error",)) if b[1] in INVALID_REGEX else ("ok", ("regex", b[1], b[2]))
            raise Unrecognised("regex builder call " + fn)
        if last == "parse" and len(args) == 1 and ("str" in fn or "String" in fn):
            g = " ".join(n.get("gen") or []) + " " + str(n.get("ty"))
            t = _s(A_(0))
            if "f64" in g:
                v = parse_f64(t)
                return ("ok", v) if v is not None else ("err", "parse")
            if "i64" in g:
                v = parse_i64(t)
                return ("ok", v) if v is not None else ("err", "parse")
        if last in ("to_ascii_lowercase", "to_lowercase") and len(args) == 1:
            t = _s(A_(0))
            if last == "to_lowercase" and any(ord(c) > 127 for c in t):
                return t.lower()
            return fold(t, True)
        if last in ("to_owned", "to_string", "into", "from", "clone", "as_str", "deref") and len(args) == 1:
            v = A_(0)
            if isinstance(v, str):
                return v
        if last in ("map_err", "or_else") and len(args) == 2:
            v = A_(0)
            if isinstance(v, tuple) and v and v[0] in ("ok", "err"):
                return v if v[0] == "ok" else ("err", ("error",))
        if last == "map" and len(args) == 2:
            v = A_(0)
            if isinstance(v, tuple) and v and v[0] in ("ok", "err"):
                return ("ok", self.closure(args[1], [v[1]], env)) if v[0] == "ok" else v
        if last == "and_then" and len(args) == 2:
            v = A_(0)
            if isinstance(v, tuple) and v and v[0] in ("ok", "err"):
                return self.closure(args[1], [v[1]], env) if v[0] == "ok" else v
        if last in ("as_bytes",) and len(args) == 1:
            t = _s(A_(0))
            return ("list", list(t.encode()))
        if last in ("chars",) and len(args) == 1:
            from findmodel import It
            return It(list(_s(A_(0))))
        if last in ("eq_ignore_ascii_case",) and len(args) == 2:
            return fold(_s(A_(0)), True) == fold(_s(A_(1)), True)
        if last in ("trim_matches", "trim_start_matches", "trim_end_matches") and len(args) == 2:
            pass
        return super().call(n, env)


def _norm(v):
    """model value -> ("ok", ignore_case, pattern) | "err" | other"""
    if isinstance(v, tuple) and v and v[0] == "err":
        return "err"
    if isinstance(v, tuple) and len(v) == 2 and v[0] == "ok":
        r = v[1]
        if isinstance(r, tuple) and len(r) == 3 and r[0] == "rec" and r[1] == "Identifier":
            d = dict(r[2])
            return ("ok", d.get("ignore_case"), d.get("pattern"))
    return v


def evaluate(F, cfg):
    """-> (rows, unrecognised); rows = [(probe, expected, got, agree)]"""
    f = F.fn("<std::string::String as identifier::IdentifierParser>::into_identifier")
    if f is None:
        return None, "anchor missing"
    ps = [strip_ref(p["pat"]) for p in f.thir["params"] if p.get("pat")]
    if len(ps) != 1 or ps[0].get("k") != "Bind":
        return None, "parameters"
    rows = []
    for s in PROBES:
        want = spec(s, cfg)
        import tokmodel
        m = tokmodel.TokModel(F)
        env = {ps[0]["id"]: s}
        try:
            try:
                got = m.ev(f.body, env)
            except Ret as r:
                got = r.v
        except Unrecognised as e:
            return None, "%s (probe %r)" % (str(e)[:160], s)
        except (KeyError, IndexError, TypeError, AttributeError, ValueError) as e:
            return None, "evaluator error %r (probe %r)" % (e, s)
        g = _norm(got)
        rows.append((s, want, g, g == want))
    return rows, None
