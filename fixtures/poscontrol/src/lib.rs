//! Positive controls: one instance of every construct the zero-expected rules forbid.  This crate is compiled through the same
//! driver as /repo in the thorough tier; each rule must fire here (the matcher is alive) while it is silent on /repo.
#![allow(dead_code, unused)]
use std::cell::RefCell;
use std::collections::{HashMap, HashSet};
use std::sync::atomic::{AtomicUsize, Ordering};

static mut COUNTER: usize = 0;
static HITS: AtomicUsize = AtomicUsize::new(0);

thread_local! {
    static SCRATCH: RefCell<Vec<u64>> = RefCell::new(Vec::new());
}

pub struct Holder {
    pub cache: RefCell<Vec<u8>>,
}

pub fn uses_unsafe(p: *const u8) -> u8 {
    unsafe { *p }
}

pub fn ambient_time() -> u128 {
    std::time::Instant::now().elapsed().as_nanos()
}

pub fn ambient_env() -> Option<String> {
    std::env::var("HOME").ok()
}

pub fn hidden_state() -> usize {
    HITS.fetch_add(1, Ordering::SeqCst)
}

pub fn thread_state(x: u64) -> usize {
    SCRATCH.with(|s| {
        s.borrow_mut().push(x);
        s.borrow().len()
    })
}

pub fn hash_order(m: HashMap<String, u32>) -> Vec<String> {
    let mut out = vec![];
    for (k, _) in m {
        out.push(k);
    }
    out
}

pub fn hash_order_iter(m: &HashSet<String>) -> Vec<String> {
    m.iter().cloned().collect::<Vec<_>>()
}

pub fn lossy_float(x: f64) -> i64 {
    x as i64
}

pub fn lossy_unsigned(x: u64) -> i64 {
    x as i64
}

pub fn lossy_signed(x: i64) -> u64 {
    x as u64
}

pub fn guarded_ok(x: u64) -> i64 {
    if x <= i64::MAX as u64 { x as i64 } else { 0 }
}

pub fn unguarded_unwrap(v: Vec<u8>) -> u8 {
    v.into_iter().next().unwrap()
}

pub fn unguarded_index(v: &[u8], i: usize) -> u8 {
    v[i - 1]
}

pub fn drops_members(mut v: Vec<String>) -> Vec<String> {
    v.dedup();
    v
}
