//! Positive controls: one instance of every construct the zero-expected rules forbid.  This crate is compiled through the same
//! driver as /repo in the thorough tier; each rule must fire here (the matcher is alive) while it is silent on /repo.
#![allow(dead_code, unused)]
use std::cell::RefCell;
use std::collections::{HashMap, HashSet};
use std::sync::atomic::{AtomicUsize, Ordering};

static mut COUNTER: usize = 0;
static HITS: AtomicUsize = AtomicUsize::new(0);

thread_local! {
    static SCRATCH: RefCell<Vec<u64>> = RefCell::new(Vec::new());
}

pub struct Holder {
    pub cache: RefCell<Vec<u8>>,
}

pub fn uses_unsafe(p: *const u8) -> u8 {
    unsafe { *p }
}

pub fn ambient_time() -> u128 {
    std::time::Instant::now().elapsed().as_nanos()
}

pub fn ambient_env() -> Option<String> {
    std::env::var("HOME").ok()
}

pub fn hidden_state() -> usize {
    HITS.fetch_add(1, Ordering::SeqCst)
}

pub fn thread_state(x: u64) -> usize {
    SCRATCH.with(|s| {
        s.borrow_mut().push(x);
        s.borrow().len()
    })
}

pub fn hash_order(m: HashMap<String, u32>) -> Vec<String> {
    let mut out = vec![];
    for (k, _) in m {
        out.push(k);
    }
    out
}

pub fn hash_order_iter(m: &HashSet<String>) -> Vec<String> {
    m.iter().cloned().collect::<Vec<_>>()
}

pub fn lossy_float(x: f64) -> i64 {
    x as i64
}

pub fn lossy_unsigned(x: u64) -> i64 {
    x as i64
}

pub fn lossy_signed(x: i64) -> u64 {
    x as u64
}

pub fn guarded_ok(x: u64) -> i64 {
    if x <= i64::MAX as u64 { x as i64 } else { 0 }
}

pub fn unguarded_unwrap(v: Vec<u8>) -> u8 {
    v.into_iter().next().unwrap()
}

pub fn unguarded_index(v: &[u8], i: usize) -> u8 {
    v[i - 1]
}

pub fn drops_members(mut v: Vec<String>) -> Vec<String> {
    v.dedup();
    v
}

// ---- every spelling of "this can panic" must be enumerated by the MIR site inventory (rules/poscontrol.py: PANIC-FORMS)
pub fn pf_panic_plain(x: u32) -> u32 {
    if x == 7 {
        panic!()
    }
    x
}
pub fn pf_panic_msg(x: u32) -> u32 {
    if x == 7 {
        panic!("seven is not allowed")
    }
    x
}
pub fn pf_panic_fmt(x: u32) -> u32 {
    if x == 7 {
        panic!("{} is not allowed", x)
    }
    x
}
pub fn pf_unreachable_msg(x: u32) -> u32 {
    match x {
        0 => 1,
        _ => unreachable!("only zero"),
    }
}
pub fn pf_unimplemented(x: u32) -> u32 {
    if x == 7 {
        unimplemented!()
    }
    x
}
pub fn pf_todo(x: u32) -> u32 {
    if x == 7 {
        todo!()
    }
    x
}
pub fn pf_assert(x: u32) -> u32 {
    assert!(x != 7);
    x
}
pub fn pf_assert_eq(x: u32) -> u32 {
    assert_eq!(x, 7, "must be seven");
    x
}
pub fn pf_div(a: u32, b: u32) -> u32 {
    a / b
}
pub fn pf_rem(a: u32, b: u32) -> u32 {
    a % b
}
pub fn pf_add(a: u8, b: u8) -> u8 {
    a + b
}
pub fn pf_str_slice(s: &str, a: usize, b: usize) -> &str {
    &s[a..b]
}
pub fn pf_slice_index(v: &[u8], i: usize) -> u8 {
    v[i]
}
pub fn pf_vec_index(v: &Vec<u8>, i: usize) -> u8 {
    v[i]
}
pub fn pf_map_index(m: &HashMap<String, u32>, k: &str) -> u32 {
    m[k]
}
pub fn pf_unwrap_or_else(x: Option<u32>) -> u32 {
    x.unwrap_or_else(|| panic!("none"))
}
pub fn pf_expect_err(x: Result<u32, String>) -> String {
    x.expect_err("must fail")
}
pub fn pf_vec_remove(v: &mut Vec<u8>) -> u8 {
    v.remove(0)
}
pub fn pf_split_at(s: &str) -> (&str, &str) {
    s.split_at(3)
}
pub fn pf_refcell(c: &RefCell<u8>) -> u8 {
    *c.borrow_mut()
}
pub fn pf_from_digit() -> char {
    char::from_digit(40, 10).unwrap()
}
pub fn pf_neg(a: i32) -> i32 {
    -a
}
pub fn pf_shl(a: u32, b: u32) -> u32 {
    a << b
}
pub fn pf_explicit_exit(x: u32) -> u32 {
    if x == 7 {
        std::process::exit(3)
    }
    x
}
pub fn pf_abort(x: u32) -> u32 {
    if x == 7 {
        std::process::abort()
    }
    x
}
pub fn pf_copy_from_slice(a: &mut [u8], b: &[u8]) {
    a.copy_from_slice(b)
}
pub fn pf_iter_step_by(v: &[u8], n: usize) -> usize {
    v.iter().step_by(n).count()
}
pub fn pf_chunks(v: &[u8], n: usize) -> usize {
    v.chunks(n).count()
}
pub fn pf_string_drain(s: &mut String) -> String {
    s.drain(..2).collect()
}
pub fn pf_duration_sub(a: std::time::Duration, b: std::time::Duration) -> std::time::Duration {
    a - b
}
pub fn pf_array_index(i: usize) -> u8 {
    let a = [1u8, 2, 3];
    a[i]
}
pub fn pf_range_slice(v: &[u8], a: usize) -> &[u8] {
    &v[a..]
}
