#!/bin/sh
# usage: tools/seed_matrix.sh [dir with seeds (default seeded/)]  -> writes <dir>/MATRIX.json: which checks fire on which seeded change
cd "$(dirname "$0")/.."
DIR="${1:-seeded}"
ALL=$(python3 -c "import json;print(' '.join(c['property_id'] for c in json.load(open('MANIFEST.json'))['checks']))")
mkdir -p /tmp/seedmx
one(){ s="$1"; id=$(basename $s); TRY_LINES=400 tools/try_patch.sh "$s/patch.diff" $ALL > /tmp/seedmx/$id.out 2>&1; }
N=0
for s in "$DIR"/C*/; do one "${s%/}" & N=$((N+1)); [ $((N % ${PAR:-5})) -eq 0 ] && wait; done; wait
python3 - "$DIR" <<'PY'
import sys,glob,re,json,os
d=sys.argv[1]; mx={}
for f in sorted(glob.glob('/tmp/seedmx/*.out')):
    sid=os.path.basename(f)[:-4]
    if not os.path.isdir(os.path.join(d,sid)): continue
    cur=None; fired={}
    for line in open(f,errors='replace'):
        m=re.match(r'== (C\d+) exit=(\d+)',line)
        if m: cur=m.group(1); fired[cur]={"exit":int(m.group(2)),"rules":[]}; continue
        m=re.match(r'\s+(VIOLATED|LOST) ([\w-]+): (\S+)',line)
        if m and cur: fired[cur]["rules"].append(m.group(2)+":"+m.group(3)[:80])
    mx[sid]={c:sorted(set(v["rules"]))[:6] for c,v in fired.items() if v["exit"]==1}
json.dump(mx,open(os.path.join(d,'MATRIX.json'),'w'),indent=1)
for sid,v in sorted(mx.items()):
    own=sid[:3]
    print(sid, 'OWN-CHECK-FIRES' if own in v else 'own check silent', '| fired:', ' '.join(sorted(v)) or 'NONE')
PY
