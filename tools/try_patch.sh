#!/bin/sh
# usage: tools/try_patch.sh <patch.diff> <Cxx> [<Cyy> ...]
# Applies the patch to a scratch copy of /repo (never to /repo), runs the named checks against the copy,
# prints their VIOLATION/KNOWN-FINDING lines and exit codes, and removes the copy.
set -u
PATCH="$(readlink -f "$1")"; shift
V="$(cd "$(dirname "$0")/.." && pwd)"
S="$(mktemp -d /tmp/tauscratch.XXXXXX)"
trap 'rm -rf "$S"' EXIT
mkdir -p "$S/repo" "$S/out"
cp -r /repo/src /repo/Cargo.toml /repo/Cargo.lock "$S/repo/"
[ -d /repo/benches ] && cp -r /repo/benches "$S/repo/"
[ -d /repo/tests ] && cp -r /repo/tests "$S/repo/"
( cd "$S/repo" && git init -q . && { git apply --whitespace=nowarn "$PATCH" 2>/dev/null || patch -p1 -s -F 3 --no-backup-if-mismatch < "$PATCH"; } ) || { echo "PATCH-DOES-NOT-APPLY $PATCH"; exit 3; }
RC=0
if [ $# -gt 1 ]; then
  # all requested checks in one process; per check: header line, then its findings
  TAU_REPO="$S/repo" TAU_OUT="$S/out" TAU_FACTS_DIR="$S/facts" "$V/check" MULTI "$@" > "$S/multi.out" 2>&1
  awk -v L="${TRY_LINES:-12}" -v R="$S/repo/" '
    /^== C[0-9]+ exit=/ { print; for (i = 1; i <= n && i <= L; i++) print buf[i]; n = 0; next }
    /VIOLATED|LOST|VIOLATION|KNOWN-FINDING|BUILD-ERROR|Traceback/ { gsub(R, ""); buf[++n] = $0 }
  ' "$S/multi.out"
  grep -q "^== C[0-9]* exit=[^0]" "$S/multi.out" && RC=1
  exit $RC
fi
for C in "$@"; do
  OUTP=$(TAU_REPO="$S/repo" TAU_OUT="$S/out" TAU_FACTS_DIR="$S/facts" "$V/check" "$C" 2>&1)
  R=$?
  echo "== $C exit=$R"
  echo "$OUTP" | grep -E "VIOLATED|LOST|VIOLATION|KNOWN-FINDING|BUILD-ERROR|Traceback" | sed "s#$S/repo/##g" | head -${TRY_LINES:-12}
  [ $R -ne 0 ] && RC=1
done
exit $RC
