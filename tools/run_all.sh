#!/bin/sh
# runs every registered quick check on /repo; prints one line per check and any violation lines
cd "$(dirname "$0")/.."
RC=0
for C in $(python3 -c "import json;print(' '.join(c['property_id'] for c in json.load(open('MANIFEST.json'))['checks']))"); do
  OUT=$(./check $C --tier ${1:-quick} 2>&1); R=$?
  echo "$OUT" | grep -E "VIOLATION|BUILD-ERROR|Traceback" | head -5
  echo "$OUT" | tail -1
  [ $R -ne 0 ] && RC=1
done
exit $RC
