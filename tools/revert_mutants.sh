#!/bin/sh
# usage: tools/revert_mutants.sh  -> each reverted fix (mutants/revert-F*.diff) must make the owning property's check fire
cd "$(dirname "$0")/.."
python3 - <<'PY' > /tmp/revlist.txt
import json
k=json.load(open('known_findings.json'))
for e in k['findings']:
    if e['status']=='fixed': print(e['mutant'], e['property'])
PY
BAD=0
while read m pid; do R=$(TRY_LINES=1 tools/try_patch.sh $m $pid 2>&1 | grep -aE '== C' | tr '\n' ' '); case "$R" in *exit=1*) ;; *) echo "MISSED $m $pid: $R"; BAD=1;; esac; done < /tmp/revlist.txt
[ $BAD -eq 0 ] && echo "revert mutants: all $(wc -l < /tmp/revlist.txt) fire"
exit $BAD
