#!/bin/sh
# usage: tools/scratch.sh <patch.diff>  -> prints the path of a scratch copy of /repo with the patch applied (caller removes it)
PATCH="$(readlink -f "$1")"
S="$(mktemp -d /tmp/tauscratch.XXXXXX)"
mkdir -p "$S/repo" "$S/out"
cp -r /repo/src /repo/Cargo.toml /repo/Cargo.lock "$S/repo/"
[ -d /repo/benches ] && cp -r /repo/benches "$S/repo/"
[ -d /repo/tests ] && cp -r /repo/tests "$S/repo/"
( cd "$S/repo" && git init -q . && { git apply --whitespace=nowarn "$PATCH" 2>/dev/null || patch -p1 -s -F 3 --no-backup-if-mismatch < "$PATCH"; } ) >/dev/null || { echo "PATCH-DOES-NOT-APPLY" >&2; exit 3; }
echo "$S"
