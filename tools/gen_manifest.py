#!/usr/bin/env python3
"""Regenerates MANIFEST.json from the table below (kept here so the manifest stays consistent)."""
import json, os
V = os.path.dirname(os.path.dirname(os.path.abspath(__file__)))
TECH = "static analysis: custom rustc_private driver (typed THIR + MIR + item tables of /repo) with repository-specific rules"
CLAIMED = {
 "C05": dict(text="Static extraction of the Pratt parser's parameters (binding-power table evaluated over all token constructors, break comparison, recursion powers, parenthesis collector, trailing-token check, keyword look-ahead table) compared with the grammar stated in the property. For a Pratt parser these parameters are the grammar, so the structural part is essentially the whole property.",
             note="Trusts that the recognised nud/loop/led skeleton is the textbook Pratt loop; rustc front end; spec tables in rules/c05.py.",
             tech="static analysis: finite table extraction from the typed tree (THIR) + structural path rules", ref="4/C05"),
 "C06": dict(text="The solver's connective code is extracted from the typed tree and evaluated as a model whose operands are oracle symbols over {true,false,missing}; every form x arity 1..4 (5 thorough) x operand vector x threshold is enumerated against the property's truth tables. Decides how results are combined, not what a leaf predicate returns.",
             note="Model language is fail-closed (unknown constructs are reported). Soft rows (false-vs-missing of a failed all/of) pinned to current behaviour. Leaves are oracles (C07/C09/C10 own them).",
             tech="static analysis: syntax-directed extraction of connective regions + exhaustive evaluation of the extracted model over a 3-point lattice", ref="3.3, 4/C06"),
 "C09": dict(text="The finite numeric tables of the solver are extracted and compared arm by arm with the specification: the 31-arm comparison table (Rust operator named by the BoolSym, operands in order, mixed signed/unsigned arms guarded by `u <= i64::MAX as u64` and casting exactly the unsigned operand, one `=> false` catch-all per operator), the operand-extraction blocks (absent => Missing, inconvertible => False, strings parsed at the cast's own type), every numeric `as` cast classified lossless / precision-only / constant / range-guarded, left/right sibling blocks equal, numeric pattern syntax. With primitive operators trusted this decides the comparison step over the whole 64-bit/double range.",
             note="Does not decide std's str::parse or float formatting; a UInt above i64::MAX against an Int constant is read as 'every comparison false'.",
             tech="static analysis: arm-table extraction from THIR vs spec table, cast classification with dominating-guard search, sibling (left/right) agreement", ref="4/C09"),
 "C12": dict(text="Effect analysis over the whole type-checked crate: no unsafe, no static mut, statics only from tracing/lazy_static expansions, no interior mutability or thread-locals in own types, no ambient-input calls, matching takes the rule by shared reference, every hash-container iteration in engine code is collected into a map/set or folded commutatively, and (configuration diff) the sync feature changes only trait bounds. Absence of these constructs covers every schedule, history and process at once.",
             note="Trusts regex/aho-corasick internal caches and tracing to be observationally pure; user Document impls are pure.",
             tech="static analysis: effect / purity lint over THIR + item tables, hash-iteration dataflow rule, two-configuration body diff", ref="4/C12"),
 "C13": dict(text="validate() is short enough that its agreement with matches() is a matter of shape: two loops over true_positives/true_negatives, each evaluating the example once with the same callee and detection as Rule::matches, polarity per list, a pushed message naming the example on every failing path (malformed, non-mapping example included), Err(Validation) iff errors non-empty else Ok(true), and no panic-capable site in the function (THIR and MIR). Optimised rules use the same code because optimise() only replaces the tree inside self.detection.",
             note="Panics inside the solver belong to C03. A behaviour-preserving refactor of validate into helpers would be reported (fail closed).",
             tech="static analysis: structural path rule over the typed tree of Rule::validate + MIR panic-site scan", ref="4/C13"),
 "C15": dict(text="Both builds are type-checked and compared function by function: they must differ in exactly one function (String::into_identifier), in exactly one leaf (the boolean cfg!(feature=\"ignore_case\") expands to), and that boolean must only select between (true, text) and the default build's strip_prefix('i') head; items/signatures identical. Then the ignore_case build on p constructs exactly what the default build constructs on 'i'+p and everything else is the same program. Close to a proof of the property, modulo the compiler front end.",
             note="Thorough tier repeats the diff for all 8 feature-set pairs that differ by ignore_case.",
             tech="static analysis: two-configuration diff of typed trees (THIR) and MIR skeletons + head-shape rule", ref="3.6, 4/C15"),
 "C16": dict(text="Provenance analysis of the solver: every find() key is derived from the rule tree and its receiver from the document; every recursive call hands on the document, an addressed object, or the private Cache/Passthrough; matrix cells (synthetic keys) are evaluated only against Cache/Passthrough; cache slot i is filled from find(&columns[i]); no keys()/len() enumeration; Cache/Passthrough private; in the optimiser the synthetic key's def-use chain ends in Expression::Matrix. Hence the verdict is a function of addressed values only and synthetic keys never reach the user's document.",
             note="Assumes user Document/Object/Array impls are pure functions of their arguments.",
             tech="static analysis: intra-procedural provenance (origin) dataflow over THIR bindings + def-use rule in optimiser::matrix + visibility facts", ref="3.5 PROV, 4/C16"),
 "C10": dict(text="Path resolution is one default trait method (two cfg copies). Its per-segment step table is extracted from both copies and compared with the spec: split on '.', descend only through objects, root lookup on self, index form requires an array and nth(parsed usize), every failing step returns None and the loop state is never reset to the at-root value, bracket iterator exhausted; no impl overrides find; all Document impls delegate to it; the solver's nested-block arm recurses on objects, is existential over arrays (array loops evaluated as models over members x elements oracle tables, exhaustively for <=3 members x <=2 elements) and false on scalars.",
             note="Decides the lookup algorithm, not that 'nested mapping == dotted key' for every document beyond both running the same get chain. Object::get impls of users are trusted.",
             tech="static analysis: step-table extraction from THIR for both cfg variants, state-discipline rule, sibling diff, model evaluation of extracted array loops", ref="4/C10"),
 "C11": dict(text="Every adapter (AsValue for primitives, Option, Vec, HashSet, Object, serde_yaml/serde_json values; Array::iter; Object::get; Document delegates) is extracted from the typed tree, macro instances included, and compared with the specification table (value kind, signedness, widening cast, borrowed strings, slice order for Vec, key unchanged, number accessor consistent with its guard; yaml == json sibling). With the single shared Object::find (C10) equal logical content yields equal Value trees and therefore equal verdicts.",
             note="Third-party parsers are trusted to produce the number representation they document.",
             tech="static analysis: adapter-table extraction from THIR vs spec table + sibling agreement (yaml/json)", ref="4/C11"),
 "C07": dict(text="The dispatch, filter, alignment and flag layer of string matching is extracted from the typed tree and compared with the specification: Search kind -> string operation with operands in the right positions; MatchType -> offset filter in three sibling copies (search and both halves of slow_aho); every scan uses find_overlapping_iter and no builder sets a match kind; needles and their MatchType context are pushed pairwise with equal text/kind into the bucket of their case class (parser and shaker); the stored case flag equals the flag the matcher was built with; plain case-sensitive searches are only constructed where the ignore-case flag is false; needle folding is ASCII; the pattern-syntax decision list and its order. Decides this layer, not the algorithms of std/regex/aho-corasick.",
             note="'Exact for all strings' additionally rests on the documented behaviour of std, regex and aho-corasick (trusted).",
             tech="static analysis: table extraction + sibling agreement + lockstep-push path rules + flag dataflow over THIR", ref="4/C07"),
 "C03": dict(text="'No panic after load' is decided site by site: every unwrap/expect/panic!/unreachable!/index call and every overflow/bounds assertion in the MIR of all functions reachable (type-resolved call graph, dyn calls resolved to all local impls) from optimise/matches/validate is mapped to its typed-tree node and must be discharged by a named rule (dominating guard on the same value, unit-step counter, lockstep vectors, reviewed external fact) or by a lemma that is itself checked on the code: L-IDENT (identifier scan, who builds Identifier nodes, optimise keeps keys, coalesce congruence), L-SHAPE (is_solvable table == solver's handled set, and/or/not/comparison operand filters, group symbols, identifier values are predicates), L-MATRIX (one cell per column, cells address only their key, cache sized by columns), L-LOCKSTEP.",
             note="Third-party panics on valid input, stack depth and allocation failure are out of scope; hand-built Expression trees (core feature) are outside the property.",
             tech="static analysis: MIR panic-site inventory over the resolved call graph + THIR dominating-guard discharge rules + checked structural lemmas", ref="3.1, 3.2, 4/C03"),
 "C04": dict(text="Every panic/overflow-capable site in the MIR of all functions reachable from the loading entry points (Rule::from_str/from_value/load, serde visitors, tokenise, into_identifier, parse_identifier, parse) is discharged by a named rule on its typed-tree context (guards implying len>=2 and ASCII delimiters for the quoted/contains slices, i>1 for tokens[i-2] with the counter in step with the loop, peek-then-next, len==1 before next().expect(), unit-step counters, reviewed external facts); termination of the tokeniser is a progress rule: each arm of its main loop consumes a char or returns, with the arm's own finite char set evaluated against the consuming predicate (std ASCII tables), and the Pratt loop consumes a token per cycle.",
             note="serde_yaml's behaviour on adversarial YAML, stack depth and allocation failure are out of scope; termination of the parser's recursion is argued, not checked.",
             tech="static analysis: MIR panic-site inventory + THIR dominating-guard discharge rules + loop-progress rule with finite char-set evaluation", ref="3.1, 3.5 PROGRESS, 4/C04"),
 "C14": dict(text="The round trip is exact if the serialiser's key table equals the deserialiser's, the raw parts stored are exactly the inputs that were parsed, all loaders reach the same Deserialize impl, and optimise leaves the raw parts alone. Each clause is checked on the typed tree after derive expansion: Detection emits `condition` + flattened identifiers_raw only; Rule emits/consumes its four fields (optimised defaulted); visit_map stores under each key a clone of the very value it parsed and tokenises the very text it stores; duplicates rejected; from_str/from_value/load share one impl; optimise never writes the raw parts, sets the flag and is a no-op on a flagged rule.",
             note="serde_yaml's text fidelity (quoting) is trusted; verdict equality for optimised rules reduces to C01.",
             tech="static analysis: writer/reader table agreement on the expanded derive output + def-use (raw == parsed input) rules over THIR", ref="4/C14"),
 "C01": dict(text="Whole-property equivalence of five tree rewrites is not statically decidable; decided are necessary conditions visible in the optimiser's shape: every arm of every pass is an identity, a congruence (same node, every child through one recursive call back to its position) or a reviewed rewrite (unreviewed rewrite arm = violation); each connective rewrite is tied to an algebraic law evaluated on the solver model extracted from /repo (group-of-one, flattening, double negation, inlining, or-symmetry) so Missing is accounted for; and-operand order preserved (sequence summary of the ten flatten arms, pushes inside the source loop); groups under all()/of() rebuilt member-wise; no member-dropping Vec call, no overwriting conjunct map; text rewrite strips only '.*' with fallback; optimise applies each pass under its switch; optimising never panics (PANIC inventory and lemmas shared with C03); alignment/flag rules of re-batching shared with C07.",
             note="Not decided: string-level equivalence of merged automata/regex sets, the matrix cache, '.*' stripping; nested-merge laws are argued. Known findings K1, K2a, K2b, K3a, K3b are genuine order/count defects listed in known_findings.json.",
             tech="static analysis: arm classification over THIR (identity/congruence/reviewed rewrite), law evaluation on the extracted three-valued solver model, order/linearity/counter-context path rules, shared MIR panic inventory", ref="4/C01"),
}
PENDING = {}
props = [json.loads(l) for l in open(os.path.join(V, "properties.jsonl"))]
checks = []
na = []
for p in props:
    pid = p["id"]
    if pid in CLAIMED:
        c = CLAIMED[pid]
        checks.append({
            "property_id": pid,
            "quick_cmd": "./check %s --tier quick" % pid,
            "thorough_cmd": "./check %s --tier thorough" % pid,
            "evidence_file": "/verif/evidence/%s.json" % pid,
            "replay_cmd_template": "./check %s --replay {path}" % pid,
            "engine": "taufacts+rules",
            "level_claimed": {"category": "other", "text": c["text"], "design_ref": "DESIGN.md section " + c["ref"]},
            "level_note": c["note"],
            "technique": c.get("tech", TECH),
        })
    else:
        na.append({"property_id": pid, "reason": PENDING.get(pid, "no static check registered yet in this revision (machinery under construction; see DESIGN.md section 4 for the planned structural clauses)")})
m = {
 "version": 1,
 "setup_cmd": "cd /verif/taufacts && CARGO_NET_OFFLINE=true cargo build --release --offline && cd /verif && python3 rules/facts.py A >/dev/null",
 "hooks": {"guard": "withsecurelabs_tau_engine_verif", "enable": "not used: no check needs instrumentation; facts are read from the compiler (cargo +nightly check with the taufacts driver as RUSTC_WORKSPACE_WRAPPER)",
           "baseline_off_cmd": "cd /repo && cargo test --workspace --no-fail-fast --offline", "source_commits": [], "add_only": True},
 "engines": [
  {"name": "taufacts", "path": "/verif/taufacts", "serves_properties": [c["property_id"] for c in checks], "kind_free_text": "rustc_private driver dumping items, THIR and MIR of /repo as JSON (nothing is executed)"},
  {"name": "rules", "path": "/verif/rules", "serves_properties": [c["property_id"] for c in checks], "kind_free_text": "Python rules over the facts: table extraction, path/dominance rules, model evaluation over finite lattices, sibling and configuration diffs"},
 ],
 "checks": checks,
 "not_applicable": na,
 "notes": "All checks are static: they type-check /repo with cargo +nightly check and inspect the compiler's intermediate representations. Genuine defects found are fixed in /repo as 'fix:' commits or listed in known_findings.json.",
}
json.dump(m, open(os.path.join(V, "MANIFEST.json"), "w"), indent=1)
print("claimed", [c["property_id"] for c in checks], "n/a", len(na))
