#!/bin/sh
# usage: tools/verify_seed.sh <seed dir with patch.diff + demo.rs> [features]
# Confirms in a scratch worktree of /repo HEAD: patch applies, builds, existing suite green with patch (default + core,json),
# demo fails with patch and passes without.  Prints a one-line JSON result.  Removes the worktree.
D="$(readlink -f "$1")"; FEAT="${2:-}"
W="$(mktemp -d /tmp/seedwt.XXXXXX)"; rmdir "$W"
git -C /repo worktree add -q --detach "$W" HEAD || exit 2
trap 'git -C /repo worktree remove --force "$W" >/dev/null 2>&1; rm -rf "$W" "$W.demo_keep.rs"' EXIT
cd "$W"
APPLY=clean
git apply --whitespace=nowarn "$D/patch.diff" 2>/dev/null || { patch -p1 -s -F 3 --no-backup-if-mismatch < "$D/patch.diff" >/dev/null 2>&1 && APPLY=fuzz || APPLY=FAIL; }
if [ "$APPLY" = FAIL ]; then echo "{\"seed\":\"$1\",\"apply\":\"FAIL\"}"; exit 0; fi
git diff > "$D/ported.diff"
FARG=""; [ -n "$FEAT" ] && FARG="--features $FEAT"
T1=$(cargo test --offline 2>&1 | grep -a -E "^test result" | awk '{p+=$4; f+=$6} END{print p"/"f}')
T2=$(cargo test --offline --features core,json 2>&1 | grep -a -E "^test result" | awk '{p+=$4; f+=$6} END{print p"/"f}')
cp "$D/demo.rs" tests/seed_demo.rs
DW=$(timeout 600 cargo test --offline $FARG --test seed_demo 2>&1 | grep -a -E "^test result" | awk '{p+=$4; f+=$6} END{print p"/"f}')
cp tests/seed_demo.rs "$W.demo_keep.rs"
git checkout -q -- . ; git clean -fdq -e target
cp "$W.demo_keep.rs" tests/seed_demo.rs
DWO=$(timeout 600 cargo test --offline $FARG --test seed_demo 2>&1 | grep -a -E "^test result" | awk '{p+=$4; f+=$6} END{print p"/"f}')

echo "{\"seed\":\"$1\",\"apply\":\"$APPLY\",\"suite_default_pass_fail\":\"$T1\",\"suite_corejson_pass_fail\":\"$T2\",\"demo_with_patch_pass_fail\":\"$DW\",\"demo_without_patch_pass_fail\":\"$DWO\"}"
