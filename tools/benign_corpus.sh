#!/bin/sh
# usage: tools/benign_corpus.sh  -> runs every check against every behaviour-preserving patch under benign/; any exit=1 is a false alarm
cd "$(dirname "$0")/.."
ALL=$(python3 -c "import json;print(' '.join(c['property_id'] for c in json.load(open('MANIFEST.json'))['checks']))")
rm -rf /tmp/benign; mkdir -p /tmp/benign; N=0
for b in benign/agents/*.diff benign/*.diff; do id=$(basename $b .diff); (TRY_LINES=40 tools/try_patch.sh $b $ALL > /tmp/benign/$id.out 2>&1) & N=$((N+1)); [ $((N % 6)) -eq 0 ] && wait; done; wait
BAD=0
for f in /tmp/benign/*.out; do A=$(grep -aE '== C.* exit=[^0]' $f | sed 's/== //;s/ exit=.*//' | tr '\n' ' '); [ -n "$A" ] && { echo "FALSE-ALARM $(basename $f .out): $A"; BAD=1; }; done
[ $BAD -eq 0 ] && echo "benign corpus: all silent ($(ls /tmp/benign | wc -l) patches)"
exit $BAD
