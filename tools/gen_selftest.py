#!/usr/bin/env python3
"""Runs every registered quick check against every patch under mutants/ and seeded/ (scratch copies) and records which checks fire:
selftest.json = {relative patch path: [properties whose check fires]}.  The thorough tier re-verifies its own entries."""
import glob, json, os, re, subprocess, sys
from concurrent.futures import ThreadPoolExecutor
V = os.path.dirname(os.path.dirname(os.path.abspath(__file__)))
ALL = [c["property_id"] for c in json.load(open(os.path.join(V, "MANIFEST.json")))["checks"]]
patches = sorted(glob.glob(os.path.join(V, "mutants", "*.diff")) + glob.glob(os.path.join(V, "seeded", "*", "patch.diff")))
def run(p):
    r = subprocess.run([os.path.join(V, "tools", "try_patch.sh"), p] + ALL, stdout=subprocess.PIPE, stderr=subprocess.STDOUT, text=True, env=dict(os.environ, TRY_LINES="2"))
    fired = re.findall(r"== (C\d+) exit=1", r.stdout)
    return os.path.relpath(p, V), fired, "PATCH-DOES-NOT-APPLY" in r.stdout
out = {}
with ThreadPoolExecutor(5) as ex:
    for rel, fired, na in ex.map(run, patches):
        if na:
            print("does not apply:", rel)
            continue
        out[rel] = fired
        print(rel, " ".join(fired) or "NONE")
json.dump(out, open(os.path.join(V, "selftest.json"), "w"), indent=1, sort_keys=True)
