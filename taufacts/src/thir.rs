// THIR -> JSON.  Scope / Use / NeverToAny / type-ascription wrappers are transparent; everything
// else keeps its kind, type, span, expansion chain and children.
use crate::json::J;
use crate::{exp_json, path_str, span_json, ty_str};
use rustc_middle::thir::*;
use rustc_middle::ty::{self, TyCtxt};

pub struct Dump<'a, 'tcx> {
    pub tcx: TyCtxt<'tcx>,
    pub thir: &'a Thir<'tcx>,
}

impl<'a, 'tcx> Dump<'a, 'tcx> {
    fn base(&self, k: &str, e: &Expr<'tcx>) -> J {
        let mut j = J::obj();
        j.set("k", J::s(k));
        j.set("ty", J::s(ty_str(e.ty)));
        j.set("sp", span_json(self.tcx, e.span));
        let ex = exp_json(e.span);
        if !matches!(ex, J::Null) {
            j.set("exp", ex);
        }
        j
    }

    fn opt(&self, e: Option<ExprId>) -> J {
        match e {
            Some(e) => self.expr(e),
            None => J::Null,
        }
    }

    fn field_name(&self, ty: ty::Ty<'tcx>, variant: rustc_abi::VariantIdx, idx: rustc_abi::FieldIdx) -> String {
        match ty.kind() {
            ty::Adt(def, _) => {
                let v = def.variant(variant);
                v.fields[idx].name.as_str().to_string()
            }
            _ => format!("{}", idx.as_usize()),
        }
    }

    pub fn block(&self, b: BlockId) -> J {
        let blk = &self.thir.blocks[b];
        let mut stmts = vec![];
        for s in blk.stmts.iter() {
            let st = &self.thir.stmts[*s];
            match &st.kind {
                StmtKind::Expr { expr, .. } => {
                    stmts.push(J::obj().with("k", J::s("Expr")).with("e", self.expr(*expr)));
                }
                StmtKind::Let {
                    pattern,
                    initializer,
                    else_block,
                    span,
                    ..
                } => {
                    let mut l = J::obj();
                    l.set("k", J::s("Let"));
                    l.set("sp", span_json(self.tcx, *span));
                    l.set("pat", self.pat(pattern));
                    l.set("init", self.opt(*initializer));
                    l.set(
                        "else",
                        match else_block {
                            Some(b) => self.block(*b),
                            None => J::Null,
                        },
                    );
                    stmts.push(l);
                }
            }
        }
        let mut j = J::obj();
        j.set("k", J::s("Block"));
        j.set("sp", span_json(self.tcx, blk.span));
        j.set("unsafe", J::Bool(!matches!(blk.safety_mode, BlockSafety::Safe)));
        j.set("stmts", J::Arr(stmts));
        j.set("expr", self.opt(blk.expr));
        j
    }

    pub fn expr(&self, id: ExprId) -> J {
        let e = &self.thir.exprs[id];
        match &e.kind {
            ExprKind::Scope { value, .. } => self.expr(*value),
            ExprKind::Use { source } => self.expr(*source),
            ExprKind::NeverToAny { source } => self.expr(*source),
            ExprKind::PlaceTypeAscription { source, .. } => self.expr(*source),
            ExprKind::ValueTypeAscription { source, .. } => self.expr(*source),
            ExprKind::If {
                cond,
                then,
                else_opt,
                ..
            } => self
                .base("If", e)
                .with("cond", self.expr(*cond))
                .with("then", self.expr(*then))
                .with("else", self.opt(*else_opt)),
            ExprKind::Call { fun, args, ty, from_hir_call, .. } => {
                let mut j = self.base("Call", e);
                let mut resolved = false;
                if let ty::FnDef(did, gargs) = ty.kind() {
                    j.set("fn", J::s(path_str(self.tcx, *did)));
                    j.set("local", J::Bool(did.is_local()));
                    let mut g = vec![];
                    for a in gargs.iter() {
                        g.push(J::s(rustc_middle::ty::print::with_no_trimmed_paths!(format!("{}", a))));
                    }
                    j.set("gen", J::Arr(g));
                    resolved = true;
                }
                if !resolved {
                    j.set("fn", J::Null);
                    j.set("fun", self.expr(*fun));
                }
                j.set("hir_call", J::Bool(*from_hir_call));
                j.set("args", J::Arr(args.iter().map(|a| self.expr(*a)).collect()));
                j
            }
            ExprKind::ByUse { expr, .. } => self.base("ByUse", e).with("arg", self.expr(*expr)),
            ExprKind::Deref { arg } => self.base("Deref", e).with("arg", self.expr(*arg)),
            ExprKind::Binary { op, lhs, rhs } => self
                .base("Binary", e)
                .with("op", J::s(format!("{:?}", op)))
                .with("lhs", self.expr(*lhs))
                .with("rhs", self.expr(*rhs)),
            ExprKind::LogicalOp { op, lhs, rhs } => self
                .base("Logical", e)
                .with("op", J::s(format!("{:?}", op)))
                .with("lhs", self.expr(*lhs))
                .with("rhs", self.expr(*rhs)),
            ExprKind::Unary { op, arg } => self
                .base("Unary", e)
                .with("op", J::s(format!("{:?}", op)))
                .with("arg", self.expr(*arg)),
            ExprKind::Cast { source } => self
                .base("Cast", e)
                .with("from", J::s(ty_str(self.thir.exprs[*source].ty)))
                .with("arg", self.expr(*source)),
            ExprKind::PointerCoercion { cast, source, .. } => self
                .base("Coerce", e)
                .with("cast", J::s(format!("{:?}", cast)))
                .with("arg", self.expr(*source)),
            ExprKind::Loop { body } => self.base("Loop", e).with("body", self.expr(*body)),
            ExprKind::Let { expr, pat } => self
                .base("LetCond", e)
                .with("pat", self.pat(pat))
                .with("arg", self.expr(*expr)),
            ExprKind::Match {
                scrutinee,
                arms,
                match_source,
            } => {
                let mut aj = vec![];
                for a in arms.iter() {
                    let arm = &self.thir.arms[*a];
                    let mut o = J::obj();
                    o.set("sp", span_json(self.tcx, arm.span));
                    o.set("pat", self.pat(&arm.pattern));
                    o.set("guard", self.opt(arm.guard));
                    o.set("body", self.expr(arm.body));
                    aj.push(o);
                }
                self.base("Match", e)
                    .with("src", J::s(format!("{:?}", match_source).split('(').next().unwrap_or("").to_string()))
                    .with("scrut", self.expr(*scrutinee))
                    .with("arms", J::Arr(aj))
            }
            ExprKind::Block { block } => {
                let mut b = self.block(*block);
                b.set("ty", J::s(ty_str(e.ty)));
                let ex = exp_json(e.span);
                if !matches!(ex, J::Null) {
                    b.set("exp", ex);
                }
                b
            }
            ExprKind::Assign { lhs, rhs } => self
                .base("Assign", e)
                .with("lhs", self.expr(*lhs))
                .with("rhs", self.expr(*rhs)),
            ExprKind::AssignOp { op, lhs, rhs } => self
                .base("AssignOp", e)
                .with("op", J::s(format!("{:?}", op)))
                .with("lhs", self.expr(*lhs))
                .with("rhs", self.expr(*rhs)),
            ExprKind::Field {
                lhs,
                variant_index,
                name,
            } => {
                let lty = self.thir.exprs[*lhs].ty;
                self.base("Field", e)
                    .with("name", J::s(self.field_name(lty, *variant_index, *name)))
                    .with("arg", self.expr(*lhs))
            }
            ExprKind::Index { lhs, index } => self
                .base("Index", e)
                .with("arg", self.expr(*lhs))
                .with("index", self.expr(*index)),
            ExprKind::VarRef { id } => self
                .base("Var", e)
                .with("name", J::s(self.tcx.hir_name(id.0).as_str()))
                .with("id", J::Int(id.0.local_id.as_u32() as i64)),
            ExprKind::UpvarRef { var_hir_id, .. } => self
                .base("Upvar", e)
                .with("name", J::s(self.tcx.hir_name(var_hir_id.0).as_str()))
                .with("id", J::Int(var_hir_id.0.local_id.as_u32() as i64)),
            ExprKind::Borrow { borrow_kind, arg } => self
                .base("Borrow", e)
                .with("mut", J::Bool(matches!(borrow_kind, rustc_middle::mir::BorrowKind::Mut { .. })))
                .with("arg", self.expr(*arg)),
            ExprKind::RawBorrow { arg, .. } => self.base("RawBorrow", e).with("arg", self.expr(*arg)),
            ExprKind::Break { value, .. } => self.base("Break", e).with("value", self.opt(*value)),
            ExprKind::Continue { .. } => self.base("Continue", e),
            ExprKind::Return { value } => self.base("Return", e).with("value", self.opt(*value)),
            ExprKind::Repeat { value, count } => self
                .base("Repeat", e)
                .with("value", self.expr(*value))
                .with("count", J::s(format!("{}", count))),
            ExprKind::Array { fields } => self
                .base("Array", e)
                .with("fields", J::Arr(fields.iter().map(|f| self.expr(*f)).collect())),
            ExprKind::Tuple { fields } => self
                .base("Tuple", e)
                .with("fields", J::Arr(fields.iter().map(|f| self.expr(*f)).collect())),
            ExprKind::Adt(adt) => {
                let v = adt.adt_def.variant(adt.variant_index);
                let mut fs = vec![];
                for f in adt.fields.iter() {
                    fs.push(
                        J::obj()
                            .with("name", J::s(v.fields[f.name].name.as_str()))
                            .with("e", self.expr(f.expr)),
                    );
                }
                let mut j = self
                    .base("Adt", e)
                    .with("adt", J::s(path_str(self.tcx, adt.adt_def.did())))
                    .with("variant", J::s(v.name.as_str()))
                    .with("fields", J::Arr(fs));
                match &adt.base {
                    AdtExprBase::None => {}
                    AdtExprBase::Base(b) => {
                        j.set("base", self.expr(b.base));
                    }
                    _ => {
                        j.set("base", J::s("default"));
                    }
                }
                j
            }
            ExprKind::Closure(c) => self
                .base("Closure", e)
                .with("def", J::s(path_str(self.tcx, c.closure_id.to_def_id())))
                .with("upvars", J::Arr(c.upvars.iter().map(|u| self.expr(*u)).collect())),
            ExprKind::Literal { lit, neg } => self
                .base("Lit", e)
                .with("neg", J::Bool(*neg))
                .with("v", J::s(lit_str(&lit.node))),
            ExprKind::NonHirLiteral { lit, .. } => self.base("Lit", e).with("v", J::s(format!("{:?}", lit))),
            ExprKind::ZstLiteral { .. } => {
                let mut j = self.base("Zst", e);
                if let ty::FnDef(did, _) = e.ty.kind() {
                    j.set("fn", J::s(path_str(self.tcx, *did)));
                }
                j
            }
            ExprKind::NamedConst { def_id, .. } => self
                .base("Const", e)
                .with("path", J::s(path_str(self.tcx, *def_id))),
            ExprKind::ConstParam { def_id, .. } => self
                .base("ConstParam", e)
                .with("path", J::s(path_str(self.tcx, *def_id))),
            ExprKind::StaticRef { def_id, .. } => self
                .base("Static", e)
                .with("path", J::s(path_str(self.tcx, *def_id))),
            ExprKind::ThreadLocalRef(d) => self.base("ThreadLocal", e).with("path", J::s(path_str(self.tcx, *d))),
            ExprKind::ConstBlock { .. } => self.base("ConstBlock", e),
            ExprKind::InlineAsm(_) => self.base("InlineAsm", e),
            ExprKind::Yield { value } => self.base("Yield", e).with("value", self.expr(*value)),
            ExprKind::Become { value } => self.base("Become", e).with("value", self.expr(*value)),
            _ => self.base("Other", e).with("dbg", J::s(format!("{:?}", e.kind).chars().take(80).collect::<String>())),
        }
    }

    pub fn pat(&self, p: &Pat<'tcx>) -> J {
        let mut j = J::obj();
        j.set("ty", J::s(ty_str(p.ty)));
        match &p.kind {
            PatKind::Missing => {
                j.set("k", J::s("Missing"));
            }
            PatKind::Wild => {
                j.set("k", J::s("Wild"));
            }
            PatKind::Binding {
                name,
                mode,
                var,
                subpattern,
                ..
            } => {
                j.set("k", J::s("Bind"));
                j.set("name", J::s(name.as_str()));
                j.set("id", J::Int(var.0.local_id.as_u32() as i64));
                j.set("mode", J::s(format!("{:?}", mode)));
                j.set(
                    "sub",
                    match subpattern {
                        Some(s) => self.pat(s),
                        None => J::Null,
                    },
                );
            }
            PatKind::Variant {
                adt_def,
                variant_index,
                subpatterns,
                ..
            } => {
                let v = adt_def.variant(*variant_index);
                j.set("k", J::s("Variant"));
                j.set("adt", J::s(path_str(self.tcx, adt_def.did())));
                j.set("variant", J::s(v.name.as_str()));
                j.set("nfields", J::Int(v.fields.len() as i64));
                let mut subs = vec![];
                for sp in subpatterns.iter() {
                    subs.push(
                        J::obj()
                            .with("f", J::s(v.fields[sp.field].name.as_str()))
                            .with("i", J::Int(sp.field.as_usize() as i64))
                            .with("p", self.pat(&sp.pattern)),
                    );
                }
                j.set("sub", J::Arr(subs));
            }
            PatKind::Leaf { subpatterns } => {
                j.set("k", J::s("Leaf"));
                let mut subs = vec![];
                for sp in subpatterns.iter() {
                    let fname = match p.ty.kind() {
                        ty::Adt(def, _) if def.is_struct() => def.non_enum_variant().fields[sp.field].name.as_str().to_string(),
                        _ => format!("{}", sp.field.as_usize()),
                    };
                    subs.push(
                        J::obj()
                            .with("f", J::s(fname))
                            .with("i", J::Int(sp.field.as_usize() as i64))
                            .with("p", self.pat(&sp.pattern)),
                    );
                }
                j.set("sub", J::Arr(subs));
            }
            PatKind::Deref { subpattern, .. } => {
                j.set("k", J::s("Deref"));
                j.set("sub", self.pat(subpattern));
            }
            PatKind::DerefPattern { subpattern, .. } => {
                j.set("k", J::s("DerefPattern"));
                j.set("sub", self.pat(subpattern));
            }
            PatKind::Constant { value } => {
                j.set("k", J::s("Const"));
                j.set("v", J::s(rustc_middle::ty::print::with_no_trimmed_paths!(format!("{}", value))));
            }
            PatKind::Range(r) => {
                j.set("k", J::s("Range"));
                j.set("v", J::s(rustc_middle::ty::print::with_no_trimmed_paths!(format!("{}", r))));
            }
            PatKind::Slice { prefix, slice, suffix } | PatKind::Array { prefix, slice, suffix } => {
                j.set("k", J::s("Slice"));
                j.set("prefix", J::Arr(prefix.iter().map(|x| self.pat(x)).collect()));
                j.set(
                    "slice",
                    match slice {
                        Some(s) => self.pat(s),
                        None => J::Null,
                    },
                );
                j.set("suffix", J::Arr(suffix.iter().map(|x| self.pat(x)).collect()));
            }
            PatKind::Or { pats } => {
                j.set("k", J::s("Or"));
                j.set("pats", J::Arr(pats.iter().map(|x| self.pat(x)).collect()));
            }
            PatKind::Guard { subpattern, condition } => {
                j.set("k", J::s("Guard"));
                j.set("sub", self.pat(subpattern));
                j.set("cond", self.expr(*condition));
            }
            PatKind::Never => {
                j.set("k", J::s("Never"));
            }
            PatKind::Error(_) => {
                j.set("k", J::s("Error"));
            }
        }
        j
    }
}

fn lit_str(l: &rustc_ast::LitKind) -> String {
    use rustc_ast::LitKind::*;
    match l {
        Str(s, _) => format!("s:{}", s.as_str()),
        ByteStr(b, _) => format!("b:{:?}", b),
        CStr(b, _) => format!("c:{:?}", b),
        Byte(b) => format!("u8:{}", b),
        Char(c) => format!("c:{}", c),
        Int(i, _) => format!("i:{}", i),
        Float(s, _) => format!("f:{}", s.as_str()),
        Bool(b) => format!("bool:{}", b),
        Err(_) => "err".to_string(),
    }
}
