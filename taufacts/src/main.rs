// taufacts: a rustc driver that dumps facts (items, THIR, MIR) about one crate as JSON.
//
// Used as RUSTC_WORKSPACE_WRAPPER under `cargo +nightly check`.  Environment:
//   TAUFACTS_OUT    path of the JSON file to write (required for the target crate)
//   TAUFACTS_CRATE  crate name to analyse (default: tau_engine)
//   TAUFACTS_NONCE  copied into the output so the caller can tell a fresh run from a replay
//
// Nothing of the analysed crate is executed: the driver only reads the compiler's own
// intermediate representations.
#![feature(rustc_private)]
#![allow(clippy::all)]

extern crate rustc_abi;
extern crate rustc_ast;
extern crate rustc_driver;
extern crate rustc_hir;
extern crate rustc_interface;
extern crate rustc_middle;
extern crate rustc_span;

mod json;
mod mir;
mod thir;

use json::J;
use rustc_driver::Compilation;
use rustc_hir::def::DefKind;
use rustc_middle::ty::print::with_no_trimmed_paths;
use rustc_middle::ty::{self, TyCtxt};
use rustc_span::def_id::LOCAL_CRATE;
use rustc_span::Span;

pub fn target_crate() -> String {
    std::env::var("TAUFACTS_CRATE").unwrap_or_else(|_| "tau_engine".to_string())
}

pub fn ty_str<'tcx>(ty: ty::Ty<'tcx>) -> String {
    with_no_trimmed_paths!(format!("{}", ty))
}

pub fn path_str(tcx: TyCtxt<'_>, did: rustc_span::def_id::DefId) -> String {
    with_no_trimmed_paths!(tcx.def_path_str(did))
}

/// Location of a span: the call site if it comes from an expansion, as "file:l:c-l:c".
pub fn span_json(tcx: TyCtxt<'_>, sp: Span) -> J {
    let sm = tcx.sess.source_map();
    let root = sp.source_callsite();
    let lo = sm.lookup_char_pos(root.lo());
    let hi = sm.lookup_char_pos(root.hi());
    let file = match &lo.file.name {
        rustc_span::FileName::Real(r) => r
            .local_path()
            .map(|p| p.display().to_string())
            .unwrap_or_else(|| format!("{:?}", lo.file.name)),
        other => format!("{:?}", other),
    };
    J::s(format!(
        "{}:{}:{}-{}:{}",
        file,
        lo.line,
        lo.col.0 + 1,
        hi.line,
        hi.col.0 + 1
    ))
}

/// Expansion chain of a span, innermost first: "macro:debug", "desugar:ForLoop", ...
pub fn exp_json(sp: Span) -> J {
    if !sp.from_expansion() {
        return J::Null;
    }
    let mut v = vec![];
    for d in sp.macro_backtrace() {
        use rustc_span::hygiene::ExpnKind;
        let s = match d.kind {
            ExpnKind::Root => "root".to_string(),
            ExpnKind::Macro(k, name) => format!("macro:{:?}:{}", k, name),
            ExpnKind::AstPass(p) => format!("astpass:{:?}", p),
            ExpnKind::Desugaring(k) => format!("desugar:{:?}", k),
        };
        v.push(J::s(s));
    }
    J::Arr(v)
}

struct Cb {
    thir: Option<J>,
    consts: Option<J>,
    items: Option<J>,
}

fn is_target(tcx: TyCtxt<'_>) -> bool {
    tcx.crate_name(LOCAL_CRATE).as_str() == target_crate()
}

impl rustc_driver::Callbacks for Cb {
    fn after_expansion<'tcx>(
        &mut self,
        _c: &rustc_interface::interface::Compiler,
        tcx: TyCtxt<'tcx>,
    ) -> Compilation {
        if !is_target(tcx) {
            return Compilation::Continue;
        }
        self.items = Some(items(tcx));
        let mut fns = vec![];
        for ldid in tcx.hir_body_owners() {
            let did = ldid.to_def_id();
            let dk = tcx.def_kind(did);
            match dk {
                DefKind::Fn | DefKind::AssocFn | DefKind::Closure => {}
                _ => continue,
            }
            let name = path_str(tcx, did);
            let Ok((steal, root)) = tcx.thir_body(ldid) else { continue };
            let th = steal.borrow();
            let d = thir::Dump { tcx, thir: &th };
            let mut f = J::obj();
            f.set("fn", J::s(name));
            f.set("kind", J::s(format!("{:?}", dk)));
            f.set("sp", span_json(tcx, tcx.def_span(did)));
            let mut params = vec![];
            for p in th.params.iter() {
                let mut pj = J::obj();
                pj.set("ty", J::s(ty_str(p.ty)));
                pj.set(
                    "pat",
                    match &p.pat {
                        Some(pt) => d.pat(pt),
                        None => J::Null,
                    },
                );
                params.push(pj);
            }
            f.set("params", J::Arr(params));
            f.set("body", d.expr(root));
            fns.push(f);
        }
        self.thir = Some(J::Arr(fns));
        // initialisers of local constants (`const N: usize = 64;`, associated consts): rules substitute them for the name
        let mut consts = vec![];
        for ldid in tcx.hir_body_owners() {
            let did = ldid.to_def_id();
            match tcx.def_kind(did) {
                DefKind::Const { .. } | DefKind::AssocConst { .. } => {}
                _ => continue,
            }
            let Ok((steal, root)) = tcx.thir_body(ldid) else { continue };
            let th = steal.borrow();
            let d = thir::Dump { tcx, thir: &th };
            let mut c = J::obj();
            c.set("path", J::s(path_str(tcx, did)));
            c.set("init", d.expr(root));
            consts.push(c);
        }
        self.consts = Some(J::Arr(consts));
        Compilation::Continue
    }

    fn after_analysis<'tcx>(
        &mut self,
        _c: &rustc_interface::interface::Compiler,
        tcx: TyCtxt<'tcx>,
    ) -> Compilation {
        if !is_target(tcx) {
            return Compilation::Continue;
        }
        let mirs = mir::dump_all(tcx);
        let mut root = J::obj();
        root.set(
            "nonce",
            J::s(std::env::var("TAUFACTS_NONCE").unwrap_or_default()),
        );
        root.set("crate", J::s(target_crate()));
        let mut cfgs = vec![];
        for (name, val) in tcx.sess.config.iter() {
            if name.as_str() == "feature" {
                if let Some(v) = val {
                    cfgs.push(J::s(v.as_str()));
                }
            }
        }
        root.set("features", J::Arr(cfgs));
        root.set("items", self.items.take().unwrap_or(J::Null));
        root.set("thir", self.thir.take().unwrap_or(J::Null));
        root.set("consts", self.consts.take().unwrap_or(J::Null));
        root.set("mir", mirs);
        let mut s = String::new();
        root.write(&mut s);
        if let Ok(p) = std::env::var("TAUFACTS_OUT") {
            std::fs::write(&p, s).expect("taufacts: cannot write output");
        }
        Compilation::Continue
    }
}

fn items(tcx: TyCtxt<'_>) -> J {
    let mut adts = vec![];
    let mut fns = vec![];
    let mut impls = vec![];
    let mut statics = vec![];
    let mut traits = vec![];
    let sm = tcx.sess.source_map();
    for id in tcx.hir_crate_items(()).definitions() {
        let did = id.to_def_id();
        let dk = tcx.def_kind(did);
        match dk {
            DefKind::Struct | DefKind::Enum | DefKind::Union => {
                let adt = tcx.adt_def(did);
                let mut a = J::obj();
                a.set("path", J::s(path_str(tcx, did)));
                a.set("kind", J::s(format!("{:?}", dk)));
                a.set("sp", span_json(tcx, tcx.def_span(did)));
                a.set("vis", J::s(format!("{:?}", tcx.visibility(did))));
                let mut vars = vec![];
                for v in adt.variants().iter() {
                    let mut vj = J::obj();
                    vj.set("name", J::s(v.name.as_str()));
                    let mut fs = vec![];
                    for f in v.fields.iter() {
                        let fty = tcx.type_of(f.did).instantiate_identity().skip_norm_wip();
                        let mut fj = J::obj();
                        fj.set("name", J::s(f.name.as_str()));
                        fj.set("ty", J::s(ty_str(fty)));
                        fj.set("vis", J::s(format!("{:?}", f.vis)));
                        // inert attributes (e.g. #[serde(..)]) as source text
                        let mut attrs = vec![];
                        if let Some(l) = f.did.as_local() {
                            let hid = tcx.local_def_id_to_hir_id(l);
                            for at in tcx.hir_attrs(hid) {
                                if let Ok(sn) = sm.span_to_snippet(at.span()) {
                                    attrs.push(J::s(sn));
                                }
                            }
                        }
                        fj.set("attrs", J::Arr(attrs));
                        fs.push(fj);
                    }
                    vj.set("fields", J::Arr(fs));
                    vars.push(vj);
                }
                a.set("variants", J::Arr(vars));
                adts.push(a);
            }
            DefKind::Fn | DefKind::AssocFn => {
                let mut f = J::obj();
                f.set("path", J::s(path_str(tcx, did)));
                f.set("kind", J::s(format!("{:?}", dk)));
                f.set("vis", J::s(format!("{:?}", tcx.visibility(did))));
                f.set("sp", span_json(tcx, tcx.def_span(did)));
                let sig = tcx.fn_sig(did).instantiate_identity().skip_norm_wip();
                f.set("sig", J::s(with_no_trimmed_paths!(format!("{}", sig))));
                f.set("has_body", J::Bool(tcx.hir_maybe_body_owned_by(id).is_some()));
                fns.push(f);
            }
            DefKind::Impl { of_trait } => {
                let mut i = J::obj();
                i.set("sp", span_json(tcx, tcx.def_span(did)));
                let self_ty = tcx.type_of(did).instantiate_identity().skip_norm_wip();
                i.set("self", J::s(ty_str(self_ty)));
                if of_trait {
                    let tr = tcx.impl_trait_ref(did).instantiate_identity().skip_norm_wip();
                    i.set("trait", J::s(path_str(tcx, tr.def_id)));
                    i.set("trait_ref", J::s(with_no_trimmed_paths!(format!("{}", tr))));
                } else {
                    i.set("trait", J::Null);
                }
                let mut ms = vec![];
                for it in tcx.associated_items(did).in_definition_order() {
                    ms.push(J::s(it.name().as_str()));
                }
                i.set("items", J::Arr(ms));
                i.set(
                    "exp",
                    exp_json(tcx.def_span(did)),
                );
                impls.push(i);
            }
            DefKind::Static { mutability, .. } => {
                let mut s = J::obj();
                s.set("path", J::s(path_str(tcx, did)));
                s.set("mut", J::Bool(mutability.is_mut()));
                s.set("sp", span_json(tcx, tcx.def_span(did)));
                s.set("exp", exp_json(tcx.def_span(did)));
                let t = tcx.type_of(did).instantiate_identity().skip_norm_wip();
                s.set("ty", J::s(ty_str(t)));
                statics.push(s);
            }
            DefKind::Trait => {
                let mut t = J::obj();
                t.set("path", J::s(path_str(tcx, did)));
                let mut ms = vec![];
                for it in tcx.associated_items(did).in_definition_order() {
                    let mut m = J::obj();
                    m.set("name", J::s(it.name().as_str()));
                    m.set("has_default", J::Bool(it.defaultness(tcx).has_value()));
                    ms.push(m);
                }
                t.set("items", J::Arr(ms));
                let preds = tcx.explicit_super_predicates_of(did);
                let mut sup = vec![];
                for (p, _) in preds.iter_identity_copied().map(|x| x.skip_norm_wip()) {
                    sup.push(J::s(with_no_trimmed_paths!(format!("{}", p))));
                }
                t.set("supers", J::Arr(sup));
                traits.push(t);
            }
            _ => {}
        }
    }
    J::obj()
        .with("adts", J::Arr(adts))
        .with("fns", J::Arr(fns))
        .with("impls", J::Arr(impls))
        .with("statics", J::Arr(statics))
        .with("traits", J::Arr(traits))
}

fn main() {
    let mut args: Vec<String> = std::env::args().collect();
    // RUSTC_WORKSPACE_WRAPPER passes the real rustc as argv[1]
    if args.len() > 1 && (args[1].ends_with("rustc") || args[1].contains("/rustc")) {
        args.remove(1);
    }
    let mut cb = Cb {
        thir: None,
        consts: None,
        items: None,
    };
    rustc_driver::run_compiler(&args, &mut cb);
}
