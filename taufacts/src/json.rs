// Minimal JSON value + writer (the driver has no cargo dependencies).
use std::fmt::Write;

#[derive(Clone, Debug)]
pub enum J {
    Null,
    Bool(bool),
    Int(i64),
    Str(String),
    Arr(Vec<J>),
    Obj(Vec<(String, J)>),
}

impl J {
    pub fn obj() -> J {
        J::Obj(Vec::new())
    }
    pub fn s<S: Into<String>>(s: S) -> J {
        J::Str(s.into())
    }
    pub fn set<S: Into<String>>(&mut self, k: S, v: J) -> &mut J {
        if let J::Obj(o) = self {
            o.push((k.into(), v));
        }
        self
    }
    pub fn with<S: Into<String>>(mut self, k: S, v: J) -> J {
        self.set(k, v);
        self
    }
    pub fn write(&self, out: &mut String) {
        match self {
            J::Null => out.push_str("null"),
            J::Bool(b) => out.push_str(if *b { "true" } else { "false" }),
            J::Int(i) => {
                let _ = write!(out, "{}", i);
            }
            J::Str(s) => esc(s, out),
            J::Arr(a) => {
                out.push('[');
                for (i, v) in a.iter().enumerate() {
                    if i > 0 {
                        out.push(',');
                    }
                    v.write(out);
                }
                out.push(']');
            }
            J::Obj(o) => {
                out.push('{');
                for (i, (k, v)) in o.iter().enumerate() {
                    if i > 0 {
                        out.push(',');
                    }
                    esc(k, out);
                    out.push(':');
                    v.write(out);
                }
                out.push('}');
            }
        }
    }
}

fn esc(s: &str, out: &mut String) {
    out.push('"');
    for c in s.chars() {
        match c {
            '"' => out.push_str("\\\""),
            '\\' => out.push_str("\\\\"),
            '\n' => out.push_str("\\n"),
            '\r' => out.push_str("\\r"),
            '\t' => out.push_str("\\t"),
            c if (c as u32) < 0x20 => {
                let _ = write!(out, "\\u{:04x}", c as u32);
            }
            c => out.push(c),
        }
    }
    out.push('"');
}
