// MIR (optimized_mir at -Zmir-opt-level=0) -> JSON.
use crate::json::J;
use crate::{exp_json, path_str, span_json, ty_str};
use rustc_hir::def::DefKind;
use rustc_middle::mir::*;
use rustc_middle::ty::{self, TyCtxt};

fn operand<'tcx>(tcx: TyCtxt<'tcx>, o: &Operand<'tcx>) -> J {
    match o {
        Operand::Copy(p) => J::obj().with("k", J::s("copy")).with("p", place(p)),
        Operand::Move(p) => J::obj().with("k", J::s("move")).with("p", place(p)),
        Operand::Constant(c) => {
            let mut j = J::obj().with("k", J::s("const"));
            let t = c.const_.ty();
            j.set("ty", J::s(ty_str(t)));
            if let ty::FnDef(d, _) = t.kind() {
                j.set("fn", J::s(path_str(tcx, *d)));
            } else {
                j.set(
                    "v",
                    J::s(rustc_middle::ty::print::with_no_trimmed_paths!(format!("{}", c.const_))),
                );
            }
            j
        }
        #[allow(unreachable_patterns)]
        _ => J::obj().with("k", J::s("other")).with("dbg", J::s(format!("{:?}", o))),
    }
}

fn place(p: &Place<'_>) -> J {
    // "_3", "(*_3).0", ... ; also the base local for convenience
    J::obj()
        .with("s", J::s(format!("{:?}", p)))
        .with("l", J::Int(p.local.as_u32() as i64))
        .with("nproj", J::Int(p.projection.len() as i64))
}

fn rvalue<'tcx>(tcx: TyCtxt<'tcx>, rv: &Rvalue<'tcx>) -> J {
    match rv {
        Rvalue::Use(o, ..) => J::obj().with("k", J::s("Use")).with("ops", J::Arr(vec![operand(tcx, o)])),
        Rvalue::Repeat(o, c) => J::obj()
            .with("k", J::s("Repeat"))
            .with("ops", J::Arr(vec![operand(tcx, o)]))
            .with("count", J::s(format!("{}", c))),
        Rvalue::Ref(_, bk, p) => J::obj()
            .with("k", J::s("Ref"))
            .with("mut", J::Bool(matches!(bk, BorrowKind::Mut { .. })))
            .with("bk", J::s(format!("{:?}", bk)))
            .with("p", place(p)),
        Rvalue::ThreadLocalRef(d) => J::obj().with("k", J::s("ThreadLocalRef")).with("path", J::s(path_str(tcx, *d))),
        Rvalue::RawPtr(_, p) => J::obj().with("k", J::s("RawPtr")).with("p", place(p)),
        Rvalue::Cast(ck, o, t) => J::obj()
            .with("k", J::s("Cast"))
            .with("cast", J::s(format!("{:?}", ck)))
            .with("to", J::s(ty_str(*t)))
            .with("ops", J::Arr(vec![operand(tcx, o)])),
        Rvalue::BinaryOp(op, b) => J::obj()
            .with("k", J::s("BinaryOp"))
            .with("op", J::s(format!("{:?}", op)))
            .with("ops", J::Arr(vec![operand(tcx, &b.0), operand(tcx, &b.1)])),
        Rvalue::UnaryOp(op, o) => J::obj()
            .with("k", J::s("UnaryOp"))
            .with("op", J::s(format!("{:?}", op)))
            .with("ops", J::Arr(vec![operand(tcx, o)])),
        Rvalue::Discriminant(p) => J::obj().with("k", J::s("Discriminant")).with("p", place(p)),
        Rvalue::Aggregate(ak, ops) => {
            let mut j = J::obj().with("k", J::s("Aggregate"));
            match &**ak {
                AggregateKind::Array(t) => {
                    j.set("agg", J::s("Array"));
                    j.set("elem", J::s(ty_str(*t)));
                }
                AggregateKind::Tuple => {
                    j.set("agg", J::s("Tuple"));
                }
                AggregateKind::Adt(d, vi, _, _, _) => {
                    j.set("agg", J::s("Adt"));
                    j.set("adt", J::s(path_str(tcx, *d)));
                    let def = tcx.adt_def(*d);
                    j.set("variant", J::s(def.variant(*vi).name.as_str()));
                }
                AggregateKind::Closure(d, _) => {
                    j.set("agg", J::s("Closure"));
                    j.set("def", J::s(path_str(tcx, *d)));
                }
                other => {
                    j.set("agg", J::s(format!("{:?}", other).chars().take(40).collect::<String>()));
                }
            }
            j.set("ops", J::Arr(ops.iter().map(|o| operand(tcx, o)).collect()));
            j
        }
        Rvalue::CopyForDeref(p) => J::obj().with("k", J::s("CopyForDeref")).with("p", place(p)),
        other => J::obj()
            .with("k", J::s("Other"))
            .with("dbg", J::s(format!("{:?}", other).chars().take(80).collect::<String>())),
    }
}

fn callee<'tcx>(tcx: TyCtxt<'tcx>, body: &Body<'tcx>, def: rustc_span::def_id::DefId, func: &Operand<'tcx>, j: &mut J) {
    match func {
        Operand::Constant(c) => {
            if let ty::FnDef(cd, gargs) = c.const_.ty().kind() {
                j.set("fn", J::s(path_str(tcx, *cd)));
                j.set("local", J::Bool(cd.is_local()));
                let mut g = vec![];
                for a in gargs.iter() {
                    g.push(J::s(rustc_middle::ty::print::with_no_trimmed_paths!(format!("{}", a))));
                }
                j.set("gen", J::Arr(g));
                // try to resolve trait methods to the implementation that will run
                let env = ty::TypingEnv::post_analysis(tcx, def);
                if let Ok(Some(inst)) = ty::Instance::try_resolve(tcx, env, *cd, gargs) {
                    let rd = inst.def_id();
                    j.set("res", J::s(path_str(tcx, rd)));
                    j.set("res_local", J::Bool(rd.is_local()));
                    j.set("res_kind", J::s(format!("{:?}", inst.def).split('(').next().unwrap_or("").to_string()));
                } else {
                    j.set("res", J::Null);
                }
                return;
            }
            j.set("fn", J::Null);
            j.set("fun", operand(tcx, func));
        }
        Operand::Copy(p) | Operand::Move(p) => {
            j.set("fn", J::Null);
            j.set("fun_ty", J::s(ty_str(p.ty(body, tcx).ty)));
            j.set("fun", operand(tcx, func));
        }
        #[allow(unreachable_patterns)]
        _ => {
            j.set("fn", J::Null);
        }
    }
}

pub fn dump_all(tcx: TyCtxt<'_>) -> J {
    let mut out = vec![];
    for ldid in tcx.hir_body_owners() {
        let did = ldid.to_def_id();
        let dk = tcx.def_kind(did);
        match dk {
            DefKind::Fn | DefKind::AssocFn | DefKind::Closure => {}
            _ => continue,
        }
        let body = tcx.optimized_mir(did);
        let mut f = J::obj();
        f.set("fn", J::s(path_str(tcx, did)));
        f.set("kind", J::s(format!("{:?}", dk)));
        f.set("sp", span_json(tcx, tcx.def_span(did)));
        f.set("exp", exp_json(tcx.def_span(did)));
        f.set("argc", J::Int(body.arg_count as i64));
        // locals
        let mut names: Vec<Option<String>> = vec![None; body.local_decls.len()];
        for vdi in body.var_debug_info.iter() {
            if let VarDebugInfoContents::Place(p) = &vdi.value {
                if p.projection.is_empty() {
                    names[p.local.as_usize()] = Some(vdi.name.as_str().to_string());
                }
            }
        }
        let mut locals = vec![];
        for (l, d) in body.local_decls.iter_enumerated() {
            let mut lj = J::obj();
            lj.set("ty", J::s(ty_str(d.ty)));
            lj.set(
                "name",
                match &names[l.as_usize()] {
                    Some(n) => J::s(n.clone()),
                    None => J::Null,
                },
            );
            locals.push(lj);
        }
        f.set("locals", J::Arr(locals));
        let mut blocks = vec![];
        for (_bbi, bb) in body.basic_blocks.iter_enumerated() {
            let mut bj = J::obj();
            bj.set("cleanup", J::Bool(bb.is_cleanup));
            let mut stmts = vec![];
            for st in bb.statements.iter() {
                match &st.kind {
                    StatementKind::Assign(b) => {
                        let (p, rv) = &**b;
                        let mut sj = J::obj();
                        sj.set("k", J::s("Assign"));
                        sj.set("lhs", place(p));
                        sj.set("rv", rvalue(tcx, rv));
                        sj.set("sp", span_json(tcx, st.source_info.span));
                        let ex = exp_json(st.source_info.span);
                        if !matches!(ex, J::Null) {
                            sj.set("exp", ex);
                        }
                        stmts.push(sj);
                    }
                    StatementKind::SetDiscriminant { place: p, variant_index } => {
                        stmts.push(
                            J::obj()
                                .with("k", J::s("SetDiscriminant"))
                                .with("lhs", place(p))
                                .with("variant", J::Int(variant_index.as_u32() as i64)),
                        );
                    }
                    StatementKind::StorageLive(_)
                    | StatementKind::StorageDead(_)
                    | StatementKind::Nop
                    | StatementKind::FakeRead(_)
                    | StatementKind::PlaceMention(_)
                    | StatementKind::AscribeUserType(..)
                    | StatementKind::Coverage(_)
                    | StatementKind::ConstEvalCounter
                    | StatementKind::BackwardIncompatibleDropHint { .. } => {}
                    other => {
                        stmts.push(
                            J::obj()
                                .with("k", J::s("Other"))
                                .with("dbg", J::s(format!("{:?}", other).chars().take(80).collect::<String>())),
                        );
                    }
                }
            }
            bj.set("stmts", J::Arr(stmts));
            let mut tj = J::obj();
            if let Some(t) = &bb.terminator {
                tj.set("sp", span_json(tcx, t.source_info.span));
                let ex = exp_json(t.source_info.span);
                if !matches!(ex, J::Null) {
                    tj.set("exp", ex);
                }
                match &t.kind {
                    TerminatorKind::Goto { target } => {
                        tj.set("k", J::s("Goto"));
                        tj.set("succ", J::Arr(vec![J::Int(target.as_u32() as i64)]));
                    }
                    TerminatorKind::SwitchInt { discr, targets } => {
                        tj.set("k", J::s("SwitchInt"));
                        tj.set("discr", operand(tcx, discr));
                        let mut vals = vec![];
                        let mut succ = vec![];
                        for (v, b) in targets.iter() {
                            vals.push(J::s(format!("{}", v)));
                            succ.push(J::Int(b.as_u32() as i64));
                        }
                        succ.push(J::Int(targets.otherwise().as_u32() as i64));
                        tj.set("vals", J::Arr(vals));
                        tj.set("succ", J::Arr(succ));
                    }
                    TerminatorKind::Return => {
                        tj.set("k", J::s("Return"));
                        tj.set("succ", J::Arr(vec![]));
                    }
                    TerminatorKind::Unreachable => {
                        tj.set("k", J::s("Unreachable"));
                        tj.set("succ", J::Arr(vec![]));
                    }
                    TerminatorKind::UnwindResume | TerminatorKind::UnwindTerminate(_) => {
                        tj.set("k", J::s("Unwind"));
                        tj.set("succ", J::Arr(vec![]));
                    }
                    TerminatorKind::Drop { place: p, target, unwind, .. } => {
                        tj.set("k", J::s("Drop"));
                        tj.set("p", place(p));
                        tj.set("pty", J::s(ty_str(p.ty(body, tcx).ty)));
                        tj.set("succ", J::Arr(vec![J::Int(target.as_u32() as i64)]));
                        if let UnwindAction::Cleanup(b) = unwind {
                            tj.set("unwind", J::Int(b.as_u32() as i64));
                        }
                    }
                    TerminatorKind::Call {
                        func,
                        args,
                        destination,
                        target,
                        unwind,
                        ..
                    } => {
                        tj.set("k", J::s("Call"));
                        callee(tcx, body, did, func, &mut tj);
                        tj.set("args", J::Arr(args.iter().map(|a| operand(tcx, &a.node)).collect()));
                        tj.set("dest", place(destination));
                        tj.set(
                            "succ",
                            J::Arr(match target {
                                Some(b) => vec![J::Int(b.as_u32() as i64)],
                                None => vec![],
                            }),
                        );
                        if let UnwindAction::Cleanup(b) = unwind {
                            tj.set("unwind", J::Int(b.as_u32() as i64));
                        }
                    }
                    TerminatorKind::Assert {
                        cond,
                        expected,
                        msg,
                        target,
                        ..
                    } => {
                        tj.set("k", J::s("Assert"));
                        tj.set("cond", operand(tcx, cond));
                        tj.set("expected", J::Bool(*expected));
                        let (kind, detail) = match &**msg {
                            AssertKind::Overflow(op, a, b) => (
                                "Overflow".to_string(),
                                J::obj()
                                    .with("op", J::s(format!("{:?}", op)))
                                    .with("ops", J::Arr(vec![operand(tcx, a), operand(tcx, b)])),
                            ),
                            AssertKind::OverflowNeg(a) => ("OverflowNeg".to_string(), J::obj().with("ops", J::Arr(vec![operand(tcx, a)]))),
                            AssertKind::BoundsCheck { len, index } => (
                                "BoundsCheck".to_string(),
                                J::obj().with("ops", J::Arr(vec![operand(tcx, len), operand(tcx, index)])),
                            ),
                            AssertKind::DivisionByZero(a) => ("DivisionByZero".to_string(), J::obj().with("ops", J::Arr(vec![operand(tcx, a)]))),
                            AssertKind::RemainderByZero(a) => ("RemainderByZero".to_string(), J::obj().with("ops", J::Arr(vec![operand(tcx, a)]))),
                            other => (
                                format!("{:?}", std::mem::discriminant(other)),
                                J::obj().with("dbg", J::s(format!("{:?}", other).chars().take(60).collect::<String>())),
                            ),
                        };
                        tj.set("assert", J::s(kind));
                        tj.set("detail", detail);
                        tj.set("succ", J::Arr(vec![J::Int(target.as_u32() as i64)]));
                    }
                    TerminatorKind::FalseEdge { real_target, .. } => {
                        tj.set("k", J::s("Goto"));
                        tj.set("succ", J::Arr(vec![J::Int(real_target.as_u32() as i64)]));
                    }
                    TerminatorKind::FalseUnwind { real_target, .. } => {
                        tj.set("k", J::s("Goto"));
                        tj.set("succ", J::Arr(vec![J::Int(real_target.as_u32() as i64)]));
                    }
                    other => {
                        tj.set("k", J::s("Other"));
                        tj.set("dbg", J::s(format!("{:?}", other).chars().take(80).collect::<String>()));
                        tj.set(
                            "succ",
                            J::Arr(t.successors().map(|b| J::Int(b.as_u32() as i64)).collect()),
                        );
                    }
                }
            }
            bj.set("term", tj);
            blocks.push(bj);
        }
        f.set("blocks", J::Arr(blocks));
        out.push(f);
    }
    J::Arr(out)
}
